#!/usr/bin/env python3
"""Confirms staged seeded mutants on a scratch clone of /repo (never /repo itself):
  - the patch applies to the current HEAD and builds,
  - the demonstration test FAILS with the patch and PASSES without it,
  - the repository's own suite still passes with the patch (every test of
    BASELINE.json's stable_pass passes).
Writes <mutant>/confirm.json. Usage: confirm_mutants.py <dir> [<dir>...]
"""
import json, os, re, subprocess, sys, shutil, tempfile

ENV = dict(os.environ, GOFLAGS="-mod=mod", GOPROXY="off")
ENV.pop("GOTOOLCHAIN", None); ENV.pop("GOSUMDB", None)
W = "/tmp/mutconfirm"

def sh(cmd, cwd=W, timeout=3000):
    p = subprocess.run(cmd, shell=True, cwd=cwd, env=ENV, stdout=subprocess.PIPE, stderr=subprocess.STDOUT, text=True, timeout=timeout, errors="replace")
    return p.returncode, p.stdout

def fresh():
    if os.path.isdir(W):
        shutil.rmtree(W)
    rc, out = sh(f"git clone -q /repo {W}", cwd="/tmp")
    assert rc == 0, out

def suite():
    fd, path = tempfile.mkstemp(prefix="mutsuite", suffix=".json", dir="/tmp"); os.close(fd)
    sh(f"go test -json -vet=off -count=1 -timeout 25m ./... > {path} 2>/dev/null")
    passed = set(); failed = set()
    for line in open(path, errors="replace"):
        line = line.strip()
        if not line.startswith("{"): continue
        try: e = json.loads(line)
        except Exception: continue
        if e.get("Test") and e.get("Action") in ("pass", "fail"):
            (passed if e["Action"] == "pass" else failed).add(e["Package"] + "::" + e["Test"])
    os.remove(path)
    base = json.load(open("/root/.vp/BASELINE.json"))["stable_pass"]
    missing = [t for t in base if t not in passed]
    return len(passed), missing

def main():
    fresh()
    for d in sys.argv[1:]:
        d = os.path.abspath(d)
        meta = json.load(open(os.path.join(d, "meta.json")))
        run = meta.get("demo_run", "")
        m = re.search(r"cp \S*demo_test\.go (\S+)", run)
        t = re.search(r"-run '?\^?([A-Za-z0-9_]+)", run)
        res = {"head": sh("git rev-parse --short HEAD")[1].strip()}
        if not m or not t:
            res["error"] = "cannot parse demo_run"
            json.dump(res, open(os.path.join(d, "confirm.json"), "w"), indent=1); print(d, res); continue
        dest = m.group(1); pkgdir = os.path.dirname(dest) or "."
        test = t.group(1)
        demo_dst = os.path.join(W, pkgdir, "zz_verif_demo_test.go")
        sh("git checkout -q -- . && git clean -fdq")
        rc, out = sh(f"git apply --check {d}/patch.diff")
        if rc != 0:
            res["error"] = "patch does not apply: " + out[:300]
            json.dump(res, open(os.path.join(d, "confirm.json"), "w"), indent=1); print(d, res); continue
        sh(f"git apply {d}/patch.diff")
        rc, out = sh("go build ./...")
        res["builds"] = rc == 0
        # suite with the patch, without the demo
        npass, missing = suite()
        res["suite_passed"] = npass; res["suite_missing"] = missing[:10]
        shutil.copy(os.path.join(d, "demo_test.go"), demo_dst)
        race = " -race" if meta.get("property") == "C15" else ""
        tg = re.search(r"-tags (\S+)", run)
        if tg:
            race += " -tags " + tg.group(1)
            res["demo_build_tags"] = tg.group(1)
        fails = 0; runs = 3 if race else 1
        for _ in range(runs):
            rc, out = sh(f"go test -vet=off -count=1{race} -run '^{test}' ./{pkgdir}", timeout=1200)
            if rc != 0: fails += 1
        res["demo_with_patch_fail_runs"] = f"{fails}/{runs}"; res["demo_with_patch_tail"] = out[-600:]
        os.remove(demo_dst)
        sh("git checkout -q -- . && git clean -fdq")
        shutil.copy(os.path.join(d, "demo_test.go"), demo_dst)
        rc, out = sh(f"go test -vet=off -count=1{race} -run '^{test}' ./{pkgdir}", timeout=1200)
        res["demo_pristine_passes"] = rc == 0
        if rc != 0: res["demo_pristine_tail"] = out[-600:]
        os.remove(demo_dst)
        res["confirmed"] = bool(res["builds"] and not missing and fails > 0 and res["demo_pristine_passes"])
        json.dump(res, open(os.path.join(d, "confirm.json"), "w"), indent=1)
        print(os.path.basename(d), "confirmed" if res["confirmed"] else "NOT CONFIRMED", {k: v for k, v in res.items() if k not in ("demo_with_patch_tail",)}, flush=True)
    shutil.rmtree(W, ignore_errors=True)

main()
