#!/bin/bash
# validates MANIFEST.json and every evidence file against the schemas
python3-vt - <<'PY'
import json, jsonschema, glob
jsonschema.validate(json.load(open('/verif/MANIFEST.json')), json.load(open('/root/.vp/MANIFEST.schema.json')))
s = json.load(open('/root/.vp/EVIDENCE.schema.json'))
for f in sorted(glob.glob('/verif/evidence/*.json')):
    jsonschema.validate(json.load(open(f)), s)
    print('ok', f)
print('manifest ok')
PY
