#!/bin/bash
# stage_mutants.sh <round-dir> <Cxx>...: copies <round-dir>/<Cxx>/mutants/mN to seeded/unconfirmed/<Cxx>-m<next>
cd "$(dirname "$0")/.."
round="$1"; shift
mkdir -p seeded/unconfirmed
for p in "$@"; do
  for d in "$round/$p"/mutants/m*; do
    [ -f "$d/patch.diff" ] || continue
    n=1; while [ -e "seeded/$p-m$n" ] || [ -e "seeded/unconfirmed/$p-m$n" ]; do n=$((n+1)); done
    mkdir -p "seeded/unconfirmed/$p-m$n"
    cp "$d/patch.diff" "$d/demo_test.go" "$d/meta.json" "seeded/unconfirmed/$p-m$n/"
    echo "$d -> seeded/unconfirmed/$p-m$n"
  done
done
