#!/usr/bin/env python3
"""Re-runs the detection of every promoted seeded change against the CURRENT checks, in parallel,
on scratch copies (never touches /repo or /verif/evidence):
  worker w: /tmp/rd/w/repo = clone of /repo HEAD, /tmp/rd/w/verif = copy of /verif whose go.mod
  replace directive and root constant point at the worker's directories, own GOCACHE.
  per change: git apply patch.diff; ./check <property...> quick (VERIF_SEED=1); git checkout.
Results are merged into seeded/<id>/meta.json ("detection"). Changes marked neutralised_by are skipped.
Usage: redetect.py [--workers N] [<id> ...]
"""
import json, os, re, subprocess, sys, shutil, threading, queue, time

ROOT = "/verif"
RD = "/tmp/rd"
ENV = dict(os.environ); ENV.pop("GOTOOLCHAIN", None); ENV.pop("GOSUMDB", None)
ENV.update(GOFLAGS="-mod=mod", GOPROXY="off", VERIF_SEED="1")

def run(cmd, cwd=None, env=None):
    p = subprocess.run(cmd, shell=True, cwd=cwd, env=env or ENV, stdout=subprocess.PIPE, stderr=subprocess.STDOUT, text=True, errors="replace")
    return p.returncode, p.stdout

def setup(w):
    d = f"{RD}/{w}"
    shutil.rmtree(d, ignore_errors=True)
    os.makedirs(d)
    rc, out = run(f"git clone -q /repo {d}/repo")
    assert rc == 0, out
    rc, out = run(f"rsync -a --exclude .git --exclude run --exclude replay --exclude bin --exclude evidence --exclude .sweep --exclude seeded {ROOT}/ {d}/verif/")
    assert rc == 0, out
    gm = open(f"{d}/verif/go.mod").read().replace("=> /repo", f"=> {d}/repo")
    open(f"{d}/verif/go.mod", "w").write(gm)
    mp = f"{d}/verif/cmd/vcheck/main.go"
    src = open(mp).read()
    assert 'const root = "/verif"' in src
    open(mp, "w").write(src.replace('const root = "/verif"', f'const root = "{d}/verif"'))
    return d

def check(d, env, prop):
    rc, out = run(f"./check {prop} quick", cwd=f"{d}/verif", env=env)
    dets = {}
    for m in re.finditer(r"^\s+detector=(\S+) keys=(map\[[^\]]*\])", out, re.M):
        dets.setdefault(m.group(1), m.group(2))
    summary = [l for l in out.splitlines() if re.match(r"^C\d+ quick", l)]
    res = {"exit": rc, "violation_lines": len(re.findall(r"^VIOLATION ", out, re.M)), "detectors": dets, "summary": summary[-1][:200] if summary else ""}
    if rc not in (0, 1):
        res["tail"] = out[-400:]
    return res

def worker(w, q, results):
    d = setup(w)
    env = dict(ENV, GOCACHE=f"{d}/gocache")
    while True:
        try:
            i = q.get_nowait()
        except queue.Empty:
            break
        md = f"{ROOT}/seeded/{i}"
        meta = json.load(open(f"{md}/meta.json"))
        props = [meta["property"]] + [p for p in (meta.get("detection", {}).get("results") or {}) if p != meta["property"]]
        rc, out = run(f"du -sm {d}/gocache 2>/dev/null | cut -f1")
        try:
            if int(out.strip() or 0) > 25000:
                shutil.rmtree(f"{d}/gocache", ignore_errors=True)
        except ValueError:
            pass
        run("git checkout -q -- . && git clean -fdq", cwd=f"{d}/repo")
        rc, out = run(f"git apply {md}/patch.diff", cwd=f"{d}/repo")
        if rc != 0:
            results[i] = {"error": "patch does not apply: " + out[:200]}
            print(i, "PATCH DOES NOT APPLY", flush=True)
            continue
        res = {}
        for p in props:
            res[p] = check(d, env, p)
        run("git checkout -q -- .", cwd=f"{d}/repo")
        results[i] = {"results": res}
        caught = sorted(p for p, r in res.items() if r["exit"] == 1 and r["violation_lines"] > 0)
        print(i, "->", caught, {p: (r["exit"], list(r["detectors"])[:3]) for p, r in res.items()}, flush=True)
    shutil.rmtree(d, ignore_errors=True)

def main():
    args = sys.argv[1:]
    nw = 3
    if args and args[0] == "--workers":
        nw = int(args[1]); args = args[2:]
    ids = args or sorted(x for x in os.listdir(f"{ROOT}/seeded") if re.match(r"^C\d+-m\d+$", x))
    rc, out = run("git status --porcelain", cwd="/repo")
    if out.strip():
        print("/repo is not clean"); sys.exit(2)
    head = run("git rev-parse --short HEAD", cwd="/repo")[1].strip()
    q = queue.Queue()
    skipped = []
    for i in ids:
        meta = json.load(open(f"{ROOT}/seeded/{i}/meta.json"))
        if meta.get("neutralised_by"):
            skipped.append(i); continue
        q.put(i)
    results = {}
    ts = [threading.Thread(target=worker, args=(w, q, results)) for w in range(nw)]
    for t in ts: t.start()
    for t in ts: t.join()
    missed = []
    for i, r in sorted(results.items()):
        mp = f"{ROOT}/seeded/{i}/meta.json"
        meta = json.load(open(mp))
        if "error" in r:
            meta.setdefault("detection", {})["redetect_error"] = r["error"]; missed.append(i)
        else:
            caught = sorted(p for p, x in r["results"].items() if x["exit"] == 1 and x["violation_lines"] > 0)
            meta["detection"] = {
                "ran": f"tools/redetect.py on a scratch clone of /repo at {head} and a copy of /verif: git apply patch.diff; ./check <property> quick (VERIF_SEED=1)",
                "results": r["results"], "caught_by": caught,
            }
            if not caught: missed.append(i)
        json.dump(meta, open(mp, "w"), indent=1)
    print("done:", len(results), "re-run,", len(skipped), "skipped (neutralised):", skipped, "; NOT CAUGHT:", missed)

main()
