#!/bin/bash
# tools/sweep.sh <seed> [tier] [props...] : runs the checks one after the other, prints one line per check
seed=${1:-1}; tier=${2:-quick}; shift; shift
props=${@:-C01 C02 C03 C04 C05 C06 C07 C08 C09 C10 C11 C12 C13 C14 C15 C16 C17 C18 C19 C20}
cd /verif
mkdir -p .sweep
for p in $props; do
  VERIF_SEED=$seed ./check $p $tier > .sweep/$p-$seed-$tier.log 2>&1
  rc=$?
  echo "rc=$rc $(grep -a "^$p $tier" .sweep/$p-$seed-$tier.log | cut -c1-170) $(grep -ac '^INCONCLUSIVE' .sweep/$p-$seed-$tier.log) inconclusive-lines"
done
