#!/usr/bin/env python3
"""Rewrites the seeded-change table of DESIGN.md §10.1 from seeded/*/meta.json."""
import json, os, glob, re
rows = []
for d in sorted(glob.glob('/verif/seeded/C*-m*'), key=lambda p: (p.split('/')[-1].split('-')[0], int(p.split('-m')[-1]))):
    m = json.load(open(d + '/meta.json'))
    i = os.path.basename(d)
    det = m.get('detection', {})
    dets = []
    for p, r in det.get('results', {}).items():
        if r['exit'] == 1:
            dets.append(p + ': ' + ', '.join(list(r['detectors'])[:3]))
    summ = m.get('summary', '').replace('|', '/').replace('\n', ' ')
    if len(summ) > 170:
        summ = summ[:167] + '…'
    if m.get('neutralised_by'):
        rows.append(f"| {i} | {summ} | — ({m.get('neutralised_short', 'neutralised by a later repair')}) |")
    else:
        rows.append(f"| {i} | {summ} | {'; '.join(dets) if dets else 'NOT CAUGHT'} |")
table = "| id | change | caught by (check: first detectors) |\n|---|---|---|\n" + "\n".join(rows) + "\n"
p = '/verif/DESIGN.md'
s = open(p).read()
b, e = '<!-- MUTANT-TABLE-BEGIN -->\n', '<!-- MUTANT-TABLE-END -->\n'
if b in s:
    s = s[:s.index(b) + len(b)] + table + s[s.index(e):]
else:
    a = s.index('| id | change | caught by (check: first detectors) |')
    z = s.index('\nWhat the seeded changes taught')
    s = s[:a] + b + table + e + s[z:]
open(p, 'w').write(s)
print(len(rows), 'rows;', sum('NOT CAUGHT' in r for r in rows), 'not caught')
