#!/bin/bash
# tools/mutant.sh <mutant-dir> <prop> [<prop>...]
# Applies <mutant-dir>/patch.diff to /repo, runs the quick checks, reverts.
# Used only while validating the machinery; never leaves /repo modified.
d="$1"; shift
cd /repo || exit 2
if ! git diff --quiet; then echo "/repo has uncommitted changes"; exit 2; fi
if ! git apply --check "$d/patch.diff" 2>/dev/null; then echo "PATCH-DOES-NOT-APPLY $d"; exit 3; fi
git apply "$d/patch.diff"
trap 'cd /repo && git checkout -- . ' EXIT
rc=0
if [ "$(du -sm "$(go env GOCACHE)" 2>/dev/null | cut -f1)" -gt 40000 ] 2>/dev/null; then go clean -cache; fi
for p in "$@"; do
  out=$(cd /verif && ./check "$p" ${TIER:-quick} 2>&1)
  r=$?
  echo "$out" | grep -E "^(VIOLATION|KNOWN-FINDING|INCONCLUSIVE|BUILD-FAILED|C[0-9]+ )" | head -8
  echo "== $d $p exit=$r"
done
