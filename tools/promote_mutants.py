#!/usr/bin/env python3
"""For every confirmed staged mutant (seeded/unconfirmed/<id>/confirm.json with confirmed=true):
apply the patch to /repo, run the quick check of its property (plus any extra
properties given as <id>:<Cxx,...> arguments), revert /repo, record which
detectors fired, and move the directory to seeded/<id>/.
Usage: promote_mutants.py [<id>[:Cxx,Cyy]] ...   (default: all confirmed)
Never leaves /repo modified."""
import json, os, re, subprocess, sys, shutil

ROOT = "/verif"
ENV = dict(os.environ); ENV.pop("GOTOOLCHAIN", None); ENV.pop("GOSUMDB", None)
ENV.update(GOFLAGS="-mod=mod", GOPROXY="off", VERIF_SEED="1")

def run(cmd, cwd=None):
    p = subprocess.run(cmd, shell=True, cwd=cwd, env=ENV, stdout=subprocess.PIPE, stderr=subprocess.STDOUT, text=True, errors="replace")
    return p.returncode, p.stdout

def trim_cache():
    # every patched tree rebuilds the library for every variant: keep the build cache from filling the disk
    rc, out = run("du -sm $(go env GOCACHE) | cut -f1")
    try:
        if int(out.strip().splitlines()[-1]) > 40000:
            run("go clean -cache")
    except Exception:
        pass

def check(prop):
    trim_cache()
    rc, out = run(f"./check {prop} quick", cwd=ROOT)
    dets = {}
    for m in re.finditer(r"^\s+detector=(\S+) keys=(map\[[^\]]*\])", out, re.M):
        dets.setdefault(m.group(1), m.group(2))
    summary = [l for l in out.splitlines() if re.match(r"^C\d+ quick", l)]
    return {"exit": rc, "violation_lines": len(re.findall(r"^VIOLATION ", out, re.M)), "detectors": dets, "summary": summary[-1][:200] if summary else ""}

def main():
    args = sys.argv[1:]
    extra = {}
    ids = []
    for a in args:
        i, _, ps = a.partition(":")
        ids.append(i)
        if ps: extra[i] = ps.split(",")
    if not ids:
        ids = sorted(os.listdir(f"{ROOT}/seeded/unconfirmed"))
    rc, out = run("git status --porcelain", cwd="/repo")
    if out.strip():
        print("/repo is not clean"); sys.exit(2)
    for i in ids:
        d = f"{ROOT}/seeded/unconfirmed/{i}"
        cf = os.path.join(d, "confirm.json")
        if not os.path.exists(cf):
            print(i, "no confirm.json"); continue
        conf = json.load(open(cf))
        meta = json.load(open(os.path.join(d, "meta.json")))
        prop = meta["property"]
        if not conf.get("confirmed") and not meta.get("neutralised_by"):
            print(i, "not confirmed, skipped"); continue
        results = {}
        if conf.get("confirmed"):
            rc, out = run(f"git apply {d}/patch.diff", cwd="/repo")
            if rc != 0:
                print(i, "patch does not apply", out[:200]); continue
            try:
                for p in [prop] + extra.get(i, []):
                    results[p] = check(p)
            finally:
                run("git checkout -- .", cwd="/repo")
        meta["confirmation"] = {
            "repo_head": conf.get("head"),
            "ran": "tools/confirm_mutants.py on a scratch clone of /repo: git apply patch.diff; go build ./...; go test -json -vet=off -count=1 ./... compared with BASELINE.json stable_pass; demo test with and without the patch",
            "builds": conf.get("builds"), "suite_stable_tests_not_passing": conf.get("suite_missing"),
            "demo_fails_with_patch": conf.get("demo_with_patch_fail_runs"), "demo_passes_without_patch": conf.get("demo_pristine_passes"),
        }
        meta["detection"] = {
            "ran": "tools/promote_mutants.py: git -C /repo apply patch.diff; ./check <property> quick (VERIF_SEED=1); git -C /repo checkout -- .",
            "results": results,
            "caught_by": sorted(p for p, r in results.items() if r["exit"] == 1 and r["violation_lines"] > 0),
        }
        json.dump(meta, open(os.path.join(d, "meta.json"), "w"), indent=1)
        dst = f"{ROOT}/seeded/{i}"
        if os.path.exists(dst): shutil.rmtree(dst)
        shutil.move(d, dst)
        print(i, "->", meta["detection"]["caught_by"], {p: list(r["detectors"])[:3] for p, r in results.items()}, flush=True)

main()
