#!/usr/bin/env python3
"""add_finding.py <Fnn> <property> <status fixed|known> <commit|-> <detector> '<keys json>' '<text>' '<design cell text>'
Appends an entry to known_findings.json and a row to the table of DESIGN.md section 6 (and bumps its counters)."""
import json, re, sys
fid, prop, status, commit, det, keys, text, cell = sys.argv[1:9]
p = '/verif/known_findings.json'
d = json.load(open(p))
lst = d if isinstance(d, list) else d.get('findings')
assert not any(f['id'] == fid for f in lst), fid
e = {"id": fid, "property": prop, "status": status}
if status == 'fixed':
    e["commit"] = commit
    text = f"fixed: property={prop} {commit} " + text
e["match"] = {"detector": det, "keys": json.loads(keys)}
e["text"] = text
lst.append(e)
json.dump(d, open(p, 'w'), indent=1)
s = open('/verif/DESIGN.md').read()
m = re.search(r"(\d+) finding families \(F5", s); n = int(m.group(1))
s = s.replace(f"{n} finding families (F5", f"{n+1} finding families (F5", 1)
if status == 'fixed':
    m = re.search(r"defect\. (\d+) were repaired,", s); k = int(m.group(1))
    s = s.replace(f"defect. {k} were repaired,", f"defect. {k+1} were repaired,", 1)
else:
    m = re.search(r"\n(\d+) families are recorded as known findings", s); k = int(m.group(1))
    s = s.replace(f"\n{k} families are recorded as known findings", f"\n{k+1} families are recorded as known findings", 1)
rows = re.findall(r"^\| F\d+[^|]*\|.*$", s, re.M)
last = rows[-1]
i = s.index(last) + len(last)
res = f"fixed `{commit}`" if status == 'fixed' else "known finding"
s = s[:i] + f"\n| {fid} | {prop} | {cell} | {res} |" + s[i:]
open('/verif/DESIGN.md', 'w').write(s)
print("added", fid)
