#!/usr/bin/env python3
"""Regenerates /verif/MANIFEST.json from the table below (single source of truth)."""
import json, subprocess, os
ROOT = os.path.dirname(os.path.dirname(os.path.abspath(__file__)))

# id -> (level, technique, level text, level note, design ref)
CLAIMED = {
 "C15": ("exploration", "runtime monitoring: Go race detector over scenario workloads + serial-equality oracle on every produced digest + single-published-pointer monitor + page-buffer pool token monitor (hook events) + watchdog quiescence (deadlock) check, with scheduling perturbation (GOMAXPROCS 1/2/4/16, Gosched / sleep injected at hook points)",
         "Held on every explored scenario: 2..7 tasks from ten documented usage patterns (independent typed writers sharing package-level Codec values; reflection-path writers of a struct type new to the process; N goroutines on one freshly opened File reading rows, row-group rows, pages, lazily loaded column/offset indexes and bloom filters, ReadAt; one goroutine per ColumnWriter; BeginRowGroup row groups filled concurrently and committed in order; a fresh Schema shared for Deconstruct/Reconstruct/Comparator/Lookup; shared Encoding and Codec values; independent sorted buffers; a shared Conversion; async-mode readers with seeks) run concurrently before and after a serial run: every digest (file bytes, rows, index contents, filter answers) equals the serial one, all callers observe one published index/filter value, no panic, no pool buffer handed out twice, no race report (race build), no deadlock. Interleavings are sampled, not enumerated: exploration.",
         "Map-typed columns excluded. The race detector only sees the interleavings that occurred; yield injection is limited to 4 hook points (buffer release, lazy publication, async hand-off). The deadlock verdict requires every goroutine blocked and no CPU consumed; anything else slow is inconclusive.",
         "DESIGN.md §4 C15"),
 "C19": ("exploration", "runtime monitoring: structural-equality oracle between generated variant trees and (a) an independent decoder of the Variant binary encoding applied to the output of variant.Encode and of the streaming variant.Builder, (b) the library's decoder, (c) four read paths of shredded files incl. an independent reassembly of the stored (value, typed_value) columns by the shredding specification's rules and a reconstruction through the columnar cursor API",
         "Held on every explored case: variant trees over all 21 primitive kinds at boundary values, strings around the 63-byte short-string limit, objects with > 255 keys (2-byte field ids), arrays up to 3000 elements and wide arrays nested in wide arrays, depth <= 4: the bytes of variant.Encode and of variant.Builder decode to an equal tree with an independent decoder written from the encoding specification, and with variant.Decode; Unmarshal(Marshal(g)) equals g. Shredding schemas from the same pools (all shredded leaf types, LIST and object groups nested to depth 2; values exact, partial and mismatching) x placement of the variant column (top level, optional incl. null groups, under a repeated field, inside a group) x writer path (GenericWriter.Write, GenericBuffer.Write+WriteRowGroup, Deconstruct+WriteRows, VariantColumnWriter.WriteValue, VariantColumnWriter fed with events) x value form (encoded bytes, Go values): rows read converted to unshredded form, read through the shredded schema, reassembled from the raw columns by an independent implementation of the shredding rules, and rebuilt from NewVariantReader cursors (location tags, typed vectors, residuals, list offsets) all equal the written values. Sampling: exploration.",
         "Structural equality: same primitive type, object field order irrelevant, short and long strings equal, floats bitwise except that signalling and quiet float32 NaN are one value. Values handed over or read back as Go values are compared modulo the documented lossy Go mapping (Value.GoValue / ValueOf); a Go nil stands for both the null group and the variant null. Reading through a different shredding schema than the file's is not exercised; the cursor reader and the column writer are exercised on non-repeated placements only.",
         "DESIGN.md §4 C19, §11"),
 "C18": ("exploration", "runtime monitoring + fault injection: round-trip oracle, raw-byte marker scan for plaintext leaks, and error-or-clean-rows oracle over tampered module envelopes located by an independent length-prefix walk",
         "Held on every explored case: both footer modes x footer-key-only / per-column keys x v1/v2 x codecs x bloom filters x 1..n row groups (every eighth file with > 256 pages per chunk or > 256 row groups) x fresh or Reset-reused writers: (a) rows read with the right keys equal the rows written, a reader lacking a column key gets an error, and seek histories (incl. short forward seeks inside the read buffer) on the untampered file return the right rows; (b) none of the unique 16-byte markers (nor the PLAIN int64 encodings) of encrypted columns or their statistics occurs in the raw file; (c) byte flips in nonce / ciphertext / tag / length prefix of PRNG modules, truncations, swaps of equal-length modules (incl. modules 256 positions apart), transplants of the same module position from a second file (separate config, one shared *EncryptionConfig, same writer after Reset) and a wrong footer key all make the read fail (never different rows). Tamper points are sampled: exploration.",
         "Module boundaries come from a 4-byte length-prefix walk from offset 4 to the footer. Column names in a plaintext footer may be visible.",
         "DESIGN.md §4 C18"),
 "C12": ("exploration", "runtime monitoring: reflection-based projection oracle over run-time derived target struct types (delete/permute/add edits at any depth), eight conversion entry points",
         "Held on every explored (source type, edited target type, rows, entry point) except the recorded known findings F34/F35/F37/F38: rows read through NewReader(file, schema), ConvertRowGroup (rows and column chunks), ConvertRowReader, CopyRows after an explicit conversion and CopyRows left to insert the conversion itself, MergeRowGroups(schema) plain and sorted equal the projection of the source rows - common columns and nesting identical, added columns nil/zero, count and order unchanged - for <= 4 edits incl. inside lists, nested groups and map values. Sampling: exploration.",
         "Field matching by column name. Common leaves keep their Go type. Incompatibility probing is limited to repeated->scalar targets (recorded as known finding F34: accepted, elements dropped). Known findings on missing-column materialisation are matched on where the first difference is (group nullness / list length) so that differences at the added column or at original values are always reported.",
         "DESIGN.md §4 C12"),
 "C11": ("exploration", "runtime monitoring: A/B oracle (rows of dst.WriteRowGroup(src) vs src.Rows() read beforehand) with independent decoding of the produced file, destination-setting checks, and hook counters proving which fast path ran",
         "Held on every explored (source, source config, destination config): sources = file row group, buffer, row-range view, MultiRowGroup, merged (overlapping and not), a sorted merge whose non-overlapping segments include a wrapper over file-backed chunks (foreign every-other-row RowGroup, or a duplicate-dropping merge), dedup wrapper, converted, and a foreign RowGroup whose Rows() reverses the rows; destinations = same config or one setting changed (codec, page version, default encoding, page size, MaxRowsPerRowGroup, bloom filters). The file's rows (library reader and specreader) equal src.Rows(), the file is well-formed, and it honours the destination codec/version/encoding/bloom/row-group size; evidence counts verbatim-copy, column re-encode and row-path executions from the library's own counters. Sampling: exploration.",
         "Path counters and the row-range constructor are reached through verif-tagged accessors (verif_hooks_on.go). Columns whose struct tag pins a codec/encoding are exempt from the corresponding destination-default check.",
         "DESIGN.md §4 C11"),
 "C14": ("fault_enumeration", "runtime fault injection at the I/O boundary: failing sinks at enumerated byte offsets, every strict prefix, failing io.ReaderAt at enumerated call indexes, with error-must-surface / rows-equal oracles",
         "For every enumerated fault point: (a) a sink failing at byte offset k (hard error, short write with error, one transient failure) makes some Write/Flush/Close return an error without panicking, over 9 writer scenarios (default, unbuffered, file- and chunk-backed page buffers, deferred bloom filters, SortingWriter, concurrent row groups, WriteRowGroup copy path, single Write calls crossing automatic row-group boundaries on an unbuffered sink); all offsets are enumerated for files <= 4 KiB, call boundaries +-1 plus PRNG offsets otherwise; (b) every strict prefix (all lengths <= 4 KiB, structural boundaries +-1 otherwise) is rejected by OpenFile or by the full read; (c) a ReadAt fault (error / short+error / early EOF once, or short+EOF on every call from index i on) at each call index of open + full read + bloom filter probes yields an error, or exactly the clean rows and correct filter answers; the reading side runs under five profiles (parquet.Read[T]; OpenFile defaults; OptimisticRead; OptimisticRead+PrefetchBloomFilters+64-byte buffer; lazy page index and filters + async) with a reader loop that ends on errors.Is(err, io.EOF) as parquet.CopyRows does.",
         "Faults respect the io.Writer/io.ReaderAt contracts; bytes a short read did not deliver are overwritten in the caller's buffer. Values never contain PAR1/PARE. Syscall-level (strace) injection on real files (ReadFrom/copy_file_range paths) is not exercised.",
         "DESIGN.md §4 C14"),
 "C16": ("exploration", "runtime monitoring: deep-snapshot comparison of caller-held values across PRNG later-activity histories, with a poison-on-release hook in the slice pools (build tag verif) that makes dangling aliases deterministic; thorough tier also under the race detector",
         "Held on every explored history: Go values filled by GenericReader.Read and retained by shallow copy while the batch slice is reused, cloned Rows, and un-cloned Rows (until the next call on their reader) are bit-identical to their snapshot after later reads, seeks, Reset, Close, other readers of the same and other files, writer churn through the shared pools and GC; rows and []Row passed to Write/WriteRows/SortingWriter/sorted buffers/DedupeRowWriter/FilterRowWriter/TransformRowWriter/MultiRowWriter/RowBuffer.WriteRows are unchanged afterwards; typed values are also read from in-memory buffer row groups that are reset and refilled later; un-cloned rows are also read through FilterRowReader, TransformRowReader, ScanRowReader, DedupeRowReader and MergeRowReaders and compared with the file's rows at return time. Because released pool memory is overwritten with 0xDB, an alias that survives a release shows up on the first comparison instead of depending on pool reuse. Sampling of histories: exploration.",
         "Hook: internal/memory.putSliceToPool poisons released slices when built with -tags verif (VERIF_POISON=0 disables). Memory not managed by the slice pools is outside the hook's reach.",
         "DESIGN.md §4 C16"),
 "C09": ("exploration", "runtime monitoring: (source, sequence)-tagged rows checked by an O(n) scan for sortedness (independent comparator), multiset completeness and per-source order over PRNG merge plans",
         "Held on every explored merge: 0..17 sorted inputs (file row groups with small pages, with/without page index, and buffers), disjoint/touching/nested/identical key ranges with duplicates, asc/desc, nullable keys with both null placements, 1-2 key columns, input sizes that engage range refinement and run mode, consumed via Rows() at 6 batch sizes, MergeRowReaders, CopyRows and WriteRowGroup+read back, with and without duplicate dropping: output sorted, exactly the union of the inputs, each input's rows in their original order, one row per key under dedup. Sampling: exploration.",
         "Inputs are sorted by the independent comparator (spec orders; no NaN keys). Ties across inputs are unconstrained.",
         "DESIGN.md §4 C09"),
 "C10": ("exploration", "runtime monitoring: id-tagged rows checked for permutation, row integrity and order (independent comparator AND Schema.Comparator) over PRNG sort histories on three buffer kinds and the SortingWriter, assembly and purego builds",
         "Held on every explored history: GenericBuffer, Buffer, RowBuffer (write/sort/read/write more/sort again/Reset/reuse) and SortingWriter (run sizes 1,2,7,100, optional dedup, memory / chunked / file-backed SortingBuffers): output is a permutation of the input with every row intact across its 10 columns, ordered per the declared direction and null placement according to an independent comparator and to Schema.Comparator, file sorting metadata equals the configuration, dedup keeps one row per key. Sampling: exploration.",
         "No NaN sort keys. Ties unconstrained.",
         "DESIGN.md §4 C10"),
 "C08": ("exploration", "runtime monitoring: online sequential reference model (row array + position counter) checked after every operation of PRNG seek/read histories on 13 reader kinds",
         "Held on every explored history: after each SeekToRow/Read step on Reader, GenericReader, RowGroup.Rows, ColumnChunk.Pages, file-level Column.Pages, flat and nested MultiRowGroup rows and pages, buffers, row-range views, async-mode rows and the explicit AsyncRowGroup / AsyncPages / AsyncColumnChunk wrappers, the rows returned equal rows[pos:pos+n] of a fresh sequential pass (values and levels), with no early/late EOF; files cover v1/v2, dictionary, nested/repeated columns, 1..n row groups, with/without page index, small read buffers; histories are biased to page boundaries, the last returned page, repeated seeks and the end. Sampling of an unbounded history space: exploration.",
         "Ground truth = one sequential pass of a fresh reader of the same object. Seeks beyond NumRows are not issued. The thorough tier additionally runs under the race detector.",
         "DESIGN.md §4 C08"),
 "C06": ("exploration", "runtime monitoring: ground-truth oracle from generated page layouts over an exhaustively enumerated small space plus PRNG and writer-produced column indexes",
         "Held on every probed (layout, true order claim, value): all layouts of 1..4 pages (5 in thorough) over a 5-value alphabet with null pages anywhere are enumerated exhaustively with every boundary-order claim that is true for them, plus PRNG layouts up to 200 pages and the column indexes of written files (int32, truncated byte arrays, FLBA); Search, Find(NullsLast) and Find(NullsFirst) never return a page after the first page containing the value, only return pages whose bounds contain it, and return NumPages only when no bounds contain it. The enumerated sub-space is complete; the rest is sampling: exploration.",
         "Order claims fed to the search are computed truthfully from the layout (null pages ignored), as the statement is about indexes the writer can produce; C05 checks that the writer's claims are true.",
         "DESIGN.md §4 C06"),
 "C07": ("exploration", "runtime monitoring: membership oracle over independently decoded chunk values, probing the library's BloomFilter.Check and a spec-level SBBF check (hand-written xxhash64) of the raw bitset",
         "Held on every explored file: for each row group and each of 16 columns covering all 8 physical types (optional, repeated, dictionary), every distinct non-null value decoded from the chunk is reported present by FileBloomFilter.Check and by an independent split-block check of the stored bitset, across 8 production modes (incremental small pages, pre-sized from buffers, dictionary incl. fallback to PLAIN after DictionaryMaxBytes with several pages per chunk, verbatim copy, re-encode, merged pack path, sources without filters, pending rows before a row group), deferred and gzip-compressed filters, row-group splits; files opened with default, prefetched (PrefetchBloomFilters+OptimisticRead) and lazily loaded (SkipBloomFilters) filters. Sampling: exploration.",
         "Ground truth per chunk from specreader's decode (tied to the input by C02). Spec-level check skipped for BOOLEAN and compressed bitsets.",
         "DESIGN.md §4 C07"),
 "C13": ("fault_enumeration", "runtime fault injection: bit flips / bursts inside page bodies located by an independent page walk, 10 access paths per fault, error-or-nothing oracle with clean-prefix comparison",
         "For every enumerated (file, page, fault) point each of the 10 access paths (sequential rows, typed reader, chunk pages, seek into the page, seek then rows, seek past the dictionary, file-level column pages, value reader, async mode, re-encoding WriteRowGroup) ended with errors.Is(err, ErrCorrupted) before delivering anything that depends on the page, and what was delivered before equals the clean file. All single-bit positions are enumerated for bodies <= 16 bytes; larger bodies are sampled (first/last bit, PRNG bit, 2-32 bit bursts).",
         "Page boundaries come from specreader's walk of the clean file. CRC-32 detects all single-bit errors and bursts <= 32 bits. Faults outside page bodies (headers, footer) are outside the statement.",
         "DESIGN.md §4 C13"),
 "C05": ("exploration", "runtime monitoring: independent recomputation (specreader) of per-page/chunk min/max in the spec's sort orders, null counts and level histograms from the decoded bytes, compared with page-header, chunk and column-index statistics; three build/CPU variants",
         "Held on every explored file (except the recorded known finding F29): recorded min/max are true bounds of the non-null non-NaN values after truncation, null counts / null_pages / level histograms are exact, ASCENDING/DESCENDING claims hold over the recorded bounds, sorting metadata is only what was declared; statistics copied by the verbatim-copy path included; run on assembly, purego and AVX-disabled variants because min/max/order kernels differ, and the bytes of every file are joined across the three variants. True bounds imply a pruning reader never skips a matching page. Sampling: exploration.",
         "NaN bounds count as absent; INT96 order undefined (ignored). Trusted: specreader decode and Leaf.Compare (spec sort orders).",
         "DESIGN.md §4 C05"),
 "C02": ("exploration", "runtime monitoring: independent format decoder (specreader, written from the Parquet specification) validating every structural invariant of the produced bytes and comparing decoded (value,r,d) streams with a Dremel reference model",
         "Held on every explored file: 8 production modes (typed/reflect writers, WriteRowGroup from buffers and files incl. copy and re-encode paths, SortingWriter, ColumnWriters, Reset reuse, concurrent row groups) x catalogue types x option matrix; ~50 invariants (offsets, sizes, counts, CRC, page/row boundaries, offset index, column index lengths, encoding stats, size statistics, bloom filter header) evaluated and counted per run; decoded streams equal the model of the input. Sampling: exploration.",
         "Trusted: specreader (validated on the third-party parquet-testing files in /repo/testdata: identical streams to the library on all of them), klauspost/andybalholm decompressors called directly. Maps hold <=1 entry.",
         "DESIGN.md §4 C02"),
 "C04": ("exploration", "runtime monitoring: round-trip + independent spec decoder oracle over PRNG value sequences with dirty reused dst buffers; offline cross-build digest join (std / purego / AVX-disabled)",
         "Held on every explored (encoding, kind, sequence, dst history) case: library decode == input, independent decoder (written from the format spec) == input, and sha256 of encoded and decoded bytes identical across the assembly, purego and AVX-disabled variants. Byte-array inputs are given, half of the time, as a window into a larger buffer (offsets not starting at zero, bytes after the last offset: the shape of a sliced page). Unbounded input space sampled at block/miniblock/8-group boundaries: exploration.",
         "Trusted: specreader's decoders (validated against the parquet-testing files). RLE run values wider than the bit width are masked and counted (leniency). Memory safety of the assembly kernels is observed only through their output (dirty dst buffers of several capacities, three implementations compared): an over-read that never changes output is not observable; no guard-page allocator was built.",
         "DESIGN.md §4 C04"),
 "C17": ("exploration", "runtime monitoring: sha256 equality of files written from equal (rows, options) under different process/instance histories, offline digest join across std/purego/AVX-disabled builds",
         "Held on every explored case: fresh writer twice, after unrelated writes, writer reused through Reset after completed/abandoned/failed files of other content, other goroutine, reused GenericBuffer/RowBuffer/SortingWriter (sort keys on any non-repeated leaf, any direction and null placement) all produce identical bytes; fresh digests equal across three build/CPU variants; every tenth case writes one-value pages with 56..480 pages per chunk (whole strides of the vector kernels over page bounds). Histories and inputs are sampled: exploration.",
         "Map-typed columns and encryption excluded as the statement says. sha256 collisions ignored.",
         "DESIGN.md §4 C17"),
 "C03": ("exploration", "runtime monitoring: pairwise stream equality of 8 ingestion entry points against an independent Dremel shredding model, over PRNG rows with bitmap-boundary null runs",
         "Held on every explored (type, rows, batch) case: GenericWriter[T], GenericWriter[any], Writer.Write(any), GenericBuffer[T], Buffer, RowBuffer[T], WriteRows(Deconstruct) and per-column writers all store exactly the (value,r,d) streams of the reference Dremel model, and Reconstruct(Deconstruct(v)) == v. Sampling of an unbounded type/value space: exploration.",
         "Trusted: the library's Node API as schema report; the read side (Rows().ReadRows) used to observe what was stored (C02 checks the bytes independently). Maps hold <=1 entry here.",
         "DESIGN.md §4 C03"),
 "C01": ("exploration", "runtime monitoring: value-level and (value,r,d)-level reference-model oracle over PRNG-generated (type, rows, options, call history) cases on the real writer/readers",
         "Held on every explored case: rows read back through Read[T], GenericReader.Read (PRNG batches, sync/async, with/without page index), Reader.Read and RowGroup.Rows are bit-identical to the rows written (documented nil/empty and zero-optional equivalences only) and the file's column streams equal the Dremel model's. The input space is a product of unbounded factors, so this is sampling with boundary-value pools: exploration.",
         "Trusted: the library's Node API as the schema report, the Go reflect package. Symmetric writer/reader bugs are the business of C02's independent decoder.",
         "DESIGN.md §4 C01"),
 "C20": ("exploration", "runtime monitoring: round-trip + independent-decoder oracle over PRNG call histories on shared codec values, under the Go race detector",
         "Held on every explored history: Decode(Encode(x))==x and an independent decompressor agrees, on shared and fresh codec values, after failed decodes, with every dst capacity class, single- and 16-goroutine use, race detector silent. Sampling of an unbounded history space, so exploration is the honest level.",
         "Trusted: stdlib gzip, klauspost zstd and andybalholm brotli called directly as independent decoders; hand-written snappy/LZ4 block decoders; Go race detector. Invalid input is never given to Lz4Raw.Decode (diverges; outside the statement).",
         "DESIGN.md §4 C20"),
}
PENDING_REASON = "check not built yet (planned in DESIGN.md §4); not claimed until its monitor exists and is silent on the unchanged tree"

def main():
    props = [json.loads(l) for l in open(os.path.join(ROOT, "properties.jsonl"))]
    checks, na = [], []
    for p in props:
        pid = p["id"]
        if pid in CLAIMED:
            level, tech, text, note, ref = CLAIMED[pid]
            checks.append({
                "property_id": pid,
                "quick_cmd": f"./check {pid} quick",
                "thorough_cmd": f"./check {pid} thorough",
                "evidence_file": f"/verif/evidence/{pid}.json",
                "replay_cmd_template": f"./check {pid} --replay {{path}}",
                "engine": "vcheck",
                "level_claimed": {"category": level, "text": text, "design_ref": ref},
                "level_note": note,
                "technique": tech,
            })
        else:
            na.append({"property_id": pid, "reason": PENDING_REASON})
    try:
        commits = subprocess.check_output(["git", "-C", "/repo", "log", "--format=%H %s", "c7304fc..HEAD"], text=True).strip().splitlines()
    except Exception:
        commits = []
    hook_commits = [c.split()[0] for c in commits if " hook" in c or c.split(" ", 1)[1].startswith("verif:")]
    m = {
        "version": 1,
        "setup_cmd": "cd /verif && unset GOTOOLCHAIN GOSUMDB && GOFLAGS=-mod=mod GOPROXY=off go build -o bin/vcheck ./cmd/vcheck && GOFLAGS=-mod=mod GOPROXY=off go build -tags verif -o bin/harness-std ./harness",
        "hooks": {
            "guard": "verif (Go build tag)",
            "enable": "go build -tags verif (the harness module replaces github.com/parquet-go/parquet-go with /repo, so every check compiles /repo's working tree with the tag on)",
            "baseline_off_cmd": "/verif/baseline_off.sh",
            "source_commits": hook_commits,
            "add_only": True,
        },
        "engines": [
            {"name": "vcheck", "path": "/verif/cmd/vcheck", "serves_properties": sorted(CLAIMED),
             "kind_free_text": "driver: builds harness variants (std, race, purego, noavx, asan) from /repo's working tree, one child process per batch of PRNG-determined cases, offline checkers (cross-variant digest join, race-log de-duplication, known-findings classification), evidence writer"},
            {"name": "harness", "path": "/verif/harness", "serves_properties": sorted(CLAIMED),
             "kind_free_text": "workloads + in-process monitors against the real library (reference model, independent decoder specreader, fault injectors)"},
        ],
        "checks": checks,
        "not_applicable": na,
        "notes": "Technique family: runtime monitoring and sanitizers. Every verdict is 'held on the executions observed'. Known findings: /verif/known_findings.json. VERIF_SEED selects the PRNG stream; case counts are fixed per tier (no time budgets).",
    }
    json.dump(m, open(os.path.join(ROOT, "MANIFEST.json"), "w"), indent=1)
    print("claimed", sorted(CLAIMED), "not_applicable", len(na))
main()
