// Package gen holds the deterministic PRNG and the value pools used by every
// workload. No wall clock, no global state: case i of property P under seed S
// always sees the same stream.
package gen

import "math"

// Rand is splitmix64.
type Rand struct{ s uint64 }

func New(seed uint64) *Rand { return &Rand{s: seed} }

// Sub derives an independent stream from a label (property id, case index…).
func Sub(seed uint64, label string, idx int) *Rand {
	h := seed*0x9E3779B97F4A7C15 + 0x1234567
	for i := 0; i < len(label); i++ {
		h = (h ^ uint64(label[i])) * 0x100000001b3
	}
	h ^= uint64(idx) * 0xBF58476D1CE4E5B9
	r := &Rand{s: h}
	r.U64()
	r.U64()
	return r
}

func (r *Rand) U64() uint64 {
	r.s += 0x9E3779B97F4A7C15
	z := r.s
	z = (z ^ (z >> 30)) * 0xBF58476D1CE4E5B9
	z = (z ^ (z >> 27)) * 0x94D049BB133111EB
	return z ^ (z >> 31)
}

// Intn returns a value in [0,n). n<=0 returns 0.
func (r *Rand) Intn(n int) int {
	if n <= 0 {
		return 0
	}
	return int(r.U64() % uint64(n))
}

// Range returns a value in [lo,hi].
func (r *Rand) Range(lo, hi int) int {
	if hi <= lo {
		return lo
	}
	return lo + r.Intn(hi-lo+1)
}

func (r *Rand) Bool() bool { return r.U64()&1 == 1 }

// P returns true with probability pct/100.
func (r *Rand) P(pct int) bool { return r.Intn(100) < pct }

func (r *Rand) Float64() float64 { return float64(r.U64()>>11) / (1 << 53) }

func (r *Rand) Bytes(n int) []byte {
	b := make([]byte, n)
	for i := 0; i < n; i += 8 {
		v := r.U64()
		for j := 0; j < 8 && i+j < n; j++ {
			b[i+j] = byte(v >> (8 * j))
		}
	}
	return b
}

func Pick[T any](r *Rand, xs []T) T { return xs[r.Intn(len(xs))] }

// Boundary pools -----------------------------------------------------------

var RunLens = []int{1, 2, 7, 8, 9, 31, 32, 33, 63, 64, 65, 127, 128, 129}

var Int64Pool = []int64{0, 1, -1, 2, -2, math.MinInt64, math.MaxInt64, math.MinInt64 + 1, math.MaxInt64 - 1,
	1 << 31, -(1 << 31), 1<<31 - 1, 1 << 32, 1<<32 + 1, -(1 << 32) - 1, 127, 128, 255, 256, -128, -129, 65535, 65536}

var Int32Pool = []int32{0, 1, -1, 2, -2, math.MinInt32, math.MaxInt32, math.MinInt32 + 1, math.MaxInt32 - 1, 127, 128, 255, 256, -128, -129, 65535, 65536, 1 << 30, -(1 << 30)}

var Float64Bits = []uint64{
	0, 1 << 63, // +0 -0
	0x7FF0000000000000, 0xFFF0000000000000, // inf
	0x7FF8000000000000, 0x7FF8000000000001, 0xFFF8000000000000, 0x7FF0000000000001, 0x7FFFFFFFFFFFFFFF, // NaNs
	1, 0x000FFFFFFFFFFFFF, 0x8000000000000001, // subnormal
	0x7FEFFFFFFFFFFFFF, 0xFFEFFFFFFFFFFFFF, // max
	0x3FD5555555555555, 0x3FF0000000000000, 0xBFF0000000000000,
}

var Float32Bits = []uint32{
	0, 1 << 31, 0x7F800000, 0xFF800000, 0x7FC00000, 0x7FC00001, 0xFFC00000, 0x7F800001, 0x7FFFFFFF,
	1, 0x007FFFFF, 0x80000001, 0x7F7FFFFF, 0xFF7FFFFF, 0x3EAAAAAB, 0x3F800000, 0xBF800000,
}

func (r *Rand) Int64() int64 {
	switch r.Intn(4) {
	case 0:
		return Pick(r, Int64Pool)
	case 1:
		return int64(r.Intn(16)) - 4
	case 2:
		return int64(r.Intn(100000)) - 50000
	}
	return int64(r.U64())
}

func (r *Rand) Int32() int32 {
	switch r.Intn(4) {
	case 0:
		return Pick(r, Int32Pool)
	case 1:
		return int32(r.Intn(16)) - 4
	case 2:
		return int32(r.Intn(100000)) - 50000
	}
	return int32(r.U64())
}

// F64 draws floats; nan=false excludes NaN (for sort keys).
func (r *Rand) F64(nan bool) float64 {
	for {
		var f float64
		switch r.Intn(3) {
		case 0:
			f = math.Float64frombits(Pick(r, Float64Bits))
		case 1:
			f = float64(r.Intn(2000)-1000) / 8
		default:
			f = math.Float64frombits(r.U64())
		}
		if nan || f == f {
			return f
		}
	}
}

func (r *Rand) F32(nan bool) float32 {
	for {
		var f float32
		switch r.Intn(3) {
		case 0:
			f = math.Float32frombits(Pick(r, Float32Bits))
		case 1:
			f = float32(r.Intn(2000)-1000) / 8
		default:
			f = math.Float32frombits(uint32(r.U64()))
		}
		if nan || f == f {
			return f
		}
	}
}

var byteLens = []int{0, 0, 1, 1, 2, 3, 5, 8, 15, 16, 17, 31, 32, 33, 40, 63, 64, 65}

// ByteString draws byte strings from the boundary pool. Values never contain
// the magic "PAR1"/"PARE" (DESIGN §7).
func (r *Rand) ByteString() []byte {
	var b []byte
	switch r.Intn(10) {
	case 0:
		b = []byte{}
	case 1:
		n := Pick(r, []int{15, 16, 17, 40})
		b = make([]byte, n)
		for i := range b {
			b[i] = 0xFF
		}
		if r.Bool() {
			b = append(b, byte(r.Intn(256)))
		}
	case 2:
		b = make([]byte, Pick(r, byteLens)) // zeros
	case 3:
		// shared prefixes
		b = append([]byte("prefix/shared/"), byte('a'+r.Intn(4)))
		if r.Bool() {
			b = append(b, r.Bytes(r.Intn(6))...)
		}
	case 4:
		// small alphabet (dictionary friendly)
		b = []byte{byte('a' + r.Intn(5))}
	case 5:
		n := Pick(r, []int{200, 1000, 4096, 5000})
		if r.Intn(40) == 0 {
			n = 70 * 1024
		}
		b = r.Bytes(n)
	default:
		b = r.Bytes(Pick(r, byteLens))
	}
	for i := 0; i+3 < len(b); i++ {
		if b[i] == 'P' && b[i+1] == 'A' && b[i+2] == 'R' {
			b[i] = 'Q'
		}
	}
	return b
}

// NullPattern returns n booleans (true = present) made of alternating runs whose
// lengths come from RunLens, starting at a random phase.
func (r *Rand) NullPattern(n int) []bool {
	out := make([]bool, 0, n)
	cur := r.Bool()
	mode := r.Intn(4)
	for len(out) < n {
		var l int
		switch mode {
		case 0:
			l = Pick(r, RunLens)
		case 1:
			l = 1 + r.Intn(3)
		case 2:
			l = 1 + r.Intn(70)
		default:
			if cur {
				l = Pick(r, RunLens)
			} else {
				l = 1 + r.Intn(5)
			}
		}
		for i := 0; i < l && len(out) < n; i++ {
			out = append(out, cur)
		}
		cur = !cur
	}
	return out
}
