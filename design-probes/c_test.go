package exp

import (
	"bytes"
	"errors"
	"io"
	"reflect"
	"testing"

	"github.com/parquet-go/parquet-go"
)

type L struct {
	ID   int64   `parquet:"id"`
	Vals []int64 `parquet:"vals"`
}

func readAll[T any](t *testing.T, b []byte) ([]T, error) {
	f, err := parquet.OpenFile(bytes.NewReader(b), int64(len(b)))
	if err != nil {
		return nil, err
	}
	r := parquet.NewGenericReader[T](f)
	defer r.Close()
	out := make([]T, f.NumRows())
	n, err := r.Read(out)
	if err != nil && !errors.Is(err, io.EOF) {
		return out[:n], err
	}
	return out[:n], nil
}

// F7: L3 re-encode path with repeated column and small page buffer
func TestReencodeRepeated(t *testing.T) {
	rows := make([]L, 200)
	for i := range rows {
		rows[i].ID = int64(i)
		n := 37 + i%11
		rows[i].Vals = make([]int64, n)
		for j := range rows[i].Vals {
			rows[i].Vals[j] = int64(i*1000 + j)
		}
	}
	var src bytes.Buffer
	w := parquet.NewGenericWriter[L](&src)
	w.Write(rows)
	if err := w.Close(); err != nil {
		t.Fatal(err)
	}
	f, _ := parquet.OpenFile(bytes.NewReader(src.Bytes()), int64(src.Len()))
	for _, ver := range []int{1, 2} {
		var dst bytes.Buffer
		w2 := parquet.NewGenericWriter[L](&dst, parquet.PageBufferSize(4096), parquet.Compression(&parquet.Snappy), parquet.DataPageVersion(ver))
		_, err := w2.WriteRowGroup(f.RowGroups()[0])
		if err != nil {
			t.Fatalf("v%d WriteRowGroup: %v", ver, err)
		}
		if err := w2.Close(); err != nil {
			t.Fatalf("v%d close: %v", ver, err)
		}
		got, err := readAll[L](t, dst.Bytes())
		t.Logf("v%d: read %d rows err=%v equal=%v", ver, len(got), err, reflect.DeepEqual(got, rows))
		// check pages start on row boundaries
		f2, _ := parquet.OpenFile(bytes.NewReader(dst.Bytes()), int64(dst.Len()))
		for _, rg := range f2.RowGroups() {
			cc := rg.ColumnChunks()[1]
			pages := cc.Pages()
			np, bad := 0, 0
			for {
				p, err := pages.ReadPage()
				if err != nil {
					if err != io.EOF {
						t.Logf("v%d page read err: %v", ver, err)
					}
					break
				}
				np++
				if rl := p.RepetitionLevels(); len(rl) > 0 && rl[0] != 0 {
					bad++
				}
			}
			t.Logf("v%d: vals column pages=%d pagesNotStartingOnRow=%d", ver, np, bad)
		}
	}
}
