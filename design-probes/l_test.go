package exp

import (
	"bytes"
	"encoding/json"
	"testing"

	"github.com/parquet-go/parquet-go"
)

type SrcE struct {
	X int64   `parquet:"x"`
	Y *string `parquet:"y,optional"`
}
type Src struct {
	A int64  `parquet:"a"`
	L []SrcE `parquet:"l,list"`
	M *SrcE  `parquet:"m,optional"`
}
type DstE struct {
	Y *string `parquet:"y,optional"`
	Z *int64  `parquet:"z,optional"`
	X int64   `parquet:"x"`
}
type Dst struct {
	B *int64  `parquet:"b,optional"`
	L []DstE  `parquet:"l,list"`
	M *DstE   `parquet:"m,optional"`
	R int32   `parquet:"r"`
	N []int64 `parquet:"n,list"`
}

func js(v any) string { b, _ := json.Marshal(v); return string(b) }

func TestConvertProbe(t *testing.T) {
	s := func(x string) *string { return &x }
	rows := []Src{
		{A: 1, L: []SrcE{{X: 10, Y: s("a")}, {X: 11}}, M: &SrcE{X: 5, Y: s("m")}},
		{A: 2},
		{A: 3, L: []SrcE{}, M: &SrcE{X: 6}},
		{A: 4, L: []SrcE{{X: 12}, {X: 13, Y: s("b")}, {X: 14}}},
	}
	var b bytes.Buffer
	w := parquet.NewGenericWriter[Src](&b)
	w.Write(rows)
	if err := w.Close(); err != nil {
		t.Fatal(err)
	}
	func() {
		defer func() {
			if r := recover(); r != nil {
				t.Logf("PANIC Read[Dst]: %v", r)
			}
		}()
		got, err := parquet.Read[Dst](bytes.NewReader(b.Bytes()), int64(b.Len()))
		t.Logf("Read[Dst] err=%v", err)
		for i, r := range got {
			t.Logf(" %d %s", i, js(r))
		}
	}()
	func() {
		defer func() {
			if r := recover(); r != nil {
				t.Logf("PANIC ConvertRowGroup: %v", r)
			}
		}()
		f := openBytes(t, b.Bytes())
		conv, err := parquet.Convert(parquet.SchemaOf(Dst{}), f.Schema())
		if err != nil {
			t.Logf("convert err %v", err)
			return
		}
		rg := parquet.ConvertRowGroup(f.RowGroups()[0], conv)
		var out bytes.Buffer
		w2 := parquet.NewGenericWriter[Dst](&out)
		_, err = w2.WriteRowGroup(rg)
		t.Logf("WriteRowGroup(converted) err=%v", err)
		if err := w2.Close(); err != nil {
			t.Logf("close err %v", err)
		}
		got, err := parquet.Read[Dst](bytes.NewReader(out.Bytes()), int64(out.Len()))
		t.Logf("via file err=%v", err)
		for i, r := range got {
			t.Logf(" %d %s", i, js(r))
		}
	}()
}
