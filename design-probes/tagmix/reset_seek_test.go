package tagmix
import ("testing";"fmt";"github.com/parquet-go/parquet-go")
type rin struct { A int64 `parquet:"a"`; B string `parquet:"b,optional"` }
type rrow struct { ID int64 `parquet:"id"`; In rin `parquet:"in"`; P *rin `parquet:"p"`; L []rin `parquet:"l"`; Name string `parquet:"name"` }
type frow struct { ID int64 `parquet:"id"`; S string `parquet:"s"` }
func TestR(t *testing.T){
	{
	b:=parquet.NewGenericBuffer[rrow]()
	rows:=make([]rrow,60); for i:=range rows{ rows[i]=rrow{ID:int64(i),Name:fmt.Sprint("n",i)}; for j:=0;j<i%3;j++{rows[i].L=append(rows[i].L,rin{A:int64(j)})} }
	b.Write(rows)
	gr:=parquet.NewGenericRowGroupReader[rrow](b)
	buf:=make([]rrow,1)
	gr.Read(buf); fmt.Println("nested read",buf[0].ID)
	gr.Reset()
	for i:=0;i<3;i++{gr.Read(buf); fmt.Println("nested read",buf[0].ID)}
	fmt.Println("seek",gr.SeekToRow(4))
	gr.Read(buf); fmt.Println("nested after seek(4):",buf[0].ID)
	}
	{
	b:=parquet.NewGenericBuffer[frow]()
	rows:=make([]frow,60); for i:=range rows{ rows[i]=frow{ID:int64(i),S:fmt.Sprint("n",i)} }
	b.Write(rows)
	gr:=parquet.NewGenericRowGroupReader[frow](b)
	buf:=make([]frow,1)
	gr.Read(buf); gr.Reset()
	for i:=0;i<3;i++{gr.Read(buf)}
	gr.SeekToRow(4)
	gr.Read(buf); fmt.Println("flat after seek(4):",buf[0].ID)
	gr2:=parquet.NewGenericRowGroupReader[frow](b)
	for i:=0;i<3;i++{gr2.Read(buf)}
	gr2.SeekToRow(4); gr2.Read(buf); fmt.Println("flat no reset after seek(4):",buf[0].ID)
	}
}
