package tagmix
import ("testing";"bytes";"fmt";"time";"encoding/json";"github.com/parquet-go/parquet-go")
type j1 struct { ID int64 `parquet:"id"`; J string `parquet:"j,json,optional"` }
type ost struct { A int64 `parquet:"a"`; B string `parquet:"b"` }
type o2 struct { ID int64 `parquet:"id"`; O ost `parquet:"o,optional"` }
type tin struct { T time.Time `parquet:"t,optional"` }
type t3 struct { ID int64 `parquet:"id"`; P *tin `parquet:"p"` }
type r4 struct { ID int64 `parquet:"id"`; P *struct{ R json.RawMessage `parquet:"r"` } `parquet:"p"`; Z int64 `parquet:"z"` }
type i5 struct { ID int64 `parquet:"id"`; A int64 `parquet:"a,int(32)"` }
func dump[T any](name string, rows []T){
	// typed path
	func(){ defer func(){ if p:=recover();p!=nil{fmt.Println(name,"typed PANIC",p)} }()
	var buf bytes.Buffer
	w:=parquet.NewGenericWriter[T](&buf); w.Write(rows); if err:=w.Close();err!=nil{fmt.Println(name,"typed close err",err);return}
	f,err:=parquet.OpenFile(bytes.NewReader(buf.Bytes()),int64(buf.Len())); if err!=nil{fmt.Println(name,"typed open err",err);return}
	rr:=f.RowGroups()[0].Rows(); out:=make([]parquet.Row,10); n,_:=rr.ReadRows(out)
	for _,r:=range out[:n]{fmt.Printf("%s typed: %+v\n",name,r)} }()
	// deconstruct path
	func(){ defer func(){ if p:=recover();p!=nil{fmt.Println(name,"deconstruct PANIC",p)} }()
	s:=parquet.SchemaOf(new(T))
	for i:=range rows{ fmt.Printf("%s decon: %+v\n",name,s.Deconstruct(nil,&rows[i])) } }()
}
func TestC3(t *testing.T){
	dump("json_optional", []j1{{1,`{"a":1}`},{2,""}})
	dump("optional_struct", []o2{{1,ost{}},{2,ost{A:5}}})
	tm:=time.Unix(1000,0).UTC()
	dump("time_in_optional_ptr", []t3{{1,&tin{T:tm}},{2,nil},{3,&tin{}}})
	dump("rawmessage_in_null_parent", []r4{{ID:1,P:nil,Z:7},{ID:2,P:&struct{ R json.RawMessage `parquet:"r"` }{R:json.RawMessage(`"x"`)},Z:8}})
	dump("int64_tag_int32", []i5{{1,-5}})
}
