package tagmix
import ("testing";"bytes";"fmt";"github.com/parquet-go/parquet-go")
type mrow struct { ID int64 `parquet:"id"`; M map[string]int64 `parquet:"m"` }
func TestM(t *testing.T){
	var buf bytes.Buffer
	w:=parquet.NewGenericWriter[mrow](&buf)
	rows:=[]mrow{{1,map[string]int64{"a":1}},{2,map[string]int64{"b":2}},{3,map[string]int64{"c":3}},{4,nil}}
	w.Write(rows); w.Close()
	f,_:=parquet.OpenFile(bytes.NewReader(buf.Bytes()),int64(buf.Len()))
	gr:=parquet.NewGenericReader[mrow](f)
	batch:=make([]mrow,1)
	var kept []mrow
	for { n,err:=gr.Read(batch); if n>0 { kept=append(kept,batch[0]); fmt.Printf("read: %v\n",batch[0]) }; if err!=nil{break} }
	fmt.Printf("kept: %v\n",kept)
}
