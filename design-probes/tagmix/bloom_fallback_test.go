package tagmix
import ("testing";"bytes";"fmt";"github.com/parquet-go/parquet-go")
type brow struct { S string `parquet:"s,dict"` }
func TestB(t *testing.T){
	for _,mode:=range []string{"default","fallback","fallback+smallpages","fallback+manywrites","fallback+smallpages+manywrites"}{
	var buf bytes.Buffer
	opts:=[]parquet.WriterOption{parquet.BloomFilters(parquet.SplitBlockFilter(10,"s"))}
	if mode!="default"{ opts=append(opts, parquet.DictionaryMaxBytes(256)) }
	if len(mode)>8 && (mode[9:]=="smallpages" || mode[9:]=="smallpages+manywrites"){ opts=append(opts, parquet.PageBufferSize(512)) }
	w:=parquet.NewGenericWriter[brow](&buf, opts...)
	rows:=make([]brow,2000); for i:=range rows{rows[i]=brow{fmt.Sprintf("value-%05d",i)}}
	if len(mode)>20 || mode=="fallback+manywrites" { for i:=0;i<len(rows);i+=50{ w.Write(rows[i:i+50]) } } else { w.Write(rows) }; if err:=w.Close();err!=nil{t.Fatal(err)}
	f,_:=parquet.OpenFile(bytes.NewReader(buf.Bytes()),int64(buf.Len()))
	bf:=f.RowGroups()[0].ColumnChunks()[0].BloomFilter()
	if bf==nil{ fmt.Println(mode,"no filter"); continue}
	miss:=0
	for _,r:=range rows{ ok,_:=bf.Check(parquet.ByteArrayValue([]byte(r.S))); if !ok{miss++}}
	fmt.Println(mode,"missing",miss,"of",len(rows))
	}
}
