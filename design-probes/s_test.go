package exp

import (
	"testing"

	"github.com/parquet-go/parquet-go/encoding/rle"
)

// O3: a spec-conforming RLE run of 16 TRUE values: header 16<<1 = 0x20, value byte 0x01.
func TestRLEBooleanForeignRun(t *testing.T) {
	enc := &rle.Encoding{BitWidth: 1}
	src := []byte{2, 0, 0, 0, 0x20, 0x01}
	out, err := enc.DecodeBoolean(nil, src)
	t.Logf("foreign run (value byte 0x01): decoded=%08b err=%v (16 trues expected = 11111111 11111111)", out, err)
	own, _ := enc.EncodeBoolean(nil, []byte{0xFF, 0xFF})
	t.Logf("library's own encoding of 16 trues: % x", own)
}
