package exp

import (
	"bytes"
	"fmt"
	"sort"
	"testing"

	"github.com/parquet-go/parquet-go"
)

type R struct {
	K *int64 `parquet:"k,optional"`
	V int64  `parquet:"v"`
}

func p(i int64) *int64 { return &i }

func dump(t *testing.T, name string, rows parquet.Rows) {
	buf := make([]parquet.Row, 100)
	n, _ := rows.ReadRows(buf)
	s := ""
	for _, r := range buf[:n] {
		s += fmt.Sprintf("%v ", r)
	}
	t.Logf("%s: %s", name, s)
}

func TestDescNulls(t *testing.T) {
	for _, nf := range []bool{false, true} {
		var sc parquet.SortingColumn = parquet.Descending("k")
		if nf {
			sc = parquet.NullsFirst(sc)
		}
		b := parquet.NewGenericBuffer[R](parquet.SortingRowGroupConfig(parquet.SortingColumns(sc)))
		b.Write([]R{{p(1), 1}, {nil, 2}, {p(3), 3}, {nil, 4}, {p(2), 5}})
		sort.Sort(b)
		dump(t, fmt.Sprintf("GenericBuffer desc nullsFirst=%v", nf), b.Rows())
		rb := parquet.NewRowBuffer[R](parquet.SortingRowGroupConfig(parquet.SortingColumns(sc)))
		rb.Write([]R{{p(1), 1}, {nil, 2}, {p(3), 3}, {nil, 4}, {p(2), 5}})
		sort.Sort(rb)
		dump(t, fmt.Sprintf("RowBuffer     desc nullsFirst=%v", nf), rb.Rows())
	}
}

func TestResortAfterPage(t *testing.T) {
	b := parquet.NewGenericBuffer[R](parquet.SortingRowGroupConfig(parquet.SortingColumns(parquet.Ascending("k"))))
	b.Write([]R{{nil, 1}, {p(5), 2}, {p(2), 3}})
	sort.Sort(b)
	dump(t, "after first sort", b.Rows())
	b.Write([]R{{p(1), 4}, {nil, 5}, {p(0), 6}})
	func() {
		defer func() {
			if r := recover(); r != nil {
				t.Logf("PANIC on second sort: %v", r)
			}
		}()
		sort.Sort(b)
		dump(t, "after second sort", b.Rows())
	}()
}

var _ = bytes.NewReader
