package exp

import (
	"bytes"
	"testing"

	"github.com/google/uuid"
	"github.com/parquet-go/parquet-go"
)

type N struct {
	A *int64 `parquet:"a,optional"`
}

func openBytes(t *testing.T, b []byte) *parquet.File {
	f, err := parquet.OpenFile(bytes.NewReader(b), int64(len(b)))
	if err != nil {
		t.Fatal(err)
	}
	return f
}

// F10
func TestSearchNullPageMiddle(t *testing.T) {
	var b bytes.Buffer
	w := parquet.NewGenericWriter[N](&b, parquet.PageBufferSize(1)) // flush often
	batch := func(vals ...*int64) {
		rows := make([]N, len(vals))
		for i, v := range vals {
			rows[i].A = v
		}
		w.Write(rows)
		for _, c := range w.ColumnWriters() {
			c.Flush()
		}
	}
	batch(p(-5), p(-1))
	batch(nil, nil)
	batch(p(6), p(9))
	w.Close()
	f := openBytes(t, b.Bytes())
	cc := f.RowGroups()[0].ColumnChunks()[0]
	ci, _ := cc.ColumnIndex()
	t.Logf("pages=%d asc=%v", ci.NumPages(), ci.IsAscending())
	for i := 0; i < ci.NumPages(); i++ {
		t.Logf(" page %d null=%v min=%v max=%v nullcount=%d", i, ci.NullPage(i), ci.MinValue(i), ci.MaxValue(i), ci.NullCount(i))
	}
	for _, v := range []int64{-5, -1, 6, 7, 9} {
		t.Logf(" Search(%d)=%d", v, parquet.Search(ci, parquet.ValueOf(v), cc.Type()))
	}
}

type U struct {
	ID [16]byte `parquet:"id,optional,uuid"`
}

// F11
func TestBE128NullPage(t *testing.T) {
	var b bytes.Buffer
	w := parquet.NewGenericWriter[U](&b, parquet.PageBufferSize(1))
	u1 := [16]byte(uuid.MustParse("00000000-0000-0000-0000-000000000001"))
	u2 := [16]byte(uuid.MustParse("00000000-0000-0000-0000-000000000002"))
	batch := func(vals ...[16]byte) {
		rows := make([]U, len(vals))
		for i, v := range vals {
			rows[i].ID = v
		}
		w.Write(rows)
		for _, c := range w.ColumnWriters() {
			c.Flush()
		}
	}
	batch(u1)
	batch([16]byte{}, [16]byte{})
	batch(u2)
	if err := w.Close(); err != nil {
		t.Fatal(err)
	}
	f := openBytes(t, b.Bytes())
	fci := f.ColumnIndexes()[0]
	t.Logf("nullpages=%v #min=%d #max=%d nullcounts=%v", fci.NullPages, len(fci.MinValues), len(fci.MaxValues), fci.NullCounts)
}

type B struct {
	S []byte `parquet:"s"`
}

// F12
func TestTruncFF(t *testing.T) {
	var b bytes.Buffer
	w := parquet.NewGenericWriter[B](&b)
	v := bytes.Repeat([]byte{0xFF}, 40)
	w.Write([]B{{S: []byte("a")}, {S: v}})
	w.Close()
	f := openBytes(t, b.Bytes())
	cc := f.RowGroups()[0].ColumnChunks()[0]
	ci, _ := cc.ColumnIndex()
	mx := ci.MaxValue(0).ByteArray()
	t.Logf("max=%x len=%d ; bytes.Compare(actual,max)=%d (must be <=0)", mx, len(mx), bytes.Compare(v, mx))
}
