package exp

import (
	"bytes"
	"fmt"
	"testing"

	"github.com/parquet-go/parquet-go"
)

type O struct {
	A int64 `parquet:"a,optional"`
}

func TestOptionalBitmap(t *testing.T) {
	for _, vals := range [][]int64{
		{0, 5, 0, 0, 0},
		{0, 0, 5, 6, 0, 0, 0, 0},
		{0, 0, 0, 5, 6, 7, 0, 0, 0, 0, 1},
	} {
		rows := make([]O, len(vals))
		for i, v := range vals {
			rows[i].A = v
		}
		var b bytes.Buffer
		w := parquet.NewGenericWriter[O](&b)
		w.Write(rows)
		w.Close()
		f, _ := parquet.OpenFile(bytes.NewReader(b.Bytes()), int64(b.Len()))
		rr := f.RowGroups()[0].Rows()
		buf := make([]parquet.Row, 64)
		n, _ := rr.ReadRows(buf)
		s := ""
		for _, r := range buf[:n] {
			s += fmt.Sprintf("%v(d=%d) ", r[0], r[0].DefinitionLevel())
		}
		// reference: Writer.Write(any) reflection path
		var b2 bytes.Buffer
		w2 := parquet.NewWriter(&b2, parquet.SchemaOf(O{}))
		for _, r := range rows {
			w2.Write(r)
		}
		w2.Close()
		f2, _ := parquet.OpenFile(bytes.NewReader(b2.Bytes()), int64(b2.Len()))
		rr2 := f2.RowGroups()[0].Rows()
		n2, _ := rr2.ReadRows(buf)
		s2 := ""
		for _, r := range buf[:n2] {
			s2 += fmt.Sprintf("%v(d=%d) ", r[0], r[0].DefinitionLevel())
		}
		t.Logf("in=%v\n  generic: %s\n  reflect: %s", vals, s, s2)
	}
}
