package exp

import (
	"bytes"
	"crypto/sha256"
	"fmt"
	"io"
	"testing"

	"github.com/parquet-go/parquet-go"
)

func TestResetDeterminism(t *testing.T) {
	rows := make([]S, 300)
	for i := range rows {
		rows[i] = S{Name: fmt.Sprintf("name-%03d", i%50), N: int64(i)}
	}
	fresh := func() []byte {
		var b bytes.Buffer
		w := parquet.NewGenericWriter[S](&b)
		w.Write(rows)
		w.Close()
		return b.Bytes()
	}
	f1 := fresh()
	var b1, b2 bytes.Buffer
	w := parquet.NewGenericWriter[S](&b1)
	w.Write(rows)
	w.Close()
	w.Reset(&b2)
	w.Write(rows)
	w.Close()
	t.Logf("fresh=%x first=%x reused=%x", sha256.Sum256(f1), sha256.Sum256(b1.Bytes()), sha256.Sum256(b2.Bytes()))
	for _, b := range [][]byte{f1, b2.Bytes()} {
		f, err := parquet.OpenFile(bytes.NewReader(b), int64(len(b)))
		if err != nil {
			t.Logf("open err %v", err)
			continue
		}
		for _, c := range f.Metadata().RowGroups[0].Columns {
			t.Logf("path_in_schema=%q encodings=%v", c.MetaData.PathInSchema, c.MetaData.Encoding)
		}
	}
}

func TestMergeNullableKeys2(t *testing.T) {
	sc := parquet.SortingWriterConfig(parquet.SortingColumns(parquet.Ascending("k")))
	a := writeSorted(t, []K{{p(1), 1}, {p(2), 2}, {nil, 3}, {nil, 4}}, sc)
	b := writeSorted(t, []K{{p(3), 5}, {p(4), 6}}, sc)
	m, err := parquet.MergeRowGroups([]parquet.RowGroup{a.RowGroups()[0], b.RowGroups()[0]})
	if err != nil {
		t.Fatal(err)
	}
	rows := m.Rows()
	s := ""
	buf := make([]parquet.Row, 3)
	for {
		n, err := rows.ReadRows(buf)
		for _, r := range buf[:n] {
			s += fmt.Sprintf("%v ", r)
		}
		if err != nil {
			if err != io.EOF {
				t.Log(err)
			}
			break
		}
	}
	t.Log(s)
}
