package main

import (
	"fmt"
	"runtime/debug"
	"syscall"
	"unsafe"

	"github.com/parquet-go/parquet-go/encoding/delta"
	"github.com/parquet-go/parquet-go/encoding/plain"
	"github.com/parquet-go/parquet-go/encoding/rle"
)

// guard returns a byte slice of length n whose last byte is immediately followed by a PROT_NONE page.
func guard(n int) []byte {
	ps := syscall.Getpagesize()
	pages := (n+ps-1)/ps + 1
	mem, err := syscall.Mmap(-1, 0, pages*ps, syscall.PROT_READ|syscall.PROT_WRITE, syscall.MAP_ANON|syscall.MAP_PRIVATE)
	if err != nil {
		panic(err)
	}
	if err := syscall.Mprotect(mem[(pages-1)*ps:], syscall.PROT_NONE); err != nil {
		panic(err)
	}
	end := (pages - 1) * ps
	return mem[end-n : end : end]
}

var sink byte

func try(name string, f func()) {
	defer func() {
		if r := recover(); r != nil {
			fmt.Printf("%s: FAULT recovered: %v\n", name, r)
		}
	}()
	f()
	fmt.Printf("%s: ok\n", name)
}

func main() {
	debug.SetPanicOnFault(true)
	// sanity: deliberate over-read
	try("deliberate", func() {
		b := guard(16)
		p := unsafe.Pointer(&b[15])
		sink = *(*byte)(unsafe.Add(p, 1))
	})
	for _, n := range []int{1, 7, 31, 32, 33, 127, 128, 129, 1000} {
		src := guard(n * 4)
		vals := unsafe.Slice((*int32)(unsafe.Pointer(&src[0])), n)
		for i := range vals {
			vals[i] = int32(i * 7)
		}
		try(fmt.Sprintf("delta enc int32 n=%d", n), func() {
			enc := &delta.BinaryPackedEncoding{}
			out, _ := enc.EncodeInt32(nil, vals)
			// decode with src at guard
			g := guard(len(out))
			copy(g, out)
			dec, err := enc.DecodeInt32(nil, g)
			if err != nil || len(dec) != n {
				fmt.Println("  decode err", err, len(dec))
			}
		})
		try(fmt.Sprintf("rle enc int32 n=%d", n), func() {
			enc := &rle.Encoding{BitWidth: 13}
			for i := range vals {
				vals[i] = int32(i % 5000)
			}
			out, _ := enc.EncodeInt32(nil, vals)
			g := guard(len(out))
			copy(g, out)
			dec, err := enc.DecodeInt32(nil, g)
			if err != nil || len(dec) < n {
				fmt.Println("  decode err", err, len(dec))
			}
		})
		try(fmt.Sprintf("plain n=%d", n), func() {
			enc := &plain.Encoding{}
			out, _ := enc.EncodeInt32(nil, vals)
			g := guard(len(out))
			copy(g, out)
			enc.DecodeInt32(nil, g)
		})
	}
}
