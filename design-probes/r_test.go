package exp

import (
	"bytes"
	"fmt"
	"io"
	"reflect"
	"testing"

	"github.com/parquet-go/parquet-go"
	"github.com/parquet-go/parquet-go/deprecated"
)

type A struct {
	ID   int64            `parquet:"id"`
	S    string           `parquet:"s"`
	SD   string           `parquet:"sd,dict"`
	B    []byte           `parquet:"b"`
	F    [7]byte          `parquet:"f"`
	U    [16]byte         `parquet:"u,uuid"`
	I96  deprecated.Int96 `parquet:"i96"`
	OS   *string          `parquet:"os,optional"`
	LS   []string         `parquet:"ls,list"`
	DS   string           `parquet:"ds,delta"`
}

func mkA(n int) []A {
	rows := make([]A, n)
	for i := range rows {
		s := fmt.Sprintf("value-%06d-%s", i, "abcdefghijklmnopqrstuvwxyz"[:i%26])
		rows[i] = A{ID: int64(i), S: s, SD: fmt.Sprintf("d%d", i%13), B: []byte(s), I96: deprecated.Int96{uint32(i), 1, 2}, LS: []string{s + "x", s + "y"}, DS: "prefix-" + s}
		copy(rows[i].F[:], s)
		copy(rows[i].U[:], s)
		if i%2 == 0 {
			rows[i].OS = &s
		}
	}
	return rows
}

func cloneRows(rows []parquet.Row) []parquet.Row {
	out := make([]parquet.Row, len(rows))
	for i, r := range rows {
		out[i] = r.Clone()
	}
	return out
}

func rowsEqualDeep(a, b []parquet.Row) int {
	diff := 0
	for i := range a {
		if !a[i].Equal(b[i]) {
			diff++
		}
	}
	return diff
}

func TestAliasing(t *testing.T) {
	rows := mkA(3000)
	for _, opts := range [][]parquet.WriterOption{
		{parquet.PageBufferSize(2048)},
		{parquet.PageBufferSize(2048), parquet.Compression(&parquet.Snappy), parquet.DataPageVersion(1)},
	} {
		var b bytes.Buffer
		w := parquet.NewGenericWriter[A](&b, opts...)
		w.Write(rows)
		w.Close()
		f := openBytes(t, b.Bytes())
		// 1. Read[T] values stay unchanged by later reads/close
		r := parquet.NewGenericReader[A](f)
		first := make([]A, 100)
		n, _ := r.Read(first)
		snap := make([]A, n)
		for i := range snap {
			snap[i] = first[i]
			snap[i].B = bytes.Clone(first[i].B)
			if first[i].OS != nil {
				s := *first[i].OS
				snap[i].OS = &s
			}
			snap[i].LS = append([]string(nil), first[i].LS...)
		}
		rest := make([]A, 500)
		for {
			_, err := r.Read(rest)
			if err != nil {
				break
			}
		}
		r.SeekToRow(10)
		r.Read(rest)
		r.Close()
		t.Logf("GenericReader values unchanged after later activity: %v", reflect.DeepEqual(first[:n], snap))
		// 2. ReadRows: rows valid until next call; clones valid forever
		rr := f.RowGroups()[0].Rows()
		buf := make([]parquet.Row, 64)
		var clones [][]parquet.Row
		var kept [][]parquet.Row
		for k := 0; k < 10; k++ {
			n, err := rr.ReadRows(buf)
			if n > 0 {
				// check the un-cloned rows right now against expected: compare with schema deconstruct of original rows
				c := cloneRows(buf[:n])
				clones = append(clones, c)
				kept = append(kept, c)
			}
			if err == io.EOF {
				break
			}
		}
		rr.Close()
		// churn
		for k := 0; k < 3; k++ {
			r2 := parquet.NewGenericReader[A](f)
			r2.Read(rest)
			r2.Close()
		}
		// verify clones against ground truth
		schema := parquet.SchemaOf(A{})
		idx, bad := 0, 0
		for _, c := range clones {
			for _, row := range c {
				want := schema.Deconstruct(nil, &rows[idx])
				if !row.Equal(want) {
					bad++
				}
				idx++
			}
		}
		t.Logf("cloned rows differing from ground truth after churn: %d of %d", bad, idx)
	}
}
