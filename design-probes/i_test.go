package exp

import (
	"bytes"
	"fmt"
	"io"
	"testing"

	"github.com/parquet-go/parquet-go"
)

type I struct {
	N int64 `parquet:"n"`
}

func TestSeekHistory(t *testing.T) {
	rows := make([]I, 1000)
	for i := range rows {
		rows[i].N = int64(i)
	}
	var b bytes.Buffer
	w := parquet.NewGenericWriter[I](&b, parquet.PageBufferSize(800)) // ~100 rows per page
	w.Write(rows)
	w.Close()
	f := openBytes(t, b.Bytes())
	cc := f.RowGroups()[0].ColumnChunks()[0]
	oi, _ := cc.OffsetIndex()
	s := ""
	for i := 0; i < oi.NumPages(); i++ {
		s += fmt.Sprintf("%d ", oi.FirstRowIndex(i))
	}
	t.Logf("pages first rows: %s", s)
	first := func(p parquet.Page) int64 {
		v := make([]parquet.Value, 1)
		p.Values().ReadValues(v)
		return v[0].Int64()
	}
	pages := cc.Pages()
	defer pages.Close()
	for i := 0; i < 3; i++ {
		p, _ := pages.ReadPage()
		t.Logf("read page first=%d rows=%d", first(p), p.NumRows())
		parquet.Release(p)
	}
	r1 := oi.FirstRowIndex(1)
	r2 := oi.FirstRowIndex(2)
	t.Logf("seek to %d then %d", r1, r2)
	if err := pages.SeekToRow(r1); err != nil {
		t.Fatal(err)
	}
	if err := pages.SeekToRow(r2 + 5); err != nil {
		t.Fatal(err)
	}
	for i := 0; i < 3; i++ {
		p, err := pages.ReadPage()
		if err != nil {
			if err != io.EOF {
				t.Log(err)
			}
			break
		}
		t.Logf("after seeks: page first=%d rows=%d", first(p), p.NumRows())
		parquet.Release(p)
	}
}
