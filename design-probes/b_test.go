package exp

import (
	"sort"
	"testing"

	"github.com/parquet-go/parquet-go"
)

func TestResortAfterPage2(t *testing.T) {
	b := parquet.NewGenericBuffer[R](parquet.SortingRowGroupConfig(parquet.SortingColumns(parquet.NullsFirst(parquet.Ascending("k")))))
	b.Write([]R{{nil, 1}, {p(5), 2}, {p(2), 3}})
	sort.Sort(b)
	dump(t, "after first sort", b.Rows())
	dump(t, "read again", b.Rows())
	b.Write([]R{{p(1), 4}, {nil, 5}, {p(0), 6}})
	func() {
		defer func() {
			if r := recover(); r != nil {
				t.Logf("PANIC on second sort: %v", r)
			}
		}()
		sort.Sort(b)
		dump(t, "after second sort", b.Rows())
	}()
}
