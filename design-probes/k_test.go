package exp

import (
	"bytes"
	"errors"
	"fmt"
	"io"
	"testing"

	"github.com/parquet-go/parquet-go"
)

type faultyReaderAt struct {
	r      *bytes.Reader
	calls  int
	failAt int // call index
	mode   int // 0 error, 1 short+error, 2 early EOF (n=0), 3 short + EOF
}

var errSrc = errors.New("source failed")

func (f *faultyReaderAt) Size() int64 { return f.r.Size() }
func (f *faultyReaderAt) ReadAt(p []byte, off int64) (int, error) {
	i := f.calls
	f.calls++
	if i == f.failAt {
		switch f.mode {
		case 0:
			return 0, errSrc
		case 1:
			n, _ := f.r.ReadAt(p[:len(p)/2], off)
			return n, errSrc
		case 2:
			return 0, io.EOF
		case 3:
			n, _ := f.r.ReadAt(p[:len(p)/2], off)
			return n, io.EOF
		}
	}
	return f.r.ReadAt(p, off)
}

func readAllS(r io.ReaderAt, size int64, opts ...parquet.FileOption) (rows []S, err error, panicked any) {
	defer func() { panicked = recover() }()
	f, err := parquet.OpenFile(r, size, opts...)
	if err != nil {
		return nil, err, nil
	}
	rd := parquet.NewGenericReader[S](f)
	defer rd.Close()
	buf := make([]S, 64)
	for {
		n, err := rd.Read(buf)
		rows = append(rows, buf[:n]...)
		if err != nil {
			if errors.Is(err, io.EOF) {
				return rows, nil, nil
			}
			return rows, err, nil
		}
	}
}

func TestSourceFaults(t *testing.T) {
	var clean bytes.Buffer
	errs, _ := writeScenario(&clean, parquet.PageBufferSize(256), parquet.BloomFilters(parquet.SplitBlockFilter(10, "name")))
	_ = errs
	b := clean.Bytes()
	want, err, _ := readAllS(bytes.NewReader(b), int64(len(b)))
	if err != nil || len(want) != 400 {
		t.Fatal(err, len(want))
	}
	for _, rbs := range []int{4096, 64} {
		cr := &faultyReaderAt{r: bytes.NewReader(b), failAt: -1}
		readAllS(cr, int64(len(b)), parquet.ReadBufferSize(rbs))
		total := cr.calls
		for mode := 0; mode < 4; mode++ {
			silentWrong, silentOK, panics := 0, 0, 0
			var ex []string
			for i := 0; i < total; i++ {
				fr := &faultyReaderAt{r: bytes.NewReader(b), failAt: i, mode: mode}
				got, err, p := readAllS(fr, int64(len(b)), parquet.ReadBufferSize(rbs))
				if p != nil {
					panics++
					if len(ex) < 3 {
						ex = append(ex, fmt.Sprintf("call %d panic %v", i, p))
					}
					continue
				}
				if err == nil {
					same := len(got) == len(want)
					if same {
						for j := range got {
							if got[j] != want[j] {
								same = false
							}
						}
					}
					if same {
						silentOK++
					} else {
						silentWrong++
						if len(ex) < 3 {
							ex = append(ex, fmt.Sprintf("call %d rows=%d", i, len(got)))
						}
					}
				}
			}
			t.Logf("rbs=%d mode=%d calls=%d silentWrong=%d silentButEqual=%d panics=%d %v", rbs, mode, total, silentWrong, silentOK, panics, ex)
		}
	}
	// truncation
	opened, readOK, panics := 0, 0, 0
	for l := 0; l < len(b); l++ {
		got, err, p := readAllS(bytes.NewReader(b[:l]), int64(l))
		if p != nil {
			panics++
			continue
		}
		if err == nil {
			readOK++
			_ = got
		}
		_ = opened
	}
	t.Logf("truncation: lengths=%d readWithoutError=%d panics=%d", len(b), readOK, panics)
}
