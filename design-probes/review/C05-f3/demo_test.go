package parquet_test

// Copy into the repository root (package directory of
// github.com/parquet-go/parquet-go) and run
//
//	go test -vet=off -count=1 -run TestC05F3 .

import (
	"bytes"
	"testing"

	"github.com/parquet-go/parquet-go"
)

type c05f3Row struct {
	X int32 `parquet:"x"`
}

// writes one row group with two values per page
func c05f3File(t *testing.T, values ...int32) *parquet.File {
	t.Helper()
	buf := new(bytes.Buffer)
	w := parquet.NewGenericWriter[c05f3Row](buf, parquet.PageBufferSize(8))
	for _, v := range values {
		if _, err := w.Write([]c05f3Row{{X: v}}); err != nil {
			t.Fatal(err)
		}
	}
	if err := w.Close(); err != nil {
		t.Fatal(err)
	}
	f, err := parquet.OpenFile(bytes.NewReader(buf.Bytes()), int64(buf.Len()))
	if err != nil {
		t.Fatal(err)
	}
	return f
}

func TestC05F3MultiRowGroupIsDescending(t *testing.T) {
	// chunk A: pages [11 10] [2 1]   -> min 10,1  max 11,2  (DESCENDING)
	// chunk B: pages [9 8]   [0 0]   -> min 8,0   max 9,0   (DESCENDING)
	a := c05f3File(t, 11, 10, 2, 1)
	b := c05f3File(t, 9, 8, 0, 0)

	for name, f := range map[string]*parquet.File{"A": a, "B": b} {
		index, err := f.RowGroups()[0].ColumnChunks()[0].ColumnIndex()
		if err != nil {
			t.Fatal(err)
		}
		if index.NumPages() != 2 || !index.IsDescending() {
			t.Fatalf("setup: chunk %s: NumPages=%d IsDescending=%v, want 2 pages in descending order", name, index.NumPages(), index.IsDescending())
		}
	}

	multi := parquet.MultiRowGroup(a.RowGroups()[0], b.RowGroups()[0])
	chunk := multi.ColumnChunks()[0]
	index, err := chunk.ColumnIndex()
	if err != nil {
		t.Fatal(err)
	}

	var mins, maxs []int32
	descending := true
	for i := 0; i < index.NumPages(); i++ {
		mins = append(mins, index.MinValue(i).Int32())
		maxs = append(maxs, index.MaxValue(i).Int32())
		if i > 0 && (mins[i-1] < mins[i] || maxs[i-1] < maxs[i]) {
			descending = false
		}
	}
	if index.IsDescending() != descending && index.IsDescending() {
		t.Errorf("multi row group column index: IsDescending() = true, but the page bounds are min=%v max=%v which are not in descending order (expected IsDescending() = false)", mins, maxs)
	}
}
