package parquet_test

// Copy into the root package directory of the repository (next to file.go):
//   go test -vet=off -count=1 -run 'TestC14DictionarySkipIgnoresReadError' .

import (
	"bytes"
	"errors"
	"io"
	"strings"
	"testing"

	"github.com/parquet-go/parquet-go"
)

type c14f3Row struct {
	Name string `parquet:"name,dict"`
}

func c14f3Write(t *testing.T, names []string) []byte {
	t.Helper()
	rows := make([]c14f3Row, len(names))
	for i := range names {
		rows[i].Name = names[i]
	}
	out := new(bytes.Buffer)
	w := parquet.NewGenericWriter[c14f3Row](out, parquet.PageBufferSize(1<<20))
	if _, err := w.Write(rows); err != nil {
		t.Fatal(err)
	}
	if err := w.Close(); err != nil {
		t.Fatal(err)
	}
	return out.Bytes()
}

var errC14f3 = errors.New("injected transient read error")

// c14f3ReaderAt fails exactly one ReadAt call: the first one made after it was
// armed whose range crosses the offset `stop`. It delivers the bytes before
// `stop` together with a non-nil error, as io.ReaderAt allows.
type c14f3ReaderAt struct {
	r     *bytes.Reader
	stop  int64
	armed bool
	fired bool
}

func (f *c14f3ReaderAt) ReadAt(p []byte, off int64) (int, error) {
	if f.armed && !f.fired && off < f.stop && off+int64(len(p)) > f.stop {
		f.fired = true
		n, _ := f.r.ReadAt(p[:f.stop-off], off)
		return n, errC14f3
	}
	return f.r.ReadAt(p, off)
}

func TestC14DictionarySkipIgnoresReadError(t *testing.T) {
	// Step 1: a small file whose only data page holds 5 times "x"; the raw bytes
	// of that data page (header+body) become an ordinary string VALUE below.
	small := c14f3Write(t, []string{"x", "x", "x", "x", "x"})
	sf, err := parquet.OpenFile(bytes.NewReader(small), int64(len(small)))
	if err != nil {
		t.Fatal(err)
	}
	oi, err := sf.RowGroups()[0].ColumnChunks()[0].OffsetIndex()
	if err != nil {
		t.Fatal(err)
	}
	if oi.NumPages() != 1 {
		t.Fatalf("test setup: %d pages", oi.NumPages())
	}
	pageBytes := string(small[oi.Offset(0) : oi.Offset(0)+oi.CompressedPageSize(0)])

	// Step 2: the file under test. Its dictionary is "x", a long padding value,
	// and the value made of the page bytes (last entry of the dictionary page).
	names := []string{"x", strings.Repeat("p", 6000), pageBytes}
	for i := 0; i < 100; i++ {
		names = append(names, "x")
	}
	data := c14f3Write(t, names)
	df, err := parquet.OpenFile(bytes.NewReader(data), int64(len(data)))
	if err != nil {
		t.Fatal(err)
	}
	meta := df.Metadata().RowGroups[0].Columns[0].MetaData
	dictStart, dictEnd := meta.DictionaryPageOffset, meta.DataPageOffset
	i := bytes.LastIndex(data[dictStart:dictEnd], []byte(pageBytes))
	if i < 0 || dictStart+int64(i+len(pageBytes)) != dictEnd {
		t.Fatalf("test setup: the value is not the last entry of the dictionary page (i=%d)", i)
	}
	stop := dictStart + int64(i) // file offset of the value inside the dictionary page

	read := func(src io.ReaderAt, arm func()) (values []string, err error) {
		f, err := parquet.OpenFile(src, int64(len(data)))
		if err != nil {
			return nil, err
		}
		pages := f.RowGroups()[0].ColumnChunks()[0].Pages()
		defer pages.Close()
		// Documented use: access the dictionary before reading the first page.
		if _, err := pages.(*parquet.FilePages).ReadDictionary(); err != nil {
			return nil, err
		}
		arm()
		for {
			p, err := pages.ReadPage()
			if err == io.EOF {
				return values, nil
			}
			if err != nil {
				return values, err
			}
			buf := make([]parquet.Value, p.NumValues())
			n, err := p.Values().ReadValues(buf)
			if err != nil && err != io.EOF {
				return values, err
			}
			for _, v := range buf[:n] {
				values = append(values, string(v.ByteArray()))
			}
			parquet.Release(p)
		}
	}

	clean, err := read(bytes.NewReader(data), func() {})
	if err != nil || len(clean) != len(names) {
		t.Fatalf("test setup: clean read: %d values, err=%v", len(clean), err)
	}

	src := &c14f3ReaderAt{r: bytes.NewReader(data), stop: stop}
	got, err := read(src, func() { src.armed = true })
	if !src.fired {
		t.Fatal("test setup: the fault was not injected")
	}
	if err == nil && len(got) != len(names) {
		t.Fatalf("one ReadAt call returned %q while ReadPage skipped the dictionary page: expected that error (or at least some error) from ReadPage, or the %d values of the column; got err=nil and %d values (first values: %q)",
			errC14f3, len(names), len(got), got[:6])
	}
	if err != nil && !errors.Is(err, errC14f3) {
		t.Logf("note: ReadPage reported %q instead of the source's error %q", err, errC14f3)
	}
}
