package parquet_test

// Copy into the root package directory of the repository (next to reader.go) and run
//   go test -vet=off -count=1 -run TestC16F3 .

import (
	"bytes"
	"fmt"
	"testing"

	"github.com/parquet-go/parquet-go"
)

type c16f3Row struct {
	ID   int64
	Name string
	Tags []string
}

// Values filled by GenericReader.Read must not be changed by a later Read.
// With a pointer row type (explicitly supported, see readFuncOf) the structs
// returned by the first Read are overwritten in place by the second Read when
// the caller reuses its batch slice - the usual read loop.
func TestC16F3GenericReaderPointerRowsOverwrittenByNextRead(t *testing.T) {
	var buf bytes.Buffer
	w := parquet.NewGenericWriter[*c16f3Row](&buf)
	for i := 0; i < 4; i++ {
		if _, err := w.Write([]*c16f3Row{{ID: int64(i), Name: fmt.Sprintf("row-%d", i), Tags: []string{fmt.Sprint(i)}}}); err != nil {
			t.Fatal(err)
		}
	}
	if err := w.Close(); err != nil {
		t.Fatal(err)
	}

	r := parquet.NewGenericReader[*c16f3Row](bytes.NewReader(buf.Bytes()))
	defer r.Close()

	batch := make([]*c16f3Row, 2)
	var all []*c16f3Row // what an application collects across batches

	for len(all) < 4 {
		n, err := r.Read(batch)
		all = append(all, batch[:n]...)
		if err != nil {
			break
		}
	}
	if len(all) != 4 {
		t.Fatalf("expected 4 rows, got %d", len(all))
	}

	for i, row := range all {
		if row.ID != int64(i) || row.Name != fmt.Sprintf("row-%d", i) {
			t.Errorf("row %d handed out by Read was changed by a later Read: expected {ID:%d Name:row-%d}, actual {ID:%d Name:%s Tags:%v}",
				i, i, i, row.ID, row.Name, row.Tags)
		}
	}
	if all[0] == all[2] {
		t.Errorf("rows 0 and 2 (returned by two different Read calls) are the same pointer %p", all[0])
	}
}
