// Copy into the repository root (package directory of
// github.com/parquet-go/parquet-go) and run:
//
//	go test -vet=off -count=1 -run TestC10F3NaNSortingKey .
package parquet_test

import (
	"bytes"
	"fmt"
	"math"
	"sort"
	"testing"

	"github.com/parquet-go/parquet-go"
)

type c10f3Row struct {
	F  float64 `parquet:"f"`
	ID int64   `parquet:"id"`
}

func TestC10F3NaNSortingKey(t *testing.T) {
	// DropDuplicatedRows is documented as: "Two rows are considered duplicates
	// if the values of all their sorting columns are equal". The four rows
	// below have four different keys; 1, 2 and 3 are certainly not duplicates
	// of each other nor of NaN.
	t.Run("SortingWriter/DropDuplicatedRows", func(t *testing.T) {
		in := []c10f3Row{{math.NaN(), 0}, {3, 1}, {2, 2}, {1, 3}}

		var out bytes.Buffer
		w := parquet.NewSortingWriter[c10f3Row](&out, 100,
			parquet.SortingWriterConfig(
				parquet.SortingColumns(parquet.Ascending("f")),
				parquet.DropDuplicatedRows(true),
			),
		)
		if _, err := w.Write(in); err != nil {
			t.Fatal(err)
		}
		if err := w.Close(); err != nil {
			t.Fatal(err)
		}
		got, err := parquet.Read[c10f3Row](bytes.NewReader(out.Bytes()), int64(out.Len()))
		if err != nil {
			t.Fatal(err)
		}
		ids := map[int64]bool{}
		for _, r := range got {
			ids[r.ID] = true
		}
		for _, r := range in[1:] {
			if !ids[r.ID] {
				t.Errorf("row {f:%v id:%d} has a key different from every other row but was dropped as a duplicate", r.F, r.ID)
			}
		}
		if len(got) < 3 {
			t.Errorf("expected the rows with keys 1, 2 and 3 (and NaN) in the output, actual output has %d row(s): %v", len(got), got)
		}
	})

	// Without duplicate dropping: the non-NaN rows are not ordered either.
	t.Run("GenericBuffer/order", func(t *testing.T) {
		in := []c10f3Row{{2, 0}, {math.NaN(), 1}, {1, 2}}
		buf := parquet.NewGenericBuffer[c10f3Row](
			parquet.SortingRowGroupConfig(parquet.SortingColumns(parquet.Ascending("f"))),
		)
		if _, err := buf.Write(in); err != nil {
			t.Fatal(err)
		}
		sort.Sort(buf)
		got := make([]c10f3Row, 3)
		r := parquet.NewGenericRowGroupReader[c10f3Row](buf)
		if n, _ := r.Read(got); n != 3 {
			t.Fatalf("read %d rows", n)
		}
		compare := buf.Schema().Comparator(parquet.Ascending("f"))
		var rows []parquet.Row
		for i := range got {
			rows = append(rows, buf.Schema().Deconstruct(nil, &got[i]))
		}
		for i := range rows {
			for j := i + 1; j < len(rows); j++ {
				if compare(rows[i], rows[j]) > 0 {
					t.Errorf("after sort.Sort by Ascending(f): row %d (f=%v) precedes row %d (f=%v) although Schema.Comparator orders it after; full order %s",
						i, got[i].F, j, got[j].F, fmt.Sprint(got))
				}
			}
		}
	})
}
