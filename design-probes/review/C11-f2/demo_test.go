package parquet_test

// Copy this file into the root package directory of the repository
// (next to writer_copy.go) and run:
//
//	go test -vet=off -count=1 -run 'TestC11F2' .

import (
	"bytes"
	"fmt"
	"testing"

	"github.com/parquet-go/parquet-go"
	"github.com/parquet-go/parquet-go/format"
	geom "github.com/twpayne/go-geom"
	"github.com/twpayne/go-geom/encoding/wkb"
)

type c11f2Row struct {
	ID   int64  `parquet:"id"`
	Geom []byte `parquet:"geom,geometry(OGC:CRS84)"` // WKB
}

func c11f2Rows() []c11f2Row {
	encode := func(g geom.T) []byte {
		b, err := wkb.Marshal(g, wkb.NDR)
		if err != nil {
			panic(err)
		}
		return b
	}
	return []c11f2Row{
		{ID: 1, Geom: encode(geom.NewPointFlat(geom.XY, []float64{10, 20}))},
		{ID: 2, Geom: encode(geom.NewPointFlat(geom.XY, []float64{30, 40}))},
		{ID: 3, Geom: encode(geom.NewLineStringFlat(geom.XY, []float64{-5, -6, 7, 8}))},
	}
}

func c11f2Stats(t *testing.T, b []byte) format.GeospatialStatistics {
	t.Helper()
	f, err := parquet.OpenFile(bytes.NewReader(b), int64(len(b)))
	if err != nil {
		t.Fatal(err)
	}
	return f.Metadata().RowGroups[0].Columns[1].MetaData.GeospatialStatistics
}

func c11f2RowByRow(t *testing.T, rows []c11f2Row, opts ...parquet.WriterOption) []byte {
	t.Helper()
	var buf bytes.Buffer
	w := parquet.NewGenericWriter[c11f2Row](&buf, opts...)
	for i := range rows {
		if _, err := w.Write(rows[i : i+1]); err != nil {
			t.Fatal(err)
		}
	}
	if err := w.Close(); err != nil {
		t.Fatal(err)
	}
	return buf.Bytes()
}

// Source and destination writers use the same (default) configuration, so the
// row group is copied verbatim; the geospatial statistics of the GEOMETRY
// column, which a writer always computes, are missing from the output.
func TestC11F2GeospatialStatisticsWriteRowGroup(t *testing.T) {
	rows := c11f2Rows()
	srcBytes := c11f2RowByRow(t, rows)
	want := c11f2Stats(t, srcBytes) // = what writing the rows one by one produces

	src, err := parquet.OpenFile(bytes.NewReader(srcBytes), int64(len(srcBytes)))
	if err != nil {
		t.Fatal(err)
	}
	var buf bytes.Buffer
	w := parquet.NewGenericWriter[c11f2Row](&buf)
	if _, err := w.WriteRowGroup(src.RowGroups()[0]); err != nil {
		t.Fatal(err)
	}
	if err := w.Close(); err != nil {
		t.Fatal(err)
	}
	got := c11f2Stats(t, buf.Bytes())

	if fmt.Sprintf("%+v", got) != fmt.Sprintf("%+v", want) {
		t.Errorf("geospatial statistics of column geom:\n"+
			"  expected (rows written one by one): %+v\n"+
			"  actual   (WriteRowGroup):           %+v", want, got)
	}

	// Control: as soon as the configuration differs (here the codec), the
	// column-wise re-encode path is taken and the statistics are there.
	buf.Reset()
	w = parquet.NewGenericWriter[c11f2Row](&buf, parquet.Compression(&parquet.Snappy))
	if _, err := w.WriteRowGroup(src.RowGroups()[0]); err != nil {
		t.Fatal(err)
	}
	if err := w.Close(); err != nil {
		t.Fatal(err)
	}
	if reencoded := c11f2Stats(t, buf.Bytes()); fmt.Sprintf("%+v", reencoded) != fmt.Sprintf("%+v", want) {
		t.Errorf("control (re-encode path): geospatial statistics %+v, want %+v", reencoded, want)
	}
}

// The same through SortingWriter.Close with a single set of options.
func TestC11F2GeospatialStatisticsSortingWriter(t *testing.T) {
	rows := c11f2Rows()
	opts := []parquet.WriterOption{
		parquet.SortingWriterConfig(parquet.SortingColumns(parquet.Ascending("id"))),
	}
	want := c11f2Stats(t, c11f2RowByRow(t, rows, opts...))

	var buf bytes.Buffer
	sw := parquet.NewSortingWriter[c11f2Row](&buf, 1000, opts...)
	if _, err := sw.Write(rows); err != nil {
		t.Fatal(err)
	}
	if err := sw.Close(); err != nil {
		t.Fatal(err)
	}
	got := c11f2Stats(t, buf.Bytes())
	if fmt.Sprintf("%+v", got) != fmt.Sprintf("%+v", want) {
		t.Errorf("geospatial statistics of column geom:\n"+
			"  expected (GenericWriter, same options): %+v\n"+
			"  actual   (SortingWriter):               %+v", want, got)
	}
}
