package parquet_test

// Copy into the repository root (package directory of
// github.com/parquet-go/parquet-go) and run
//
//	go test -vet=off -count=1 -run TestC05F1 .
//
// Needs an amd64 CPU with AVX-512 F+DQ and the default (non purego) build.

import (
	"bytes"
	"testing"

	"github.com/parquet-go/parquet-go"
)

// 16 UUIDs that only differ in byte 9. Row 0 holds the largest value, every
// other row holds a smaller one, so the true min has byte 9 == 0x01 and the
// true max is row 0 (byte 9 == 0xF0).
func c05f1Values() [][16]byte {
	values := make([][16]byte, 16)
	for i := range values {
		values[i][9] = byte(i)
	}
	values[0][9] = 0xF0
	return values
}

func TestC05F1UUIDPageBoundsIgnoreByte9(t *testing.T) {
	type row struct {
		ID [16]byte `parquet:"id,uuid"`
	}
	values := c05f1Values()
	rows := make([]row, len(values))
	for i := range rows {
		rows[i].ID = values[i]
	}

	buf := new(bytes.Buffer)
	w := parquet.NewGenericWriter[row](buf)
	if _, err := w.Write(rows); err != nil {
		t.Fatal(err)
	}
	if err := w.Close(); err != nil {
		t.Fatal(err)
	}

	f, err := parquet.OpenFile(bytes.NewReader(buf.Bytes()), int64(buf.Len()))
	if err != nil {
		t.Fatal(err)
	}
	chunk := f.RowGroups()[0].ColumnChunks()[0]
	typ := chunk.Type()

	trueMin := parquet.FixedLenByteArrayValue(values[1][:])
	trueMax := parquet.FixedLenByteArrayValue(values[0][:])

	min, max, ok := chunk.(*parquet.FileColumnChunk).Bounds()
	if !ok {
		t.Fatal("column chunk has no bounds")
	}
	if typ.Compare(min, trueMin) > 0 {
		t.Errorf("column chunk statistics: min_value=%x is greater than the value %x stored in the chunk (expected min_value <= %x)",
			min.ByteArray(), trueMin.ByteArray(), trueMin.ByteArray())
	}
	if typ.Compare(max, trueMax) < 0 {
		t.Errorf("column chunk statistics: max_value=%x is less than the value %x stored in the chunk (expected max_value >= %x)",
			max.ByteArray(), trueMax.ByteArray(), trueMax.ByteArray())
	}

	index, err := chunk.ColumnIndex()
	if err != nil {
		t.Fatal(err)
	}
	if got := index.MinValue(0); typ.Compare(got, trueMin) > 0 {
		t.Errorf("column index: page 0 min=%x is greater than the value %x stored in the page (expected min <= %x)",
			got.ByteArray(), trueMin.ByteArray(), trueMin.ByteArray())
	}
	if got := index.MaxValue(0); typ.Compare(got, trueMax) < 0 {
		t.Errorf("column index: page 0 max=%x is less than the value %x stored in the page", got.ByteArray(), trueMax.ByteArray())
	}

	// A reader that prunes pages with the column index loses rows that exist.
	for _, v := range values[1:] {
		probe := parquet.FixedLenByteArrayValue(v[:])
		if page := parquet.Search(index, probe, typ); page != 0 {
			t.Errorf("parquet.Search(%x) = %d (NumPages=%d, i.e. not found), but the value is stored in page 0",
				v, page, index.NumPages())
			break
		}
	}
}

// Same defect seen through the in-memory buffer API (Page.Bounds).
func TestC05F1BufferPageBounds(t *testing.T) {
	schema := parquet.NewSchema("t", parquet.Group{"id": parquet.UUID()})
	b := parquet.NewBuffer(schema)
	values := c05f1Values()
	// put the smallest value first and the largest anywhere else: the kernel
	// must move away from element 0 for the max
	values[0][9] = 0x00
	values[7][9] = 0xF0
	for _, v := range values {
		if _, err := b.WriteRows([]parquet.Row{{parquet.FixedLenByteArrayValue(v[:]).Level(0, 0, 0)}}); err != nil {
			t.Fatal(err)
		}
	}
	page := b.ColumnBuffers()[0].Page()
	_, max, _ := page.Bounds()
	if !bytes.Equal(max.ByteArray(), values[7][:]) {
		t.Errorf("Page.Bounds max=%x, expected %x (the largest of the 16 values of the page)", max.ByteArray(), values[7][:])
	}
}
