// Copy into the repository root (package directory "."), e.g.
//   cp findings/f3/demo_test.go ./c18_f3_demo_test.go
//   go test -vet=off -count=1 -run TestC18F3 .
package parquet_test

import (
	"bytes"
	"testing"

	"github.com/parquet-go/parquet-go"
)

type c18f3Row struct {
	ID  int64  `parquet:"id"`
	SSN string `parquet:"ssn"`
}

// A ColumnKeys entry whose value is a nil slice (typically the result of a
// failed lookup: ColumnKeys: map[string][]byte{"ssn": keyring["ssn"]}) must be
// rejected like every other invalid key length is. Instead the column is
// written in clear text, its column index (min/max) too, and the footer claims
// that the column is encrypted with a column key.
func TestC18F3NilColumnKeyWritesColumnInClear(t *testing.T) {
	footerKey := bytes.Repeat([]byte{1}, 16)
	var keyring map[string][]byte // lookup of a missing key yields nil

	var buf bytes.Buffer
	w := parquet.NewGenericWriter[c18f3Row](&buf, parquet.WithEncryption(&parquet.EncryptionConfig{
		FooterKey:       footerKey,
		ColumnKeys:      map[string][]byte{"ssn": keyring["ssn"]},
		EncryptedFooter: true,
	}))
	_, werr := w.Write([]c18f3Row{{1, "SSN-078-05-1120-AAAA"}, {2, "SSN-219-09-9999-BBBB"}})
	cerr := w.Close()
	if werr != nil || cerr != nil {
		return // expected: the unusable key is reported
	}
	data := buf.Bytes()
	n := bytes.Count(data, []byte("SSN-078-05-1120-AAAA"))
	if n > 0 {
		t.Errorf("expected: Write/Close fail (invalid AES key for column \"ssn\"), or the column is encrypted; "+
			"actual: no error, and the value of the column appears %d times in clear text in the %d-byte "+
			"\"encrypted\" file (data page + column index)", n, len(data))
	}
}
