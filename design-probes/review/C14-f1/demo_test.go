package parquet_test

// Copy into the root package directory of the repository (next to file.go):
//   go test -vet=off -count=1 -run 'TestC14EncryptedEarlyEOF' .

import (
	"bytes"
	"fmt"
	"io"
	"testing"

	"github.com/parquet-go/parquet-go"
)

type c14f1Row struct {
	ID   int64  `parquet:"id"`
	Name string `parquet:"name"`
}

type c14f1Keys struct{ key []byte }

func (k c14f1Keys) FooterKey([]byte) ([]byte, error)           { return k.key, nil }
func (k c14f1Keys) ColumnKey([]string, []byte) ([]byte, error) { return k.key, nil }

// c14f1EOFReaderAt answers the at-th ReadAt call with (0, io.EOF) although the
// bytes exist: a source that ends early (e.g. a remote object whose body is cut
// short, or a file that is being truncated concurrently).
type c14f1EOFReaderAt struct {
	r     io.ReaderAt
	calls int
	at    int
	fired bool
}

func (f *c14f1EOFReaderAt) ReadAt(p []byte, off int64) (int, error) {
	i := f.calls
	f.calls++
	if i == f.at {
		f.fired = true
		return 0, io.EOF
	}
	return f.r.ReadAt(p, off)
}

func c14f1ReadAll(r io.ReaderAt, size int64, options ...parquet.FileOption) (ids []int64, err error) {
	f, err := parquet.OpenFile(r, size, options...)
	if err != nil {
		return nil, err
	}
	reader := parquet.NewGenericReader[c14f1Row](f)
	defer reader.Close()
	buf := make([]c14f1Row, 64)
	for {
		n, err := reader.Read(buf)
		for _, row := range buf[:n] {
			ids = append(ids, row.ID)
		}
		if err == io.EOF {
			return ids, nil
		}
		if err != nil {
			return ids, err
		}
	}
}

func TestC14EncryptedEarlyEOF(t *testing.T) {
	const numRows = 2000
	rows := make([]c14f1Row, numRows)
	for i := range rows {
		rows[i] = c14f1Row{ID: int64(i), Name: fmt.Sprintf("row-%06d", i)}
	}
	key := []byte("0123456789abcdef")

	for _, test := range []struct {
		name    string
		writer  []parquet.WriterOption
		options []parquet.FileOption
	}{
		{
			name:   "plaintext file (control)",
			writer: []parquet.WriterOption{parquet.PageBufferSize(1024)},
		},
		{
			name: "encrypted footer",
			writer: []parquet.WriterOption{
				parquet.PageBufferSize(1024),
				parquet.WithEncryption(&parquet.EncryptionConfig{FooterKey: key, EncryptedFooter: true}),
			},
			options: []parquet.FileOption{parquet.WithDecryption(c14f1Keys{key})},
		},
		{
			name: "plaintext footer, encrypted columns",
			writer: []parquet.WriterOption{
				parquet.PageBufferSize(1024),
				parquet.WithEncryption(&parquet.EncryptionConfig{FooterKey: key, EncryptedFooter: false}),
			},
			options: []parquet.FileOption{parquet.WithDecryption(c14f1Keys{key})},
		},
	} {
		t.Run(test.name, func(t *testing.T) {
			out := new(bytes.Buffer)
			w := parquet.NewGenericWriter[c14f1Row](out, test.writer...)
			for i := 0; i < numRows; i += 500 { // 4 row groups
				if _, err := w.Write(rows[i : i+500]); err != nil {
					t.Fatal(err)
				}
				if err := w.Flush(); err != nil {
					t.Fatal(err)
				}
			}
			if err := w.Close(); err != nil {
				t.Fatal(err)
			}
			data := out.Bytes()

			ids, err := c14f1ReadAll(bytes.NewReader(data), int64(len(data)), test.options...)
			if err != nil || len(ids) != numRows {
				t.Fatalf("test setup: clean read returned %d rows, err=%v", len(ids), err)
			}

			silent := 0
			for at := 0; ; at++ {
				src := &c14f1EOFReaderAt{r: bytes.NewReader(data), at: at}
				ids, err := c14f1ReadAll(src, int64(len(data)), test.options...)
				if !src.fired {
					break // the read needs fewer than at+1 ReadAt calls
				}
				if err == nil && len(ids) != numRows {
					silent++
					if silent <= 3 {
						t.Errorf("ReadAt call #%d returned (0, io.EOF) for bytes inside the file: expected an error from OpenFile/Read or all %d rows, got err=nil and %d rows",
							at, numRows, len(ids))
					}
				}
			}
			if silent > 0 {
				t.Errorf("%d ReadAt call indexes at which an early EOF of the source was taken for the end of the data", silent)
			}
		})
	}
}
