package parquet_test

// Copy into the repository root (package parquet_test), e.g. as
// c19_f4_demo_test.go, and run:
//
//	go test -vet=off -count=1 -run TestC19F4 .

import (
	"bytes"
	"fmt"
	"testing"

	"github.com/parquet-go/parquet-go"
)

type c19f4Write struct {
	V any `parquet:"v,variant"`
}

func c19f4File(t *testing.T, values ...any) []byte {
	rows := make([]c19f4Write, len(values))
	for i, v := range values {
		rows[i].V = v
	}
	buf := new(bytes.Buffer)
	w := parquet.NewGenericWriter[c19f4Write](buf)
	if _, err := w.Write(rows); err != nil {
		t.Fatal(err)
	}
	if err := w.Close(); err != nil {
		t.Fatal(err)
	}
	return buf.Bytes()
}

// c19f4Check reads the one-row file into a struct whose variant field has Go
// type T and requires either an error or a value that prints like the value
// that was written.
func c19f4Check[T any](t *testing.T, written any) {
	t.Helper()
	type row struct {
		V T `parquet:"v,variant"`
	}
	data := c19f4File(t, written)
	rd := parquet.NewGenericReader[row](bytes.NewReader(data))
	defer rd.Close()
	out := make([]row, 1)
	n, err := rd.Read(out)
	if n == 0 && err != nil {
		return // refusing is fine (this is what float64 -> string does)
	}
	if got, want := fmt.Sprint(out[0].V), fmt.Sprint(written); got != want {
		t.Errorf("variant %T(%v) read into a %T field: expected an error or the value %s, actual %q (%v) with err=%v",
			written, written, out[0].V, want, got, out[0].V, err)
	}
}

func TestC19F4TypedReadSilentlyConverts(t *testing.T) {
	c19f4Check[string](t, int64(65))   // actual "A"
	c19f4Check[string](t, int64(300))  // actual "Ĭ"
	c19f4Check[int8](t, int64(300))    // actual 44
	c19f4Check[uint32](t, int64(-1))   // actual 4294967295
	c19f4Check[int64](t, float64(3.9)) // actual 3
	c19f4Check[string](t, float64(1))  // control: errors ("cannot assign float64 to string")
	c19f4Check[int64](t, int32(7))     // control: lossless widening, passes
}
