// Copy into the repository root (package parquet_test), e.g. as f2_demo_test.go:
//   go test -vet=off -count=1 -run 'TestC08F2' .
package parquet_test

import (
	"fmt"
	"io"
	"testing"

	"github.com/parquet-go/parquet-go"
)

type c08f2ElemSrc struct {
	A int64 `parquet:"a"`
}

type c08f2ElemDst struct {
	A int64  `parquet:"a"`
	B *int64 `parquet:"b,optional"` // does not exist in the source: a "missing" column inside a repeated group
}

type c08f2Src struct {
	Items []c08f2ElemSrc `parquet:"items"`
}

type c08f2Dst struct {
	Items []c08f2ElemDst `parquet:"items"`
}

// 6 rows, row i has i+1 items.
func c08f2Converted(t *testing.T) parquet.RowGroup {
	t.Helper()
	b := parquet.NewGenericBuffer[c08f2Src]()
	var rows []c08f2Src
	for i := 0; i < 6; i++ {
		var r c08f2Src
		for j := 0; j <= i; j++ {
			r.Items = append(r.Items, c08f2ElemSrc{A: int64(i*10 + j)})
		}
		rows = append(rows, r)
	}
	if _, err := b.Write(rows); err != nil {
		t.Fatal(err)
	}
	conv, err := parquet.Convert(parquet.SchemaOf(c08f2Dst{}), b.Schema())
	if err != nil {
		t.Fatal(err)
	}
	return parquet.ConvertRowGroup(b, conv)
}

func c08f2ReadValues(t *testing.T, pages parquet.Pages) []string {
	t.Helper()
	var out []string
	for {
		p, err := pages.ReadPage()
		if err != nil {
			if err != io.EOF {
				t.Fatal(err)
			}
			return out
		}
		vr := p.Values()
		buf := make([]parquet.Value, 7)
		for {
			n, err := vr.ReadValues(buf)
			for _, v := range buf[:n] {
				out = append(out, fmt.Sprintf("%+v", v))
			}
			if err != nil {
				if err != io.EOF {
					t.Fatal(err)
				}
				break
			}
		}
		parquet.Release(p)
	}
}

// ColumnChunk.Pages().SeekToRow(k) on every column chunk of the converted row group.
func TestC08F2ConvertedMissingRepeatedColumnPagesSeek(t *testing.T) {
	rg := c08f2Converted(t)
	const k = 3
	for ci, cc := range rg.ColumnChunks() {
		seq := cc.Pages()
		all := c08f2ReadValues(t, seq)
		seq.Close()

		// first value of row k in the sequential stream
		start, row := -1, -1
		for i, s := range all {
			if len(s) > 0 && containsR0(s) {
				row++
				if row == k {
					start = i
					break
				}
			}
		}
		if start < 0 {
			t.Fatalf("column %d: sequential read holds fewer than %d rows: %v", ci, k+1, all)
		}
		want := all[start:]

		pages := cc.Pages()
		if err := pages.SeekToRow(k); err != nil {
			t.Fatal(err)
		}
		got := c08f2ReadValues(t, pages)
		pages.Close()

		if fmt.Sprint(got) != fmt.Sprint(want) {
			t.Errorf("column %d (%T): values read after Pages().SeekToRow(%d) differ from a sequential read skipped to row %d\n got  (%d values) %v\n want (%d values) %v",
				ci, cc, k, k, len(got), got, len(want), want)
		}
	}
}

func containsR0(s string) bool {
	for i := 0; i+3 <= len(s); i++ {
		if s[i:i+3] == "R:0" {
			return true
		}
	}
	return false
}

// The same through the row reader built from the column chunks.
func TestC08F2ConvertedMissingRepeatedColumnRowReaderSeek(t *testing.T) {
	rg := c08f2Converted(t)

	readAll := func(r parquet.RowReader) []string {
		var out []string
		buf := make([]parquet.Row, 4)
		for {
			n, err := r.ReadRows(buf)
			for _, row := range buf[:n] {
				out = append(out, fmt.Sprintf("%+v", row))
			}
			if err != nil {
				if err != io.EOF {
					t.Fatal(err)
				}
				return out
			}
			if n == 0 {
				t.Fatal("no progress")
			}
		}
	}

	seq := parquet.NewColumnChunkRowReader(rg.ColumnChunks())
	all := readAll(seq)
	seq.Close()
	if len(all) != 6 {
		t.Fatalf("sequential read returned %d rows, want 6", len(all))
	}

	const k = 3
	r := parquet.NewColumnChunkRowReader(rg.ColumnChunks())
	defer r.Close()
	if err := r.SeekToRow(k); err != nil {
		t.Fatal(err)
	}
	got := readAll(r)
	want := all[k:]
	if fmt.Sprint(got) != fmt.Sprint(want) {
		t.Fatalf("rows after SeekToRow(%d):\n got  %v\n want %v", k, got, want)
	}
}

// The same defect through MergeRowGroups(...).Rows(): merging (without sorting
// columns) a row group which lacks items.b with one which has it returns a
// multiRowGroup over converted row groups; its Rows() reads the column chunks,
// and SeekToRow(k) lands in the missing column chunk of the first row group.
func TestC08F2MergeRowGroupsRowsSeek(t *testing.T) {
	a := parquet.NewGenericBuffer[c08f2Src]()
	var ra []c08f2Src
	for i := 0; i < 6; i++ {
		var r c08f2Src
		for j := 0; j <= i; j++ {
			r.Items = append(r.Items, c08f2ElemSrc{A: int64(i*10 + j)})
		}
		ra = append(ra, r)
	}
	if _, err := a.Write(ra); err != nil {
		t.Fatal(err)
	}
	b := parquet.NewGenericBuffer[c08f2Dst]()
	seven := int64(7)
	if _, err := b.Write([]c08f2Dst{{Items: []c08f2ElemDst{{A: 1000, B: &seven}}}}); err != nil {
		t.Fatal(err)
	}
	m, err := parquet.MergeRowGroups([]parquet.RowGroup{a, b})
	if err != nil {
		t.Fatal(err)
	}

	readAll := func(r parquet.RowReader) []string {
		var out []string
		buf := make([]parquet.Row, 4)
		for {
			n, err := r.ReadRows(buf)
			for _, row := range buf[:n] {
				out = append(out, fmt.Sprintf("%+v", row))
			}
			if err != nil {
				if err != io.EOF {
					t.Fatal(err)
				}
				return out
			}
			if n == 0 {
				t.Fatal("no progress")
			}
		}
	}

	seq := m.Rows()
	all := readAll(seq)
	seq.Close()
	if len(all) != 7 {
		t.Fatalf("sequential read returned %d rows, want 7", len(all))
	}

	const k = 3
	r := m.Rows()
	defer r.Close()
	if err := r.SeekToRow(k); err != nil {
		t.Fatal(err)
	}
	got := readAll(r)
	want := all[k:]
	if fmt.Sprint(got) != fmt.Sprint(want) {
		t.Fatalf("MergeRowGroups(a, b).Rows() after SeekToRow(%d):\n got  %v\n want %v", k, got, want)
	}
}
