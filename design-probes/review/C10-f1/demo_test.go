// Copy into the repository root (package directory of
// github.com/parquet-go/parquet-go) and run:
//
//	go test -vet=off -count=1 -run TestC10F1RepeatedSortingColumn .
package parquet_test

import (
	"fmt"
	"io"
	"sort"
	"testing"

	"github.com/parquet-go/parquet-go"
)

type c10f1Row struct {
	L  []int32 `parquet:"l"`
	ID int32   `parquet:"id"`
}

func c10f1ReadAll(t *testing.T, rg parquet.RowGroup) []parquet.Row {
	t.Helper()
	rows := rg.Rows()
	defer rows.Close()
	var out []parquet.Row
	buf := make([]parquet.Row, 8)
	for {
		n, err := rows.ReadRows(buf)
		for _, r := range buf[:n] {
			out = append(out, r.Clone())
		}
		if err != nil {
			if err != io.EOF {
				t.Fatal(err)
			}
			return out
		}
	}
}

// A GenericBuffer/Buffer sorted by a repeated column only ever looks at the
// first element of each row: [1 3] and [1 2] are treated as equal and are left
// in insertion order, whereas Schema.Comparator (and therefore RowBuffer and
// SortingWriter) order them element by element.
func TestC10F1RepeatedSortingColumn(t *testing.T) {
	sorting := parquet.Ascending("l")
	in := []c10f1Row{
		{L: []int32{1, 3}, ID: 0},
		{L: []int32{1, 2}, ID: 1},
		{L: []int32{1, 1}, ID: 2},
	}

	buf := parquet.NewGenericBuffer[c10f1Row](
		parquet.SortingRowGroupConfig(parquet.SortingColumns(sorting)),
	)
	if _, err := buf.Write(in); err != nil {
		t.Fatal(err)
	}
	sort.Sort(buf)
	got := c10f1ReadAll(t, buf)

	// Reference: RowBuffer, which sorts with Schema.Comparator.
	ref := parquet.NewRowBuffer[c10f1Row](
		parquet.SortingRowGroupConfig(parquet.SortingColumns(sorting)),
	)
	if _, err := ref.Write(in); err != nil {
		t.Fatal(err)
	}
	sort.Sort(ref)
	want := c10f1ReadAll(t, ref)

	compare := buf.Schema().Comparator(sorting)
	for i := 1; i < len(got); i++ {
		if compare(got[i-1], got[i]) > 0 {
			t.Errorf("GenericBuffer sorted by Ascending(l): row %d %v sorts after row %d %v according to Schema.Comparator", i-1, got[i-1], i, got[i])
		}
	}
	if fmt.Sprint(got) != fmt.Sprint(want) {
		t.Errorf("rows after sort.Sort(GenericBuffer) ordered by Ascending(l):\n expected %v (order of RowBuffer / Schema.Comparator)\n actual   %v", want, got)
	}
}
