package parquet_test

// Copy into the root package directory of the repository (next to writer.go):
//   go test -vet=off -count=1 -run 'TestC14FilterRowWriter' .

import (
	"bytes"
	"errors"
	"io"
	"testing"

	"github.com/parquet-go/parquet-go"
)

type c14f2Row struct {
	ID int64 `parquet:"id"`
}

// c14f2Sink accepts everything except the failAt-th Write call, which it
// rejects entirely (0 bytes, non-nil error).
type c14f2Sink struct {
	buf    bytes.Buffer
	calls  int
	failAt int
	failed bool
}

var errC14f2 = errors.New("injected sink failure")

func (s *c14f2Sink) Write(p []byte) (int, error) {
	s.calls++
	if s.calls == s.failAt {
		s.failed = true
		return 0, errC14f2
	}
	return s.buf.Write(p)
}

// The sink fails while the writer flushes a full row group from inside
// WriteRows. parquet.Writer.WriteRows reports the failure, but the
// FilterRowWriter placed in front of it swallows the error.
func TestC14FilterRowWriterAbsorbsSinkFailure(t *testing.T) {
	const numRows = 1000

	schema := parquet.SchemaOf(c14f2Row{})
	rows := make([]parquet.Row, numRows)
	for i := range rows {
		rows[i] = schema.Deconstruct(nil, &c14f2Row{ID: int64(i)})
	}

	run := func(failAt int, filtered bool) (sink *c14f2Sink, errs []error) {
		sink = &c14f2Sink{failAt: failAt}
		w := parquet.NewWriter(sink, schema,
			parquet.MaxRowsPerRowGroup(100),
			parquet.WriteBufferSize(0),
		)
		var dst parquet.RowWriter = w
		if filtered {
			dst = parquet.FilterRowWriter(w, func(parquet.Row) bool { return true })
		}
		for i := 0; i < numRows; i += 50 {
			_, err := dst.WriteRows(rows[i : i+50])
			errs = append(errs, err)
		}
		errs = append(errs, w.Close())
		return sink, errs
	}

	// Sanity: without the filter the failure is reported by WriteRows.
	// Write call #1 is the "PAR1" header, the following ones belong to the
	// first row group which is flushed from within WriteRows.
	const failAt = 3
	sink, errs := run(failAt, false)
	if !sink.failed {
		t.Fatalf("test setup: the sink never failed")
	}
	if errors.Join(errs...) == nil {
		t.Fatalf("test setup: the plain writer did not report the sink failure either")
	}

	sink, errs = run(failAt, true)
	if !sink.failed {
		t.Fatalf("test setup: the sink never failed")
	}
	if err := errors.Join(errs...); err != nil {
		return // the failure was reported: fine
	}

	// Every call returned nil: then the file must hold all the rows.
	f, err := parquet.OpenFile(bytes.NewReader(sink.buf.Bytes()), int64(sink.buf.Len()))
	if err != nil {
		t.Fatalf("sink rejected a write, every WriteRows/Close returned nil, and the file does not open: %v", err)
	}
	got := int64(0)
	r := parquet.NewGenericReader[c14f2Row](f)
	buf := make([]c14f2Row, 128)
	for {
		n, err := r.Read(buf)
		got += int64(n)
		if err != nil {
			if err != io.EOF {
				t.Fatalf("reading back: %v", err)
			}
			break
		}
	}
	if got != numRows {
		t.Fatalf("the sink rejected a write (%v) but all %d WriteRows calls and Close returned nil: expected an error from one of them or a complete file of %d rows, got a file of %d rows (NumRows=%d)",
			errC14f2, len(errs)-1, numRows, got, f.NumRows())
	}
}

// Same defect without any file involved: the error of the underlying
// RowWriter never comes out of FilterRowWriter.WriteRows.
type c14f2FailingRowWriter struct{}

func (c14f2FailingRowWriter) WriteRows([]parquet.Row) (int, error) { return 0, errC14f2 }

func TestC14FilterRowWriterDropsWriteError(t *testing.T) {
	w := parquet.FilterRowWriter(c14f2FailingRowWriter{}, func(parquet.Row) bool { return true })
	rows := []parquet.Row{{parquet.Int64Value(1).Level(0, 0, 0)}}
	n, err := w.WriteRows(rows)
	if err == nil {
		t.Fatalf("FilterRowWriter.WriteRows: expected error %q from the underlying writer, got n=%d err=nil", errC14f2, n)
	}
}
