package parquet_test

// Copy into the repository root (package parquet_test), e.g. as
// c19_f1_demo_test.go, and run:
//
//	go test -vet=off -count=1 -run TestC19F1 .

import (
	"bytes"
	"reflect"
	"testing"

	"github.com/parquet-go/parquet-go"
)

// A []any field tagged `variant` is one VARIANT column (schema: required group
// v (VARIANT) {metadata, value}); the natural Go value for a variant array.
type c19f1Write struct {
	ID int32 `parquet:"id"`
	V  []any `parquet:"v,variant"`
}

// Same schema, read back through an `any` target.
type c19f1Read struct {
	ID int32 `parquet:"id"`
	V  any   `parquet:"v,variant"`
}

func TestC19F1SliceFieldWithVariantTag(t *testing.T) {
	if !parquet.EqualNodes(parquet.SchemaOf(c19f1Write{}), parquet.SchemaOf(c19f1Read{})) {
		t.Fatalf("test premise: both structs must map to the same schema")
	}
	rows := []c19f1Write{
		{ID: 1, V: []any{"q", int64(1)}},
		{ID: 2, V: []any{}},
		{ID: 3, V: []any{int64(7)}},
	}
	want := []any{
		[]any{"q", int64(1)},
		[]any{},
		[]any{int64(7)},
	}

	write := map[string]func(w *parquet.GenericWriter[c19f1Write]) error{
		// Typed column-buffer path (writeRowsFuncOf).
		"GenericWriter.Write": func(w *parquet.GenericWriter[c19f1Write]) error {
			_, err := w.Write(rows)
			return err
		},
		// Row path (Schema.Deconstruct); this one is correct and is here as
		// the control.
		"Deconstruct+WriteRows": func(w *parquet.GenericWriter[c19f1Write]) error {
			schema := parquet.SchemaOf(c19f1Write{})
			for i := range rows {
				if _, err := w.WriteRows([]parquet.Row{schema.Deconstruct(nil, &rows[i])}); err != nil {
					return err
				}
			}
			return nil
		},
	}

	for name, fn := range write {
		t.Run(name, func(t *testing.T) {
			buf := new(bytes.Buffer)
			w := parquet.NewGenericWriter[c19f1Write](buf)
			if err := fn(w); err != nil {
				t.Fatalf("write: %v", err)
			}
			if err := w.Close(); err != nil {
				t.Fatalf("close: %v", err)
			}

			f, err := parquet.OpenFile(bytes.NewReader(buf.Bytes()), int64(buf.Len()))
			if err != nil {
				t.Fatalf("open: %v", err)
			}
			for i, c := range f.RowGroups()[0].ColumnChunks() {
				// All three leaf columns are required and not repeated: each
				// must hold exactly one value per row.
				if c.NumValues() != int64(len(rows)) {
					t.Errorf("column %d: expected %d values (one per row, the column is required and not repeated), actual %d",
						i, len(rows), c.NumValues())
				}
			}

			got, err := parquet.Read[c19f1Read](bytes.NewReader(buf.Bytes()), int64(buf.Len()))
			if err != nil {
				t.Fatalf("read: %v", err)
			}
			if len(got) != len(rows) {
				t.Fatalf("expected %d rows, actual %d", len(rows), len(got))
			}
			for i := range got {
				if got[i].ID != rows[i].ID {
					t.Errorf("row %d: expected id %d, actual %d", i, rows[i].ID, got[i].ID)
				}
				if !reflect.DeepEqual(got[i].V, want[i]) {
					t.Errorf("row %d: expected variant %#v, actual %#v", i, want[i], got[i].V)
				}
			}
		})
	}
}
