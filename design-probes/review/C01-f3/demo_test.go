// Copy into the root package directory of the repository (next to writer.go)
// and run:
//
//	go test -vet=off -count=1 -run TestF3OptionalMapValues .
package parquet_test

import (
	"bytes"
	"fmt"
	"reflect"
	"testing"

	"github.com/parquet-go/parquet-go"
)

type f3Row struct {
	Labels map[string]string `parquet:"labels" parquet-value:",optional"`
	Counts map[string]int64  `parquet:"counts" parquet-value:",optional"`
}

func f3Rows() []f3Row {
	return []f3Row{
		{Labels: map[string]string{"a": "x"}, Counts: map[string]int64{"k": 7}},
		{Labels: map[string]string{"b": "y", "c": "z"}, Counts: map[string]int64{"m": -1, "n": 42}},
	}
}

func f3Check(t *testing.T, data []byte) {
	t.Helper()
	want := f3Rows()
	got, err := parquet.Read[f3Row](bytes.NewReader(data), int64(len(data)))
	if err != nil {
		t.Fatalf("Read: %v", err)
	}
	if !reflect.DeepEqual(got, want) {
		t.Errorf("rows differ after the round trip\nexpected: %v\ngot:      %v", want, got)
	}
}

func TestF3OptionalMapValues(t *testing.T) {
	// Sanity: the schema is the documented one, MAP with optional values.
	t.Log(parquet.SchemaOf(f3Row{}))

	t.Run("GenericWriter[T]", func(t *testing.T) {
		buf := new(bytes.Buffer)
		w := parquet.NewGenericWriter[f3Row](buf)
		if _, err := w.Write(f3Rows()); err != nil {
			t.Fatal(err)
		}
		if err := w.Close(); err != nil {
			t.Fatal(err)
		}
		f3Check(t, buf.Bytes())
	})

	t.Run("Writer.Write", func(t *testing.T) {
		buf := new(bytes.Buffer)
		err := func() (err error) {
			defer func() {
				if x := recover(); x != nil {
					err = fmt.Errorf("panic: %v", x)
				}
			}()
			w := parquet.NewWriter(buf)
			for _, row := range f3Rows() {
				if err := w.Write(&row); err != nil {
					return err
				}
			}
			return w.Close()
		}()
		if err != nil {
			t.Fatalf("expected the rows to be written, got %v", err)
		}
		f3Check(t, buf.Bytes())
	})

	// GenericWriter[any] handles the same schema and rows correctly.
	t.Run("GenericWriter[any]-control", func(t *testing.T) {
		buf := new(bytes.Buffer)
		w := parquet.NewGenericWriter[any](buf, parquet.SchemaOf(f3Row{}))
		for _, row := range f3Rows() {
			if _, err := w.Write([]any{row}); err != nil {
				t.Fatal(err)
			}
		}
		if err := w.Close(); err != nil {
			t.Fatal(err)
		}
		f3Check(t, buf.Bytes())
	})
}
