// Copy into the root package directory of the repository (next to writer.go)
// and run:
//
//	go test -vet=off -count=1 -run TestF4NilPointerElement .
package parquet_test

import (
	"bytes"
	"fmt"
	"testing"

	"github.com/parquet-go/parquet-go"
)

type f4Strings struct {
	Tags []*string
}

type f4Item struct {
	ID   int32
	Name string
}

type f4Items struct {
	Items []*f4Item
}

func f4Write[T any](t *testing.T, rows []T) []byte {
	t.Helper()
	buf := new(bytes.Buffer)
	w := parquet.NewGenericWriter[T](buf)
	n, err := w.Write(rows)
	if err != nil {
		// Refusing the rows would be a legitimate outcome: nothing to check then.
		t.Skipf("rows refused by the writer: %v", err)
	}
	if n != len(rows) {
		t.Fatalf("Write: expected %d, got %d", len(rows), n)
	}
	if err := w.Close(); err != nil {
		t.Skipf("rows refused by the writer at Close: %v", err)
	}
	return buf.Bytes()
}

func f4Read[T any](data []byte) (rows []T, err error) {
	defer func() {
		if x := recover(); x != nil {
			err = fmt.Errorf("panic: %v", x)
		}
	}()
	return parquet.Read[T](bytes.NewReader(data), int64(len(data)))
}

func TestF4NilPointerElement(t *testing.T) {
	t.Run("slice_of_string_pointers", func(t *testing.T) {
		a, b, c := "a", "b", "c"
		rows := []f4Strings{
			{Tags: []*string{&a, nil, &b}},
			{Tags: []*string{&c}},
		}
		data := f4Write(t, rows)
		got, err := f4Read[f4Strings](data)
		if err != nil {
			t.Fatalf("the file written without error cannot be read: %v", err)
		}
		if len(got) != len(rows) {
			t.Fatalf("expected %d rows, got %d: %s", len(rows), len(got), f4Dump(got))
		}
		if len(got[1].Tags) != 1 || got[1].Tags[0] == nil || *got[1].Tags[0] != "c" {
			t.Errorf("row 1: expected Tags=[c], got %s", f4Dump(got[1:]))
		}
		if len(got[0].Tags) != 3 {
			t.Errorf("row 0: expected 3 elements, got %s", f4Dump(got[:1]))
		}
	})

	t.Run("slice_of_struct_pointers", func(t *testing.T) {
		rows := []f4Items{
			{Items: []*f4Item{{ID: 1, Name: "one"}, nil, {ID: 3, Name: "three"}}},
			{Items: []*f4Item{{ID: 4, Name: "four"}}},
		}
		data := f4Write(t, rows)
		got, err := f4Read[f4Items](data)
		if err != nil {
			t.Fatalf("the file written without error cannot be read: %v", err)
		}
		if len(got) != len(rows) {
			t.Fatalf("expected %d rows, got %d", len(rows), len(got))
		}
		if len(got[0].Items) != 3 || got[0].Items[2] == nil || *got[0].Items[2] != (f4Item{ID: 3, Name: "three"}) {
			t.Errorf("row 0: expected third item {3 three}, got %d items", len(got[0].Items))
		}
		if len(got[1].Items) != 1 || got[1].Items[0] == nil || *got[1].Items[0] != (f4Item{ID: 4, Name: "four"}) {
			t.Errorf("row 1: expected [{4 four}], got %d items", len(got[1].Items))
		}
	})
}

func f4Dump(rows []f4Strings) string {
	s := ""
	for _, r := range rows {
		s += "["
		for _, p := range r.Tags {
			if p == nil {
				s += "<nil> "
			} else {
				s += *p + " "
			}
		}
		s += "] "
	}
	return s
}
