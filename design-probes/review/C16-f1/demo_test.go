package parquet_test

// Copy into the root package directory of the repository (next to row.go) and run
//   go test -vet=off -count=1 -run TestC16F1 .

import (
	"bytes"
	"testing"

	"github.com/parquet-go/parquet-go"
)

type c16f1Item struct {
	A int64
	B string
}

type c16f1Row struct {
	ID    int64
	Items []*c16f1Item
}

func c16f1Rows() []c16f1Row {
	return []c16f1Row{
		{ID: 1, Items: []*c16f1Item{{A: 1, B: "x"}, nil, {A: 3, B: "z"}}},
		{ID: 2, Items: []*c16f1Item{nil}},
	}
}

func c16f1Check(t *testing.T, api string, rows []c16f1Row) {
	t.Helper()
	if p := rows[0].Items[1]; p != nil {
		t.Errorf("%s modified the caller's rows: rows[0].Items[1]: expected nil (as passed to the write), actual &%+v", api, *p)
	}
	if p := rows[1].Items[0]; p != nil {
		t.Errorf("%s modified the caller's rows: rows[1].Items[0]: expected nil (as passed to the write), actual &%+v", api, *p)
	}
}

// The rows handed to a write must come back untouched. A nil element of a
// []*struct field is replaced by a pointer to a freshly allocated zero struct.
func TestC16F1WriteAllocatesNilPointersInCallerRows(t *testing.T) {
	t.Run("Writer.Write", func(t *testing.T) {
		rows := c16f1Rows()
		w := parquet.NewWriter(new(bytes.Buffer))
		for i := range rows {
			if err := w.Write(&rows[i]); err != nil {
				t.Fatal(err)
			}
		}
		if err := w.Close(); err != nil {
			t.Fatal(err)
		}
		c16f1Check(t, "Writer.Write", rows)
	})

	t.Run("SortingWriter.Write", func(t *testing.T) {
		rows := c16f1Rows()
		w := parquet.NewSortingWriter[c16f1Row](new(bytes.Buffer), 10,
			parquet.SortingWriterConfig(parquet.SortingColumns(parquet.Ascending("ID"))))
		if _, err := w.Write(rows); err != nil {
			t.Fatal(err)
		}
		if err := w.Close(); err != nil {
			t.Fatal(err)
		}
		c16f1Check(t, "SortingWriter.Write", rows)
	})

	t.Run("RowBuffer.Write", func(t *testing.T) {
		rows := c16f1Rows()
		b := parquet.NewRowBuffer[c16f1Row]()
		if _, err := b.Write(rows); err != nil {
			t.Fatal(err)
		}
		c16f1Check(t, "RowBuffer.Write", rows)
	})

	t.Run("Buffer.Write", func(t *testing.T) {
		rows := c16f1Rows()
		b := parquet.NewBuffer()
		for i := range rows {
			if err := b.Write(&rows[i]); err != nil {
				t.Fatal(err)
			}
		}
		c16f1Check(t, "Buffer.Write", rows)
	})

	t.Run("Schema.Deconstruct", func(t *testing.T) {
		rows := c16f1Rows()
		s := parquet.SchemaOf(c16f1Row{})
		for i := range rows {
			s.Deconstruct(nil, &rows[i])
		}
		c16f1Check(t, "Schema.Deconstruct", rows)
	})

	// For reference: the column-oriented path of GenericWriter leaves the rows alone.
	t.Run("GenericWriter.Write (control, passes)", func(t *testing.T) {
		rows := c16f1Rows()
		w := parquet.NewGenericWriter[c16f1Row](new(bytes.Buffer))
		if _, err := w.Write(rows); err != nil {
			t.Fatal(err)
		}
		if err := w.Close(); err != nil {
			t.Fatal(err)
		}
		c16f1Check(t, "GenericWriter.Write", rows)
	})
}
