// Copy into the root package directory of the repository (next to writer.go)
// and run:
//
//	go test -vet=off -count=1 -run TestF1TagConversionsIgnoredByTypedWriter .
package parquet_test

import (
	"bytes"
	"testing"
	"time"

	"github.com/parquet-go/parquet-go"
)

type f1UUIDRow struct {
	ID string `parquet:",uuid"`
}

type f1DateRow struct {
	Day time.Time `parquet:",date"`
}

type f1DurationRow struct {
	Ms time.Duration `parquet:",time(millisecond)"`
	Us time.Duration `parquet:",time(microsecond)"`
	Ns time.Duration `parquet:",time(nanosecond)"`
}

func f1RoundTrip[T any](t *testing.T, rows []T) []T {
	t.Helper()
	buf := new(bytes.Buffer)
	w := parquet.NewGenericWriter[T](buf)
	if n, err := w.Write(rows); err != nil || n != len(rows) {
		t.Fatalf("Write: n=%d err=%v", n, err)
	}
	if err := w.Close(); err != nil {
		t.Fatalf("Close: %v", err)
	}
	got, err := parquet.Read[T](bytes.NewReader(buf.Bytes()), int64(buf.Len()))
	if err != nil {
		t.Fatalf("Read: %v", err)
	}
	if len(got) != len(rows) {
		t.Fatalf("expected %d rows, got %d", len(rows), len(got))
	}
	return got
}

func TestF1TagConversionsIgnoredByTypedWriter(t *testing.T) {
	// string + uuid tag -> FIXED_LEN_BYTE_ARRAY(16) column
	t.Run("uuid_string", func(t *testing.T) {
		rows := []f1UUIDRow{
			{ID: "910e9d24-e48d-56c9-0d02-426bd0500c33"},
			{ID: "00000000-0000-0000-0000-000000000001"},
		}
		got := f1RoundTrip(t, rows)
		for i := range rows {
			if got[i].ID != rows[i].ID {
				t.Errorf("row %d: expected ID %q, got %q (bytes 8..15 are the length word 0x24 of the Go string header)", i, rows[i].ID, got[i].ID)
			}
		}
	})

	// time.Time + date tag -> INT32 DATE column (days since the epoch)
	t.Run("date_time", func(t *testing.T) {
		rows := []f1DateRow{
			{Day: time.Date(2024, 3, 5, 0, 0, 0, 0, time.UTC)},
			{Day: time.Date(1960, 3, 5, 0, 0, 0, 0, time.UTC)},
		}
		got := f1RoundTrip(t, rows)
		for i := range rows {
			if !got[i].Day.Equal(rows[i].Day) {
				t.Errorf("row %d: expected Day %v, got %v", i, rows[i].Day, got[i].Day)
			}
		}
	})

	// time.Duration + time(unit) tag -> TIME column in that unit
	t.Run("time_duration", func(t *testing.T) {
		d := 5*time.Hour + 3*time.Second + 7*time.Millisecond
		rows := []f1DurationRow{{Ms: d, Us: d, Ns: d}}
		got := f1RoundTrip(t, rows)
		if got[0].Ns != d {
			t.Errorf("time(nanosecond): expected %v, got %v", d, got[0].Ns)
		}
		if got[0].Us != d {
			t.Errorf("time(microsecond): expected %v, got %v", d, got[0].Us)
		}
		if got[0].Ms != d {
			t.Errorf("time(millisecond): expected %v, got %v", d, got[0].Ms)
		}
	})
}
