package parquet_test

// Copy into the root package directory of the repository (next to merge.go) and run
//   go test -vet=off -count=1 -run TestC16F2 .

import (
	"bytes"
	"fmt"
	"io"
	"testing"

	"github.com/parquet-go/parquet-go"
)

type c16f2Ints struct {
	ID int64
	X  int64
}

type c16f2Strs struct {
	ID int64
	X  string
}

func c16f2File[T any](t *testing.T, rows []T) *parquet.File {
	t.Helper()
	var buf bytes.Buffer
	w := parquet.NewGenericWriter[T](&buf)
	if _, err := w.Write(rows); err != nil {
		t.Fatal(err)
	}
	if err := w.Close(); err != nil {
		t.Fatal(err)
	}
	f, err := parquet.OpenFile(bytes.NewReader(buf.Bytes()), int64(buf.Len()))
	if err != nil {
		t.Fatal(err)
	}
	return f
}

// Rows returned by ReadRows must not change while the reader they came from is
// left alone. Here they are overwritten by a completely unrelated reader.
func TestC16F2UnsortedMergeRowsAliasPooledPageBuffers(t *testing.T) {
	ints := []c16f2Ints{{ID: 0, X: 100}, {ID: 1, X: 101}, {ID: 2, X: 102}}
	strs := make([]c16f2Strs, 20)
	for i := range strs {
		strs[i] = c16f2Strs{ID: int64(10 + i), X: fmt.Sprintf("string-value-%04d", i)}
	}
	fa := c16f2File(t, ints)
	fb := c16f2File(t, strs)

	// Target schema: X is a string (the type of the second row group). The
	// merge accepts the inputs: Convert(string <- int64) exists.
	merged, err := parquet.MergeRowGroups(
		[]parquet.RowGroup{fa.RowGroups()[0], fb.RowGroups()[0]},
		parquet.SchemaOf(c16f2Strs{}),
	)
	if err != nil {
		t.Fatal(err)
	}

	reader := merged.Rows()
	defer reader.Close()

	rows := make([]parquet.Row, 64)
	n, err := reader.ReadRows(rows)
	if err != nil && err != io.EOF {
		t.Fatal(err)
	}
	if n != len(ints)+len(strs) {
		t.Fatalf("expected %d rows, got %d", len(ints)+len(strs), n)
	}
	rows = rows[:n]

	// What the caller sees right after ReadRows returned (deep copies).
	type seen struct {
		kind parquet.Kind
		text string
	}
	before := make([]seen, n)
	for i, row := range rows {
		before[i].kind = row[1].Kind()
		if before[i].kind == parquet.ByteArray {
			before[i].text = string(row[1].ByteArray()) // string() copies
		}
	}
	for i := range strs {
		if got := before[len(ints)+i]; got.kind != parquet.ByteArray || got.text != strs[i].X {
			t.Fatalf("row %d: X as returned by ReadRows: expected %q, actual %q (%v)", len(ints)+i, strs[i].X, got.text, got.kind)
		}
	}

	// Unrelated activity: some other part of the program reads another file.
	// No call is made on `reader`.
	other := make([]c16f2Strs, 200)
	for i := range other {
		other[i] = c16f2Strs{ID: int64(i), X: "#################################"}
	}
	fo := c16f2File(t, other)
	for range 8 {
		r := parquet.NewGenericReader[c16f2Strs](fo)
		out := make([]c16f2Strs, len(other))
		if _, err := r.Read(out); err != nil && err != io.EOF {
			t.Fatal(err)
		}
		r.Close()
	}

	for i := range strs {
		j := len(ints) + i
		if got := string(rows[j][1].ByteArray()); got != before[j].text {
			t.Errorf("row %d changed although its reader was not touched: X expected %q (value returned by ReadRows), actual %q", j, before[j].text, got)
		}
	}
}
