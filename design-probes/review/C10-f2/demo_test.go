// Copy into the repository root (package directory of
// github.com/parquet-go/parquet-go) and run:
//
//	go test -vet=off -count=1 -run TestC10F2DescendingRepeatedPrefix .
package parquet_test

import (
	"fmt"
	"io"
	"sort"
	"testing"

	"github.com/parquet-go/parquet-go"
)

type c10f2Row struct {
	L  []int32 `parquet:"l"`
	ID int32   `parquet:"id"`
}

func c10f2ReadAll(t *testing.T, rg parquet.RowGroup) []parquet.Row {
	t.Helper()
	rows := rg.Rows()
	defer rows.Close()
	var out []parquet.Row
	buf := make([]parquet.Row, 8)
	for {
		n, err := rows.ReadRows(buf)
		for _, r := range buf[:n] {
			out = append(out, r.Clone())
		}
		if err != nil {
			if err != io.EOF {
				t.Fatal(err)
			}
			return out
		}
	}
}

// With a DESCENDING repeated sorting column, a row that is a strict prefix of
// another one ([1] vs [1 1]) is ordered one way by GenericBuffer/Buffer and the
// opposite way by Schema.Comparator / RowBuffer / SortingWriter.
//
// Only first elements are equal here and lengths differ, so this does not
// depend on the "only the first element is compared" defect (finding f1).
func TestC10F2DescendingRepeatedPrefix(t *testing.T) {
	sorting := parquet.Descending("l")
	in := []c10f2Row{
		{L: []int32{1}, ID: 0},
		{L: []int32{1, 1}, ID: 1},
		{L: []int32{1}, ID: 2},
		{L: []int32{1, 1, 1}, ID: 3},
	}

	buf := parquet.NewGenericBuffer[c10f2Row](
		parquet.SortingRowGroupConfig(parquet.SortingColumns(sorting)),
	)
	if _, err := buf.Write(in); err != nil {
		t.Fatal(err)
	}
	sort.Sort(buf)
	got := c10f2ReadAll(t, buf)

	ref := parquet.NewRowBuffer[c10f2Row](
		parquet.SortingRowGroupConfig(parquet.SortingColumns(sorting)),
	)
	if _, err := ref.Write(in); err != nil {
		t.Fatal(err)
	}
	sort.Sort(ref)
	want := c10f2ReadAll(t, ref)

	lengths := func(rows []parquet.Row) (n []int) {
		for _, r := range rows {
			n = append(n, len(r)-1) // number of values of column l
		}
		return n
	}

	compare := buf.Schema().Comparator(sorting)
	for i := 1; i < len(got); i++ {
		if c := compare(got[i-1], got[i]); c > 0 {
			t.Errorf("GenericBuffer sorted by Descending(l): row %d %v is followed by row %d %v but Schema.Comparator(Descending(l)) = %+d (expected <= 0)", i-1, got[i-1], i, got[i], c)
		}
	}
	if fmt.Sprint(lengths(got)) != fmt.Sprint(lengths(want)) {
		t.Errorf("list lengths of the rows sorted by Descending(l):\n expected %v (RowBuffer / Schema.Comparator / SortingWriter order: %v)\n actual   %v (GenericBuffer order: %v)", lengths(want), want, lengths(got), got)
	}
}
