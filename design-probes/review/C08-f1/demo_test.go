// Copy into the repository root (package parquet_test), e.g. as f1_demo_test.go:
//   go test -vet=off -count=1 -timeout 60s -run 'TestC08F1' .
package parquet_test

import (
	"fmt"
	"io"
	"testing"
	"time"

	"github.com/parquet-go/parquet-go"
)

type c08f1Row struct {
	ID int64 `parquet:"id"`
}

func c08f1SortedBuffer(t *testing.T, ids ...int64) parquet.RowGroup {
	t.Helper()
	b := parquet.NewGenericBuffer[c08f1Row](
		parquet.SortingRowGroupConfig(parquet.SortingColumns(parquet.Ascending("id"))),
	)
	rows := make([]c08f1Row, len(ids))
	for i, id := range ids {
		rows[i].ID = id
	}
	if _, err := b.Write(rows); err != nil {
		t.Fatal(err)
	}
	return b
}

// two sorted row groups whose key ranges overlap completely: MergeRowGroups
// returns a mergedRowGroup, whose Rows() is a *mergedRowGroupRows.
func c08f1Merged(t *testing.T) parquet.RowGroup {
	t.Helper()
	a := c08f1SortedBuffer(t, 0, 2, 4, 6, 8, 10, 12, 14, 16, 18)
	b := c08f1SortedBuffer(t, 1, 3, 5, 7, 9, 11, 13, 15, 17, 19)
	m, err := parquet.MergeRowGroups([]parquet.RowGroup{a, b},
		parquet.SortingRowGroupConfig(parquet.SortingColumns(parquet.Ascending("id"))))
	if err != nil {
		t.Fatal(err)
	}
	return m
}

func c08f1ReadAll(r parquet.RowReader, bufsize int) ([]int64, error) {
	var out []int64
	buf := make([]parquet.Row, bufsize)
	for {
		n, err := r.ReadRows(buf)
		for _, row := range buf[:n] {
			out = append(out, row[0].Int64())
		}
		if err != nil {
			if err == io.EOF {
				return out, nil
			}
			return out, err
		}
		if n == 0 {
			return out, io.ErrNoProgress
		}
	}
}

// A forward seek that is smaller than the read batch: the skipped rows are
// handed to the caller and the same number of wanted rows is lost.
func TestC08F1MergedRowsSeekThenRead(t *testing.T) {
	m := c08f1Merged(t)

	seq := m.Rows()
	all, err := c08f1ReadAll(seq, 10)
	seq.Close()
	if err != nil {
		t.Fatal(err)
	}
	if len(all) != 20 {
		t.Fatalf("sequential read returned %d rows, want 20", len(all))
	}

	const k = 3
	rows := m.Rows()
	defer rows.Close()
	if err := rows.SeekToRow(k); err != nil { // forward seek on a fresh reader
		t.Fatal(err)
	}
	got, err := c08f1ReadAll(rows, 10)
	if err != nil {
		t.Fatal(err)
	}
	want := all[k:]
	if fmt.Sprint(got) != fmt.Sprint(want) {
		t.Fatalf("merged rows after SeekToRow(%d):\n got  %v\n want %v (what a sequential read returns from row %d on)", k, got, want, k)
	}
}

// A forward seek at least as large as the read batch never returns.
func TestC08F1MergedRowsSeekThenReadHangs(t *testing.T) {
	m := c08f1Merged(t)
	rows := m.Rows()
	if err := rows.SeekToRow(15); err != nil {
		t.Fatal(err)
	}
	type result struct {
		ids []int64
		err error
	}
	done := make(chan result, 1)
	go func() {
		ids, err := c08f1ReadAll(rows, 10)
		done <- result{ids, err}
	}()
	select {
	case r := <-done:
		if r.err != nil {
			t.Fatal(r.err)
		}
		if want := []int64{15, 16, 17, 18, 19}; fmt.Sprint(r.ids) != fmt.Sprint(want) {
			t.Fatalf("merged rows after SeekToRow(15): got %v want %v", r.ids, want)
		}
	case <-time.After(10 * time.Second):
		t.Fatalf("ReadRows(10 rows) after SeekToRow(15) did not return within 10s (expected rows 15..19 then io.EOF); it spins in mergedRowGroupRows.ReadRows")
	}
}
