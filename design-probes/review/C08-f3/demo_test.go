// Copy into the repository root (package parquet_test), e.g. as f3_demo_test.go:
//   go test -vet=off -count=1 -run 'TestC08F3' .
package parquet_test

import (
	"fmt"
	"io"
	"testing"

	"github.com/parquet-go/parquet-go"
)

type c08f3Row struct {
	ID   int64    `parquet:"id"`
	Tags []string `parquet:"tags"`
}

func c08f3Buffer(t *testing.T, numRows int) *parquet.RowBuffer[c08f3Row] {
	t.Helper()
	b := parquet.NewRowBuffer[c08f3Row]()
	rows := make([]c08f3Row, numRows)
	for i := range rows {
		rows[i].ID = int64(i)
		rows[i].Tags = []string{fmt.Sprintf("a%d", i), fmt.Sprintf("b%d", i), fmt.Sprintf("c%d", i)}
	}
	if _, err := b.Write(rows); err != nil {
		t.Fatal(err)
	}
	return b
}

func c08f3ReadRows(t *testing.T, r parquet.RowReader) []string {
	t.Helper()
	var out []string
	buf := make([]parquet.Row, 10)
	for {
		n, err := r.ReadRows(buf)
		for _, row := range buf[:n] {
			out = append(out, fmt.Sprintf("%+v", row))
		}
		if err != nil {
			if err != io.EOF {
				t.Fatal(err)
			}
			return out
		}
		if n == 0 {
			t.Fatal("no progress")
		}
	}
}

// Row reader over the column chunks of a RowBuffer: seek to row 1, compare with
// a sequential read skipped to row 1 (and with the content of the buffer).
func TestC08F3RowBufferColumnChunksSeek(t *testing.T) {
	const numRows = 100
	b := c08f3Buffer(t, numRows)

	truthRows := b.Rows()
	truth := c08f3ReadRows(t, truthRows) // the rows as stored in the buffer
	truthRows.Close()
	if len(truth) != numRows {
		t.Fatalf("RowBuffer.Rows() returned %d rows, want %d", len(truth), numRows)
	}

	seq := parquet.NewColumnChunkRowReader(b.ColumnChunks())
	all := c08f3ReadRows(t, seq)
	seq.Close()

	const k = 1
	r := parquet.NewColumnChunkRowReader(b.ColumnChunks())
	defer r.Close()
	if err := r.SeekToRow(k); err != nil {
		t.Fatal(err)
	}
	got := c08f3ReadRows(t, r)

	if len(all) != numRows {
		t.Errorf("sequential read of the column chunks returned %d rows, want %d", len(all), numRows)
	}
	if len(got) != numRows-k {
		t.Errorf("read after SeekToRow(%d) returned %d rows, want %d", k, len(got), numRows-k)
	}
	for i := 0; i < len(got) && k+i < len(all); i++ {
		if got[i] != all[k+i] {
			t.Errorf("row %d differs between SeekToRow(%d)+read and a sequential read:\n after seek %s\n sequential %s\n stored     %s",
				k+i, k, got[i], all[k+i], truth[k+i])
		}
	}
}

// Value reader of the repeated column: SeekToRow(1), then ReadValues with a
// buffer of 4 values (rows hold 3 values each).
func TestC08F3RowBufferColumnValuesSeek(t *testing.T) {
	const numRows = 6
	b := c08f3Buffer(t, numRows)
	tags := b.ColumnChunks()[1]

	var want []string
	for i := 1; i < numRows; i++ {
		want = append(want, fmt.Sprintf("a%d", i), fmt.Sprintf("b%d", i), fmt.Sprintf("c%d", i))
	}

	r := parquet.NewColumnChunkValueReader(tags)
	defer r.Close()
	if err := r.SeekToRow(1); err != nil {
		t.Fatal(err)
	}
	var got []string
	buf := make([]parquet.Value, 4)
	for {
		n, err := r.ReadValues(buf)
		for _, v := range buf[:n] {
			got = append(got, v.String())
		}
		if err != nil {
			if err != io.EOF {
				t.Fatal(err)
			}
			break
		}
	}
	if fmt.Sprint(got) != fmt.Sprint(want) {
		t.Fatalf("values of column tags after SeekToRow(1), read 4 at a time:\n got  %v\n want %v", got, want)
	}
}

// The page served after a seek has lost the levels of the column:
// rowBufferPage.Slice does not carry maxRepetitionLevel/maxDefinitionLevel.
func TestC08F3RowBufferPageLevelsAfterSeek(t *testing.T) {
	b := c08f3Buffer(t, 4)
	tags := b.ColumnChunks()[1]

	seq := tags.Pages()
	defer seq.Close()
	p0, err := seq.ReadPage()
	if err != nil {
		t.Fatal(err)
	}
	wantRep := p0.RepetitionLevels()[3:] // 3 values per row: levels of rows 1..3
	wantDef := p0.DefinitionLevels()[3:]

	pages := tags.Pages()
	defer pages.Close()
	if err := pages.SeekToRow(1); err != nil {
		t.Fatal(err)
	}
	p, err := pages.ReadPage()
	if err != nil {
		t.Fatal(err)
	}
	if fmt.Sprint(p.RepetitionLevels()) != fmt.Sprint(wantRep) || fmt.Sprint(p.DefinitionLevels()) != fmt.Sprint(wantDef) {
		t.Fatalf("page read after SeekToRow(1): repetition levels %v definition levels %v, want %v and %v",
			p.RepetitionLevels(), p.DefinitionLevels(), wantRep, wantDef)
	}
}
