package parquet_test

// Copy into the repository root (package directory of
// github.com/parquet-go/parquet-go) and run
//
//	go test -vet=off -count=1 -run TestC05F4 .

import (
	"io"
	"testing"

	"github.com/parquet-go/parquet-go"
)

func TestC05F4MissingRequiredColumnIndex(t *testing.T) {
	type source struct {
		A int32 `parquet:"a"`
	}
	type target struct {
		A int32 `parquet:"a"`
		B int32 `parquet:"b"` // required, does not exist in the source
	}

	buffer := parquet.NewGenericBuffer[source]()
	if _, err := buffer.Write([]source{{A: 1}, {A: 2}, {A: 3}}); err != nil {
		t.Fatal(err)
	}

	conv, err := parquet.Convert(parquet.SchemaOf(target{}), buffer.Schema())
	if err != nil {
		t.Fatal(err)
	}
	converted := parquet.ConvertRowGroup(buffer, conv)

	// The rows of the converted row group hold b=0 (not null).
	rows := make([]target, 3)
	reader := parquet.NewGenericRowGroupReader[target](converted)
	if n, err := reader.Read(rows); n != 3 || (err != nil && err != io.EOF) {
		t.Fatalf("reading converted rows: n=%d err=%v", n, err)
	}
	for _, r := range rows {
		if r.B != 0 {
			t.Fatalf("setup: unexpected row %+v", r)
		}
	}

	chunk := converted.ColumnChunks()[1] // column "b"

	// Count the real nulls of the chunk by reading its pages.
	realNulls, realValues, claimedPageNulls := int64(0), int64(0), int64(0)
	pages := chunk.Pages()
	for {
		page, err := pages.ReadPage()
		if err != nil {
			break
		}
		claimedPageNulls += page.NumNulls()
		values := make([]parquet.Value, page.NumValues())
		n, _ := page.Values().ReadValues(values)
		for _, v := range values[:n] {
			realValues++
			if v.IsNull() {
				realNulls++
			}
		}
	}
	pages.Close()
	if realValues != 3 || realNulls != 0 {
		t.Fatalf("setup: column b pages hold %d values / %d nulls, expected 3 zero values and no null", realValues, realNulls)
	}
	if claimedPageNulls != realNulls {
		t.Errorf("Page.NumNulls() of column b = %d, but the page holds %d null values (it holds %d non-null zero values)", claimedPageNulls, realNulls, realValues)
	}

	index, err := chunk.ColumnIndex()
	if err != nil {
		t.Fatal(err)
	}
	if got := index.NullCount(0); got != realNulls {
		t.Errorf("ColumnIndex.NullCount(0) of column b = %d, expected %d (the page holds %d non-null values)", got, realNulls, realValues)
	}
	if index.NullPage(0) {
		t.Errorf("ColumnIndex.NullPage(0) of column b = true, expected false: the page holds %d non-null values", realValues)
	}
	// A reader pruning pages with the index skips every row.
	if page := parquet.Search(index, parquet.Int32Value(0), chunk.Type()); page != 0 {
		t.Errorf("parquet.Search(index, 0) = %d with NumPages=%d (not found), expected page 0: all %d rows have b=0", page, index.NumPages(), realValues)
	}
}
