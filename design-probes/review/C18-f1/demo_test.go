// Copy into the repository root (package directory "."), e.g.
//   cp findings/f1/demo_test.go ./c18_f1_demo_test.go
//   go test -vet=off -count=1 -run TestC18F1 .
package parquet_test

import (
	"bytes"
	"encoding/binary"
	"errors"
	"io"
	"testing"

	"github.com/parquet-go/parquet-go"
	"github.com/parquet-go/parquet-go/encoding/thrift"
	"github.com/parquet-go/parquet-go/format"
)

type c18f1Keys struct{ footer []byte }

func (k c18f1Keys) FooterKey([]byte) ([]byte, error)             { return k.footer, nil }
func (k c18f1Keys) ColumnKey([]string, []byte) ([]byte, error) { return k.footer, nil }

type c18f1Row struct {
	Name  string `parquet:"name"`
	Value int64  `parquet:"value"`
}

// An attacker who holds NO key takes a file written in signed-plaintext-footer
// mode, drops the 28-byte footer signature, edits the (plaintext) footer and
// fixes the footer length. The reader, configured with the right keys, must
// refuse the file: its footer still announces encryption_algorithm (i.e. "this
// footer is signed") but carries no signature.
func TestC18F1StrippedFooterSignatureIsAccepted(t *testing.T) {
	key := bytes.Repeat([]byte{7}, 16)

	var buf bytes.Buffer
	w := parquet.NewGenericWriter[c18f1Row](&buf,
		parquet.WithEncryption(&parquet.EncryptionConfig{FooterKey: key, EncryptedFooter: false}),
		parquet.KeyValueMetadata("owner", "alice"))
	if _, err := w.Write([]c18f1Row{{"a", 1}, {"b", 2}}); err != nil {
		t.Fatal(err)
	}
	if err := w.Close(); err != nil {
		t.Fatal(err)
	}
	data := buf.Bytes()

	// sanity: the untouched file opens and returns the 2 rows.
	{
		f, err := parquet.OpenFile(bytes.NewReader(data), int64(len(data)), parquet.WithDecryption(c18f1Keys{key}))
		if err != nil {
			t.Fatalf("baseline open: %v", err)
		}
		rows := make([]c18f1Row, 10)
		n, _ := parquet.NewGenericReader[c18f1Row](f).Read(rows)
		if n != 2 {
			t.Fatalf("baseline read: got %d rows, want 2", n)
		}
	}

	// --- attacker, no keys -------------------------------------------------
	const sigLen = 12 + 16
	n := len(data)
	footerLen := int(binary.LittleEndian.Uint32(data[n-8:]))
	footer := data[n-8-footerLen : n-8-sigLen] // plaintext thrift footer, signature dropped

	var md format.FileMetaData
	if err := thrift.Unmarshal(new(thrift.CompactProtocol), footer, &md); err != nil {
		t.Fatal(err)
	}
	if md.EncryptionAlgorithm.Value == nil {
		t.Fatal("test setup: footer has no encryption_algorithm")
	}
	for i := range md.KeyValueMetadata {
		if md.KeyValueMetadata[i].Key == "owner" {
			md.KeyValueMetadata[i].Value = "mallory"
		}
	}
	for i := range md.RowGroups {
		for j := range md.RowGroups[i].Columns {
			c := &md.RowGroups[i].Columns[j]
			// the page index modules are encrypted; just unlink them
			c.ColumnIndexOffset, c.ColumnIndexLength = 0, 0
			c.OffsetIndexOffset, c.OffsetIndexLength = 0, 0
		}
	}
	forgedFooter, err := thrift.Marshal(new(thrift.CompactProtocol), &md)
	if err != nil {
		t.Fatal(err)
	}
	forged := append([]byte{}, data[:n-8-footerLen]...)
	forged = append(forged, forgedFooter...)
	forged = binary.LittleEndian.AppendUint32(forged, uint32(len(forgedFooter)))
	forged = append(forged, "PAR1"...)
	// ------------------------------------------------------------------------

	f, err := parquet.OpenFile(bytes.NewReader(forged), int64(len(forged)), parquet.WithDecryption(c18f1Keys{key}))
	if err != nil {
		return // expected: the unsigned footer of an encrypted file is refused
	}
	owner, _ := f.Lookup("owner")
	rows := make([]c18f1Row, 10)
	r := parquet.NewGenericReader[c18f1Row](f)
	cnt, rerr := r.Read(rows)
	if rerr == nil || errors.Is(rerr, io.EOF) {
		t.Errorf("expected: OpenFile (or at the latest the read) fails because the footer signature of an encrypted file is missing; "+
			"actual: OpenFile succeeded with forged metadata owner=%q, NumRows=%d, and Read returned %d rows with err=%v (the 2 rows silently vanished)",
			owner, f.NumRows(), cnt, rerr)
	} else {
		t.Errorf("expected: OpenFile fails because the footer signature of an encrypted file is missing; "+
			"actual: OpenFile succeeded and exposes forged metadata owner=%q (read err: %v)", owner, rerr)
	}
}
