package parquet_test

// Copy this file into the root package directory of the repository
// (next to row_range.go) and run:
//
//	go test -vet=off -count=1 -run 'TestC11F3' .

import (
	"bytes"
	"testing"
	"time"

	"github.com/parquet-go/parquet-go"
)

// Source files store the timestamp in milliseconds ...
type c11f3Src struct {
	ID int64     `parquet:"id"`
	TS time.Time `parquet:"ts,timestamp(millisecond)"`
}

// ... the merge target and the destination writer store it in microseconds.
// Both are INT64 columns, only the values differ (x1000).
type c11f3Dst struct {
	ID int64     `parquet:"id"`
	TS time.Time `parquet:"ts,timestamp(microsecond)"`
}

func c11f3TS(id int64) time.Time { return time.Unix(id, 0).UTC() }

func c11f3File(t *testing.T, lo, hi int64) *parquet.File {
	t.Helper()
	var buf bytes.Buffer
	w := parquet.NewGenericWriter[c11f3Src](&buf,
		parquet.SortingWriterConfig(parquet.SortingColumns(parquet.Ascending("id"))),
		parquet.PageBufferSize(1024), // several pages per column chunk
	)
	for id := lo; id < hi; id++ {
		if _, err := w.Write([]c11f3Src{{ID: id, TS: c11f3TS(id)}}); err != nil {
			t.Fatal(err)
		}
	}
	if err := w.Close(); err != nil {
		t.Fatal(err)
	}
	f, err := parquet.OpenFile(bytes.NewReader(buf.Bytes()), int64(buf.Len()))
	if err != nil {
		t.Fatal(err)
	}
	return f
}

func c11f3Check(t *testing.T, what string, rows []c11f3Dst, wantRows int) {
	t.Helper()
	if len(rows) != wantRows {
		t.Errorf("%s: expected %d rows, actual %d", what, wantRows, len(rows))
	}
	bad, first := 0, -1
	for i, r := range rows {
		if !r.TS.Equal(c11f3TS(r.ID)) {
			if first < 0 {
				first = i
			}
			bad++
		}
	}
	if bad > 0 {
		r := rows[first]
		t.Errorf("%s: %d of %d rows carry an unconverted timestamp; first at row %d (id=%d):\n"+
			"  expected ts = %v\n"+
			"  actual   ts = %v",
			what, bad, len(rows), first, r.ID, c11f3TS(r.ID), r.TS)
	}
}

func c11f3Merge(t *testing.T, inputs ...parquet.RowGroup) parquet.RowGroup {
	t.Helper()
	m, err := parquet.MergeRowGroups(inputs,
		parquet.SchemaOf(c11f3Dst{}),
		parquet.SortingRowGroupConfig(parquet.SortingColumns(parquet.Ascending("id"))),
	)
	if err != nil {
		t.Fatal(err)
	}
	return m
}

func c11f3Write(t *testing.T, m parquet.RowGroup) []c11f3Dst {
	t.Helper()
	var out bytes.Buffer
	w := parquet.NewGenericWriter[c11f3Dst](&out,
		parquet.SortingWriterConfig(parquet.SortingColumns(parquet.Ascending("id"))))
	if _, err := w.WriteRowGroup(m); err != nil {
		t.Fatal(err)
	}
	if err := w.Close(); err != nil {
		t.Fatal(err)
	}
	rows, err := parquet.Read[c11f3Dst](bytes.NewReader(out.Bytes()), int64(out.Len()))
	if err != nil {
		t.Fatal(err)
	}
	return rows
}

// Two sorted files whose key ranges overlap only partially: ids [0,5000) and
// [3000,8000). The merge planner slices the parts covered by a single file off
// as row-range views of the *converted* row groups; the views read the
// unconverted column chunks.
func TestC11F3PartialOverlapLosesConversion(t *testing.T) {
	a := c11f3File(t, 0, 5000)
	b := c11f3File(t, 3000, 8000)
	m := c11f3Merge(t, a.RowGroups()[0], b.RowGroups()[0])
	c11f3Check(t, "WriteRowGroup(merge of partially overlapping files)", c11f3Write(t, m), 10000)
}

// Control: the same inputs with fully overlapping key ranges (no slicing
// possible) are converted properly.
func TestC11F3ControlFullOverlap(t *testing.T) {
	a := c11f3File(t, 0, 5000)
	b := c11f3File(t, 0, 5000)
	m := c11f3Merge(t, a.RowGroups()[0], b.RowGroups()[0])
	c11f3Check(t, "WriteRowGroup(merge of fully overlapping files)", c11f3Write(t, m), 10000)
}
