package parquet_test

// Copy into the repository root (package directory of
// github.com/parquet-go/parquet-go) and run
//
//	go test -vet=off -count=1 -run TestC05F2 .

import (
	"math"
	"testing"

	"github.com/parquet-go/parquet-go"
)

func TestC05F2BufferColumnIndexFloatNaN(t *testing.T) {
	nan := math.NaN()

	check := func(t *testing.T, node parquet.Node, mk func(float64) parquet.Value, get func(parquet.Value) float64) {
		schema := parquet.NewSchema("t", parquet.Group{"f": node})
		buffer := parquet.NewBuffer(schema)
		for _, v := range []float64{1, nan, 5} {
			if _, err := buffer.WriteRows([]parquet.Row{{mk(v).Level(0, 0, 0)}}); err != nil {
				t.Fatal(err)
			}
		}

		chunk := buffer.ColumnChunks()[0]
		index, err := chunk.ColumnIndex()
		if err != nil {
			t.Fatal(err)
		}

		// The page itself reports the right bounds (NaN excluded) ...
		pmin, pmax, _ := buffer.ColumnBuffers()[0].Page().Bounds()
		if get(pmin) != 1 || get(pmax) != 5 {
			t.Fatalf("Page.Bounds() = %v,%v; expected 1,5", pmin, pmax)
		}

		// ... but the column index of the same buffer does not.
		min, max := get(index.MinValue(0)), get(index.MaxValue(0))
		if !(min <= 1) {
			t.Errorf("ColumnIndex.MinValue(0) = %v, expected a lower bound of the non-NaN values {1, 5} (i.e. <= 1, like Page.Bounds which returns 1)", min)
		}
		if !(max >= 5) {
			t.Errorf("ColumnIndex.MaxValue(0) = %v, expected an upper bound of the non-NaN values {1, 5} (i.e. >= 5, like Page.Bounds which returns 5)", max)
		}

		// A reader that prunes with this index skips a value that is there.
		if page := parquet.Search(index, mk(1), chunk.Type()); page != 0 {
			t.Errorf("parquet.Search(index, 1.0) = %d with NumPages=%d (not found), expected page 0 which holds the value 1.0",
				page, index.NumPages())
		}
	}

	t.Run("float", func(t *testing.T) {
		check(t, parquet.Leaf(parquet.FloatType),
			func(f float64) parquet.Value { return parquet.FloatValue(float32(f)) },
			func(v parquet.Value) float64 { return float64(v.Float()) })
	})
	t.Run("double", func(t *testing.T) {
		check(t, parquet.Leaf(parquet.DoubleType),
			func(f float64) parquet.Value { return parquet.DoubleValue(f) },
			func(v parquet.Value) float64 { return v.Double() })
	})
}
