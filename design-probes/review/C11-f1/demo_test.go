package parquet_test

// Copy this file into the root package directory of the repository
// (next to writer_copy.go) and run:
//
//	go test -vet=off -count=1 -run 'TestC11F1' .

import (
	"bytes"
	"fmt"
	"testing"

	"github.com/parquet-go/parquet-go"
	"github.com/parquet-go/parquet-go/format"
)

type c11f1Row struct {
	ID   int64  `parquet:"id"`
	Blob string `parquet:"blob"`
}

func c11f1Rows(n int) []c11f1Row {
	rows := make([]c11f1Row, n)
	for i := range rows {
		rows[i] = c11f1Row{ID: int64(i), Blob: fmt.Sprintf("blob-%04d", i)}
	}
	return rows
}

func c11f1Open(t *testing.T, b []byte) *parquet.File {
	t.Helper()
	f, err := parquet.OpenFile(bytes.NewReader(b), int64(len(b)))
	if err != nil {
		t.Fatal(err)
	}
	return f
}

// rowByRow writes the rows one by one with the given options.
func c11f1RowByRow[T any](t *testing.T, rows []T, opts ...parquet.WriterOption) *parquet.File {
	t.Helper()
	var buf bytes.Buffer
	w := parquet.NewGenericWriter[T](&buf, opts...)
	for i := range rows {
		if _, err := w.Write(rows[i : i+1]); err != nil {
			t.Fatal(err)
		}
	}
	if err := w.Close(); err != nil {
		t.Fatal(err)
	}
	return c11f1Open(t, buf.Bytes())
}

// viaWriteRowGroup writes every row group of src with WriteRowGroup into a
// writer configured with the given options.
func c11f1ViaWriteRowGroup[T any](t *testing.T, src *parquet.File, opts ...parquet.WriterOption) *parquet.File {
	t.Helper()
	var buf bytes.Buffer
	w := parquet.NewGenericWriter[T](&buf, opts...)
	for _, rg := range src.RowGroups() {
		if _, err := w.WriteRowGroup(rg); err != nil {
			t.Fatal(err)
		}
	}
	if err := w.Close(); err != nil {
		t.Fatal(err)
	}
	return c11f1Open(t, buf.Bytes())
}

func c11f1Column(f *parquet.File, rowGroup, column int) (format.ColumnMetaData, format.ColumnIndex) {
	md := f.Metadata()
	numColumns := len(md.RowGroups[rowGroup].Columns)
	return md.RowGroups[rowGroup].Columns[column].MetaData, f.ColumnIndexes()[rowGroup*numColumns+column]
}

// SkipPageBounds("blob") on the destination writer: "lists the path to a column
// that shouldn't have bounds written to the footer of the parquet file".
func TestC11F1SkipPageBoundsWriteRowGroup(t *testing.T) {
	rows := c11f1Rows(100)
	src := c11f1RowByRow(t, rows) // default options: bounds are written
	opts := []parquet.WriterOption{parquet.SkipPageBounds("blob")}

	want := c11f1RowByRow(t, rows, opts...)
	got := c11f1ViaWriteRowGroup[c11f1Row](t, src, opts...)

	wantMeta, wantIndex := c11f1Column(want, 0, 1)
	gotMeta, gotIndex := c11f1Column(got, 0, 1)

	if !bytes.Equal(gotMeta.Statistics.MinValue, wantMeta.Statistics.MinValue) ||
		!bytes.Equal(gotMeta.Statistics.MaxValue, wantMeta.Statistics.MaxValue) {
		t.Errorf("column chunk statistics of column blob with SkipPageBounds(blob):\n"+
			"  expected (rows written one by one): min=%q max=%q\n"+
			"  actual   (WriteRowGroup):           min=%q max=%q",
			wantMeta.Statistics.MinValue, wantMeta.Statistics.MaxValue,
			gotMeta.Statistics.MinValue, gotMeta.Statistics.MaxValue)
	}
	if fmt.Sprintf("%q", gotIndex.MinValues) != fmt.Sprintf("%q", wantIndex.MinValues) ||
		fmt.Sprintf("%q", gotIndex.MaxValues) != fmt.Sprintf("%q", wantIndex.MaxValues) {
		t.Errorf("column index of column blob with SkipPageBounds(blob):\n"+
			"  expected (rows written one by one): min=%q max=%q\n"+
			"  actual   (WriteRowGroup):           min=%q max=%q",
			wantIndex.MinValues, wantIndex.MaxValues, gotIndex.MinValues, gotIndex.MaxValues)
	}
}

// The same through SortingWriter.Close, where a single set of options is
// involved: the temporary file of the sorting writer is written without the
// SkipPageBounds option and its row group is then copied verbatim.
func TestC11F1SkipPageBoundsSortingWriter(t *testing.T) {
	rows := c11f1Rows(100)
	opts := []parquet.WriterOption{
		parquet.SkipPageBounds("blob"),
		parquet.SortingWriterConfig(parquet.SortingColumns(parquet.Ascending("id"))),
	}
	want := c11f1RowByRow(t, rows, opts...) // rows are already sorted by id

	var buf bytes.Buffer
	sw := parquet.NewSortingWriter[c11f1Row](&buf, 1000, opts...)
	if _, err := sw.Write(rows); err != nil {
		t.Fatal(err)
	}
	if err := sw.Close(); err != nil {
		t.Fatal(err)
	}
	got := c11f1Open(t, buf.Bytes())

	wantMeta, wantIndex := c11f1Column(want, 0, 1)
	gotMeta, gotIndex := c11f1Column(got, 0, 1)
	if !bytes.Equal(gotMeta.Statistics.MaxValue, wantMeta.Statistics.MaxValue) ||
		fmt.Sprintf("%q", gotIndex.MaxValues) != fmt.Sprintf("%q", wantIndex.MaxValues) {
		t.Errorf("SortingWriter with SkipPageBounds(blob), bounds of column blob:\n"+
			"  expected (GenericWriter, same options): chunk max=%q index max=%q\n"+
			"  actual   (SortingWriter):               chunk max=%q index max=%q",
			wantMeta.Statistics.MaxValue, wantIndex.MaxValues,
			gotMeta.Statistics.MaxValue, gotIndex.MaxValues)
	}
}

// DeprecatedDataPageStatistics(true) on the destination writer: "also write the
// deprecated Min/Max fields in column chunk statistics".
func TestC11F1DeprecatedStatistics(t *testing.T) {
	rows := c11f1Rows(100)
	src := c11f1RowByRow(t, rows)
	opts := []parquet.WriterOption{parquet.DeprecatedDataPageStatistics(true)}

	want := c11f1RowByRow(t, rows, opts...)
	got := c11f1ViaWriteRowGroup[c11f1Row](t, src, opts...)

	for column := range 2 {
		wantMeta, _ := c11f1Column(want, 0, column)
		gotMeta, _ := c11f1Column(got, 0, column)
		if !bytes.Equal(gotMeta.Statistics.Min, wantMeta.Statistics.Min) ||
			!bytes.Equal(gotMeta.Statistics.Max, wantMeta.Statistics.Max) {
			t.Errorf("deprecated Min/Max statistics of column %d with DeprecatedDataPageStatistics(true):\n"+
				"  expected (rows written one by one): min=%q max=%q\n"+
				"  actual   (WriteRowGroup):           min=%q max=%q",
				column, wantMeta.Statistics.Min, wantMeta.Statistics.Max,
				gotMeta.Statistics.Min, gotMeta.Statistics.Max)
		}
	}
}

type c11f1DictRow struct {
	Name string `parquet:"name,dict"`
}

// DictionaryMaxBytes(1024) on the destination writer: "When a column's
// dictionary exceeds this limit, that column will switch from dictionary
// encoding to PLAIN encoding for the remainder of the row group."
func TestC11F1DictionaryMaxBytes(t *testing.T) {
	rows := make([]c11f1DictRow, 5000)
	for i := range rows {
		rows[i].Name = fmt.Sprintf("name-%06d", i) // 5000 distinct values, 55000 bytes
	}
	src := c11f1RowByRow(t, rows, parquet.PageBufferSize(1024)) // unlimited dictionary
	opts := []parquet.WriterOption{parquet.DictionaryMaxBytes(1024), parquet.PageBufferSize(1024)}

	want := c11f1RowByRow(t, rows, opts...)
	got := c11f1ViaWriteRowGroup[c11f1DictRow](t, src, opts...)

	plainPages := func(m format.ColumnMetaData) (n int32) {
		for _, s := range m.EncodingStats {
			if s.PageType != format.DictionaryPage && s.Encoding == format.Plain {
				n += s.Count
			}
		}
		return n
	}
	dictionarySize := func(m format.ColumnMetaData) int64 { return m.DataPageOffset - m.DictionaryPageOffset }

	wantMeta, _ := c11f1Column(want, 0, 0)
	gotMeta, _ := c11f1Column(got, 0, 0)
	if plainPages(wantMeta) == 0 {
		t.Fatalf("test premise: the row path did not fall back to PLAIN: %v", wantMeta.EncodingStats)
	}
	if plainPages(gotMeta) == 0 {
		t.Errorf("column name with DictionaryMaxBytes(1024):\n"+
			"  expected (rows written one by one): fallback to PLAIN, encoding stats %v, dictionary page of %d bytes\n"+
			"  actual   (WriteRowGroup):           no fallback,       encoding stats %v, dictionary page of %d bytes",
			wantMeta.EncodingStats, dictionarySize(wantMeta), gotMeta.EncodingStats, dictionarySize(gotMeta))
	}
}
