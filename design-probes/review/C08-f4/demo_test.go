// Copy into the repository root (package parquet_test), e.g. as f4_demo_test.go:
//   go test -vet=off -count=1 -run 'TestC08F4' .
package parquet_test

import (
	"bytes"
	"io"
	"testing"

	"github.com/parquet-go/parquet-go"
)

type c08f4Full struct {
	A int64  `parquet:"a"`
	B string `parquet:"b"`
	C int64  `parquet:"c"`
}

// projection of the file schema on column c
type c08f4Sub struct {
	C int64 `parquet:"c"`
}

func c08f4File(t *testing.T) []byte {
	t.Helper()
	buf := new(bytes.Buffer)
	w := parquet.NewGenericWriter[c08f4Full](buf)
	for i := 0; i < 10; i++ {
		if _, err := w.Write([]c08f4Full{{A: int64(i), B: "x", C: int64(100 + i)}}); err != nil {
			t.Fatal(err)
		}
	}
	if err := w.Close(); err != nil {
		t.Fatal(err)
	}
	return buf.Bytes()
}

func TestC08F4ReaderSeekThenReadOtherType(t *testing.T) {
	data := c08f4File(t)

	// Reference: a fresh reader, sequential Read(&c08f4Sub{}) of every row.
	var want []int64
	ref := parquet.NewReader(bytes.NewReader(data))
	for {
		var s c08f4Sub
		if err := ref.Read(&s); err != nil {
			if err != io.EOF {
				t.Fatal(err)
			}
			break
		}
		want = append(want, s.C)
	}
	ref.Close()
	if len(want) != 10 || want[5] != 105 {
		t.Fatalf("reference read: %v", want)
	}

	// History: Read(&full) ; SeekToRow(5) ; Read(&sub) ...
	r := parquet.NewReader(bytes.NewReader(data))
	defer r.Close()
	var f c08f4Full
	if err := r.Read(&f); err != nil {
		t.Fatal(err)
	}
	if f != (c08f4Full{A: 0, B: "x", C: 100}) {
		t.Fatalf("first row: %+v", f)
	}
	const k = 5
	if err := r.SeekToRow(k); err != nil {
		t.Fatal(err)
	}
	for i := k; i < 10; i++ {
		var s c08f4Sub
		if err := r.Read(&s); err != nil {
			t.Fatalf("Read of row %d after SeekToRow(%d): %v", i, k, err)
		}
		if s.C != want[i] {
			t.Errorf("Read(&c08f4Sub{}) of row %d after SeekToRow(%d): got C=%d, want C=%d (what a fresh sequential reader returns for that row)", i, k, s.C, want[i])
		}
	}
}
