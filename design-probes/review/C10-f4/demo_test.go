// Copy into the repository root (package directory of
// github.com/parquet-go/parquet-go) and run:
//
//	go test -vet=off -count=1 -run TestC10F4ReadValuesAtAfterSort .
package parquet_test

import (
	"sort"
	"testing"

	"github.com/parquet-go/parquet-go"
)

// After sort.Sort(buffer), reading the columns through ColumnBuffer.ReadValuesAt
// returns the required column in sorted order but optional and repeated columns
// in their ORIGINAL order: the values of one row no longer belong together.
func TestC10F4ReadValuesAtAfterSort(t *testing.T) {
	type row struct {
		K int32   `parquet:"k"`          // required, sorting column
		V *int32  `parquet:"v,optional"` // always 10*K in this test, never null
		L []int32 `parquet:"l"`          // always [100*K]
	}
	p := func(v int32) *int32 { return &v }
	mk := func(k int32) row { return row{K: k, V: p(10 * k), L: []int32{100 * k}} }

	buf := parquet.NewGenericBuffer[row](
		parquet.SortingRowGroupConfig(parquet.SortingColumns(parquet.Ascending("k"))),
	)
	if _, err := buf.Write([]row{mk(3), mk(1), mk(2), mk(0)}); err != nil {
		t.Fatal(err)
	}
	sort.Sort(buf)

	columns := buf.ColumnBuffers() // k, v, l
	k := make([]parquet.Value, 4)
	v := make([]parquet.Value, 4)
	l := make([]parquet.Value, 4)
	if n, err := columns[0].ReadValuesAt(k, 0); n != 4 {
		t.Fatalf("k: n=%d err=%v", n, err)
	}
	if n, err := columns[1].ReadValuesAt(v, 0); n != 4 {
		t.Fatalf("v: n=%d err=%v", n, err)
	}
	if n, err := columns[2].ReadValuesAt(l, 0); n != 4 {
		t.Fatalf("l: n=%d err=%v", n, err)
	}

	for i := range k {
		if i > 0 && k[i-1].Int32() > k[i].Int32() {
			t.Errorf("column k is not sorted: %v", k)
		}
		if want := 10 * k[i].Int32(); v[i].Int32() != want {
			t.Errorf("row %d of the sorted buffer: k=%d, expected v=%d (same row), actual v=%d (ReadValuesAt on the optional column still returns the pre-sort order %v)", i, k[i].Int32(), want, v[i].Int32(), v)
		}
		if want := 100 * k[i].Int32(); l[i].Int32() != want {
			t.Errorf("row %d of the sorted buffer: k=%d, expected l=[%d] (same row), actual l=[%d] (ReadValuesAt on the repeated column still returns the pre-sort order %v)", i, k[i].Int32(), want, l[i].Int32(), l)
		}
	}
}
