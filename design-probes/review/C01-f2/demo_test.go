// Copy into the root package directory of the repository (next to writer.go)
// and run:
//
//	go test -vet=off -count=1 -run TestF2MilliMicroTimestampOverflowOnRead .
package parquet_test

import (
	"bytes"
	"testing"
	"time"

	"github.com/parquet-go/parquet-go"
)

type f2Row struct {
	Ms  time.Time  `parquet:",timestamp"`              // default unit: millisecond
	Us  time.Time  `parquet:",timestamp(microsecond)"` //
	PMs *time.Time `parquet:",timestamp(millisecond)"`
}

func TestF2MilliMicroTimestampOverflowOnRead(t *testing.T) {
	y2300 := time.Date(2300, 1, 1, 12, 0, 0, 0, time.UTC)
	y1600 := time.Date(1600, 6, 15, 0, 0, 0, 0, time.UTC)
	rows := []f2Row{
		{}, // the zero time.Time, 0001-01-01T00:00:00Z
		{Ms: y2300, Us: y2300, PMs: &y2300},
		{Ms: y1600, Us: y1600, PMs: &y1600},
	}

	buf := new(bytes.Buffer)
	w := parquet.NewGenericWriter[f2Row](buf)
	if _, err := w.Write(rows); err != nil {
		t.Fatal(err)
	}
	if err := w.Close(); err != nil {
		t.Fatal(err)
	}

	// The stored leaf values are correct (UnixMilli / UnixMicro fit an int64 easily).
	f, err := parquet.OpenFile(bytes.NewReader(buf.Bytes()), int64(buf.Len()))
	if err != nil {
		t.Fatal(err)
	}
	raw := make([]parquet.Row, len(rows))
	rr := f.RowGroups()[0].Rows()
	if n, _ := rr.ReadRows(raw); n != len(rows) {
		t.Fatalf("expected %d raw rows, got %d", len(rows), n)
	}
	rr.Close()
	for i := range rows {
		if got, want := raw[i][0].Int64(), rows[i].Ms.UnixMilli(); got != want {
			t.Fatalf("row %d: stored millisecond value: expected %d, got %d", i, want, got)
		}
		if got, want := raw[i][1].Int64(), rows[i].Us.UnixMicro(); got != want {
			t.Fatalf("row %d: stored microsecond value: expected %d, got %d", i, want, got)
		}
	}

	got, err := parquet.Read[f2Row](bytes.NewReader(buf.Bytes()), int64(buf.Len()))
	if err != nil {
		t.Fatal(err)
	}
	if len(got) != len(rows) {
		t.Fatalf("expected %d rows, got %d", len(rows), len(got))
	}
	for i := range rows {
		if !got[i].Ms.Equal(rows[i].Ms) {
			t.Errorf("row %d: timestamp(millisecond): expected %v, got %v", i, rows[i].Ms.UTC(), got[i].Ms.UTC())
		}
		if !got[i].Us.Equal(rows[i].Us) {
			t.Errorf("row %d: timestamp(microsecond): expected %v, got %v", i, rows[i].Us.UTC(), got[i].Us.UTC())
		}
		switch {
		case rows[i].PMs == nil && got[i].PMs != nil:
			t.Errorf("row %d: *time.Time: expected nil, got %v", i, *got[i].PMs)
		case rows[i].PMs != nil && (got[i].PMs == nil || !got[i].PMs.Equal(*rows[i].PMs)):
			t.Errorf("row %d: *time.Time timestamp(millisecond): expected %v, got %v", i, *rows[i].PMs, got[i].PMs)
		}
	}
	if !got[0].Ms.IsZero() {
		t.Errorf("row 0: the zero time.Time written to a required millisecond timestamp must read back as the zero time, got %v", got[0].Ms)
	}
}
