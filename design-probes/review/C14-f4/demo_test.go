package parquet_test

// Copy into the root package directory of the repository (next to row.go):
//   go test -vet=off -count=1 -run 'TestC14CopyRowsWrappedEOF' .

import (
	"bytes"
	"fmt"
	"io"
	"testing"

	"github.com/parquet-go/parquet-go"
)

type c14f4Row struct {
	ID int64 `parquet:"id"`
}

// c14f4ReaderAt fails the at-th ReadAt call with an error that wraps io.EOF, as
// storage clients commonly do ("get object range ...: EOF").
type c14f4ReaderAt struct {
	r     io.ReaderAt
	calls int
	at    int
	fired bool
}

func (f *c14f4ReaderAt) ReadAt(p []byte, off int64) (int, error) {
	i := f.calls
	f.calls++
	if i == f.at {
		f.fired = true
		return 0, fmt.Errorf("remote read of %d bytes at offset %d failed: %w", len(p), off, io.EOF)
	}
	return f.r.ReadAt(p, off)
}

type c14f4CountingWriter struct{ n int64 }

func (w *c14f4CountingWriter) WriteRows(rows []parquet.Row) (int, error) {
	w.n += int64(len(rows))
	return len(rows), nil
}

func TestC14CopyRowsWrappedEOF(t *testing.T) {
	const numRows = 5000
	rows := make([]c14f4Row, numRows)
	for i := range rows {
		rows[i].ID = int64(i)
	}
	out := new(bytes.Buffer)
	w := parquet.NewGenericWriter[c14f4Row](out, parquet.PageBufferSize(1024))
	if _, err := w.Write(rows); err != nil {
		t.Fatal(err)
	}
	if err := w.Close(); err != nil {
		t.Fatal(err)
	}
	data := out.Bytes()

	type result struct {
		n   int64
		err error
	}
	viaCopyRows := func(src io.ReaderAt) result {
		f, err := parquet.OpenFile(src, int64(len(data)))
		if err != nil {
			return result{0, err}
		}
		r := f.RowGroups()[0].Rows()
		defer r.Close()
		dst := new(c14f4CountingWriter)
		_, err = parquet.CopyRows(dst, r)
		return result{dst.n, err}
	}
	viaReadRowsFrom := func(src io.ReaderAt) result {
		f, err := parquet.OpenFile(src, int64(len(data)))
		if err != nil {
			return result{0, err}
		}
		r := f.RowGroups()[0].Rows()
		defer r.Close()
		copied := new(bytes.Buffer)
		w := parquet.NewGenericWriter[c14f4Row](copied)
		if _, err := w.ReadRowsFrom(r); err != nil {
			return result{0, err}
		}
		if err := w.Close(); err != nil {
			return result{0, err}
		}
		cf, err := parquet.OpenFile(bytes.NewReader(copied.Bytes()), int64(copied.Len()))
		if err != nil {
			return result{0, err}
		}
		return result{cf.NumRows(), nil}
	}
	viaGenericReader := func(src io.ReaderAt) result { // control
		f, err := parquet.OpenFile(src, int64(len(data)))
		if err != nil {
			return result{0, err}
		}
		r := parquet.NewGenericReader[c14f4Row](f)
		defer r.Close()
		buf := make([]c14f4Row, 100)
		total := int64(0)
		for {
			n, err := r.Read(buf)
			total += int64(n)
			if err == io.EOF {
				return result{total, nil}
			}
			if err != nil {
				return result{total, err}
			}
		}
	}

	for _, test := range []struct {
		name string
		read func(io.ReaderAt) result
	}{
		{"GenericReader.Read (control)", viaGenericReader},
		{"CopyRows", viaCopyRows},
		{"GenericWriter.ReadRowsFrom", viaReadRowsFrom},
	} {
		t.Run(test.name, func(t *testing.T) {
			if res := test.read(bytes.NewReader(data)); res.err != nil || res.n != numRows {
				t.Fatalf("test setup: clean read: %d rows, err=%v", res.n, res.err)
			}
			silent := 0
			for at := 0; ; at++ {
				src := &c14f4ReaderAt{r: bytes.NewReader(data), at: at}
				res := test.read(src)
				if !src.fired {
					break
				}
				if res.err == nil && res.n != numRows {
					silent++
					if silent <= 3 {
						t.Errorf("ReadAt call #%d failed with an error wrapping io.EOF: expected an error or all %d rows copied, got err=nil and %d rows", at, numRows, res.n)
					}
				}
			}
			if silent > 0 {
				t.Errorf("%d ReadAt call indexes at which the source error was absorbed", silent)
			}
		})
	}
}
