package parquet_test

// Copy into the repository root (package parquet_test), e.g. as
// c19_f2_demo_test.go, and run:
//
//	go test -vet=off -count=1 -run TestC19F2 .

import (
	"bytes"
	"io"
	"testing"

	"github.com/parquet-go/parquet-go"
	"github.com/parquet-go/parquet-go/variant"
)

type c19f2Raw struct {
	Metadata []byte `parquet:"metadata"`
	Value    []byte `parquet:"value"`
}

type c19f2WriteRow struct {
	ID  int32 `parquet:"id"`
	Var any   `parquet:"var,variant"`
}

type c19f2ReadRow struct {
	ID  int32    `parquet:"id"`
	Var c19f2Raw `parquet:"var,variant"`
}

func c19f2Encode(v variant.Value) c19f2Raw {
	var b variant.MetadataBuilder
	value := variant.Encode(&b, v)
	_, metadata := b.Build()
	return c19f2Raw{Metadata: metadata, Value: value}
}

func c19f2Decode(t *testing.T, ctx string, raw c19f2Raw, want variant.Value) {
	t.Helper()
	m, err := variant.DecodeMetadata(raw.Metadata)
	if err != nil {
		t.Errorf("%s: expected %#v, actual undecodable metadata %x: %v", ctx, want.GoValue(), raw.Metadata, err)
		return
	}
	got, err := variant.Decode(m, raw.Value)
	if err != nil {
		t.Errorf("%s: expected %#v, actual undecodable value bytes %x (metadata %x): %v", ctx, want.GoValue(), raw.Value, raw.Metadata, err)
		return
	}
	if !got.Equal(want) {
		t.Errorf("%s: expected %#v, actual %#v", ctx, want.GoValue(), got.GoValue())
	}
}

// c19f2File writes an OPTIONAL shredded variant column: row 0 is shredded
// into typed_value, row 1 does not match the shredded type and sits in the
// value column.
func c19f2File(t *testing.T) ([]byte, []variant.Value) {
	shredded, err := parquet.ShreddedVariant(parquet.Int(64))
	if err != nil {
		t.Fatal(err)
	}
	schema := parquet.NewSchema("table", parquet.Group{
		"id":  parquet.Int(32),
		"var": parquet.Optional(shredded),
	})
	values := []variant.Value{variant.Int64(5), variant.String("x")}
	rows := make([]c19f2WriteRow, len(values))
	for i, v := range values {
		rows[i] = c19f2WriteRow{ID: int32(i), Var: c19f2Encode(v)}
	}
	buf := new(bytes.Buffer)
	w := parquet.NewGenericWriter[c19f2WriteRow](buf, schema)
	if _, err := w.Write(rows); err != nil {
		t.Fatal(err)
	}
	if err := w.Close(); err != nil {
		t.Fatal(err)
	}
	return buf.Bytes(), values
}

// The reader declares the column as an optional plain (unshredded) variant,
// which is what convert_variant.go promises to reconstruct.
func c19f2ReadSchema() *parquet.Schema {
	return parquet.NewSchema("table", parquet.Group{
		"id":  parquet.Int(32),
		"var": parquet.Optional(parquet.Variant()),
	})
}

// Control: GenericReader with the unshredded read schema reconstructs the
// values (passes on HEAD).
func TestC19F2ControlGenericReader(t *testing.T) {
	data, values := c19f2File(t)
	rd := parquet.NewGenericReader[c19f2ReadRow](bytes.NewReader(data), c19f2ReadSchema())
	defer rd.Close()
	rows := make([]c19f2ReadRow, len(values))
	if n, err := rd.Read(rows); n != len(values) || (err != nil && err != io.EOF) {
		t.Fatalf("read: n=%d err=%v", n, err)
	}
	for i, want := range values {
		c19f2Decode(t, "GenericReader row "+string(rune('0'+i)), rows[i].Var, want)
	}
}

// parquet.NewReader with the same read schema, reading into the same struct,
// returns an empty value for every row (fails on HEAD).
func TestC19F2LegacyReaderWithUnshreddedSchema(t *testing.T) {
	data, values := c19f2File(t)
	rd := parquet.NewReader(bytes.NewReader(data), c19f2ReadSchema())
	defer rd.Close()
	for i, want := range values {
		var row c19f2ReadRow
		if err := rd.Read(&row); err != nil {
			t.Fatalf("row %d: %v", i, err)
		}
		if row.ID != int32(i) {
			t.Errorf("row %d: expected id %d, actual %d", i, i, row.ID)
		}
		c19f2Decode(t, "parquet.Reader row "+string(rune('0'+i)), row.Var, want)
	}
}

// Same root cause without the legacy reader: the column chunks of a row group
// converted to the unshredded schema expose the raw residual `value` column of
// the source instead of the reconstructed variant (fails on HEAD: the typed
// row has no value at all).
func TestC19F2ConvertedRowGroupColumnChunks(t *testing.T) {
	data, values := c19f2File(t)
	f, err := parquet.OpenFile(bytes.NewReader(data), int64(len(data)))
	if err != nil {
		t.Fatal(err)
	}
	target := c19f2ReadSchema()
	conv, err := parquet.Convert(target, f.Schema())
	if err != nil {
		t.Fatal(err)
	}
	converted := parquet.ConvertRowGroup(f.RowGroups()[0], conv)

	leaf, ok := target.Lookup("var", "value")
	if !ok {
		t.Fatal("no var.value column in target schema")
	}
	metaLeaf, _ := target.Lookup("var", "metadata")
	read := func(col int) []parquet.Value {
		pages := converted.ColumnChunks()[col].Pages()
		defer pages.Close()
		var out []parquet.Value
		for {
			p, err := pages.ReadPage()
			if err == io.EOF {
				return out
			}
			if err != nil {
				t.Fatalf("column %d: %v", col, err)
			}
			vals := make([]parquet.Value, p.NumValues())
			n, err := p.Values().ReadValues(vals)
			if err != nil && err != io.EOF {
				t.Fatalf("column %d: %v", col, err)
			}
			for _, v := range vals[:n] {
				out = append(out, v.Clone())
			}
			parquet.Release(p)
		}
	}
	metas, vals := read(metaLeaf.ColumnIndex), read(leaf.ColumnIndex)
	if len(vals) != len(values) || len(metas) != len(values) {
		t.Fatalf("expected %d values per column, actual %d metadata and %d value", len(values), len(metas), len(vals))
	}
	for i, want := range values {
		c19f2Decode(t, "converted column chunk row "+string(rune('0'+i)),
			c19f2Raw{Metadata: metas[i].ByteArray(), Value: vals[i].ByteArray()}, want)
	}
}
