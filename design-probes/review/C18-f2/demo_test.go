// Copy into the repository root (package directory "."), e.g.
//   cp findings/f2/demo_test.go ./c18_f2_demo_test.go
//   go test -vet=off -count=1 -run TestC18F2 .
package parquet_test

import (
	"bytes"
	"fmt"
	"testing"

	"github.com/parquet-go/parquet-go"
)

type c18f2Row struct {
	ID  int64  `parquet:"id"`
	SSN string `parquet:"ssn"`
}

// c18f2FooterKeyOnly is a reader that was given the footer key but NOT the key
// of column "ssn" (the documented ErrKeyNotFound protocol of KeyRetriever).
type c18f2FooterKeyOnly struct{ footer []byte }

func (k c18f2FooterKeyOnly) FooterKey([]byte) ([]byte, error) { return k.footer, nil }
func (k c18f2FooterKeyOnly) ColumnKey(path []string, _ []byte) ([]byte, error) {
	return nil, fmt.Errorf("no key for %v: %w", path, parquet.ErrKeyNotFound)
}

func TestC18F2ColumnKeyStatisticsReadableWithFooterKey(t *testing.T) {
	footerKey := bytes.Repeat([]byte{1}, 16)
	ssnKey := bytes.Repeat([]byte{2}, 16)
	const secret = "078-05-1120"

	for _, encryptedFooter := range []bool{false, true} {
		var buf bytes.Buffer
		w := parquet.NewGenericWriter[c18f2Row](&buf, parquet.WithEncryption(&parquet.EncryptionConfig{
			FooterKey:       footerKey,
			ColumnKeys:      map[string][]byte{"ssn": ssnKey},
			EncryptedFooter: encryptedFooter,
		}))
		if _, err := w.Write([]c18f2Row{{ID: 1, SSN: secret}}); err != nil {
			t.Fatal(err)
		}
		if err := w.Close(); err != nil {
			t.Fatal(err)
		}
		data := buf.Bytes()

		f, err := parquet.OpenFile(bytes.NewReader(data), int64(len(data)),
			parquet.WithDecryption(c18f2FooterKeyOnly{footerKey}))
		if err != nil {
			t.Fatalf("EncryptedFooter=%v: open with footer key only: %v", encryptedFooter, err)
		}
		ssn := f.Metadata().RowGroups[0].Columns[1] // leaf #1 = "ssn"
		st := ssn.MetaData.Statistics
		if bytes.Contains(st.MinValue, []byte(secret)) || bytes.Contains(st.MaxValue, []byte(secret)) ||
			bytes.Contains(st.Min, []byte(secret)) || bytes.Contains(st.Max, []byte(secret)) {
			t.Errorf("EncryptedFooter=%v: expected: the statistics of column \"ssn\" (encrypted with its own key) are "+
				"not available to a reader that only holds the footer key; actual: min=%q max=%q type=%v num_values=%d "+
				"were recovered with the footer key alone",
				encryptedFooter, st.MinValue, st.MaxValue, ssn.MetaData.Type, ssn.MetaData.NumValues)
		}
	}
}
