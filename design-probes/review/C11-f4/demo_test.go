package parquet_test

// Copy this file into the root package directory of the repository
// (next to multi_row_group.go) and run:
//
//	go test -vet=off -count=1 -run 'TestC11F4' .

import (
	"bytes"
	"testing"
	"time"

	"github.com/parquet-go/parquet-go"
)

// Source files store the timestamp in milliseconds ...
type c11f4Millis struct {
	ID int64     `parquet:"id"`
	TS time.Time `parquet:"ts,timestamp(millisecond)"`
}

// ... the merge target and the destination writer store it in microseconds.
type c11f4Micros struct {
	ID int64     `parquet:"id"`
	TS time.Time `parquet:"ts,timestamp(microsecond)"`
}

func c11f4TS(id int64) time.Time { return time.Unix(id, 0).UTC() }

func c11f4File[T any](t *testing.T, rows []T) *parquet.File {
	t.Helper()
	var buf bytes.Buffer
	w := parquet.NewGenericWriter[T](&buf) // no sorting columns
	if _, err := w.Write(rows); err != nil {
		t.Fatal(err)
	}
	if err := w.Close(); err != nil {
		t.Fatal(err)
	}
	f, err := parquet.OpenFile(bytes.NewReader(buf.Bytes()), int64(buf.Len()))
	if err != nil {
		t.Fatal(err)
	}
	return f
}

func c11f4MillisFile(t *testing.T, lo, hi int64) *parquet.File {
	var rows []c11f4Millis
	for id := lo; id < hi; id++ {
		rows = append(rows, c11f4Millis{ID: id, TS: c11f4TS(id)})
	}
	return c11f4File(t, rows)
}

func c11f4MicrosFile(t *testing.T, lo, hi int64) *parquet.File {
	var rows []c11f4Micros
	for id := lo; id < hi; id++ {
		rows = append(rows, c11f4Micros{ID: id, TS: c11f4TS(id)})
	}
	return c11f4File(t, rows)
}

// mergeAndWrite merges the row groups into the microsecond schema (no sorting
// columns anywhere, i.e. a plain concatenation) and writes the result with
// WriteRowGroup.
func c11f4MergeAndWrite(t *testing.T, inputs ...parquet.RowGroup) []c11f4Micros {
	t.Helper()
	m, err := parquet.MergeRowGroups(inputs, parquet.SchemaOf(c11f4Micros{}))
	if err != nil {
		t.Fatal(err)
	}
	var out bytes.Buffer
	w := parquet.NewGenericWriter[c11f4Micros](&out)
	if _, err := w.WriteRowGroup(m); err != nil {
		t.Fatal(err)
	}
	if err := w.Close(); err != nil {
		t.Fatal(err)
	}
	rows, err := parquet.Read[c11f4Micros](bytes.NewReader(out.Bytes()), int64(out.Len()))
	if err != nil {
		t.Fatal(err)
	}
	return rows
}

func c11f4Check(t *testing.T, what string, rows []c11f4Micros, wantRows int) {
	t.Helper()
	if len(rows) != wantRows {
		t.Errorf("%s: expected %d rows, actual %d", what, wantRows, len(rows))
	}
	bad, first := 0, -1
	for i, r := range rows {
		if !r.TS.Equal(c11f4TS(r.ID)) {
			if first < 0 {
				first = i
			}
			bad++
		}
	}
	if bad > 0 {
		r := rows[first]
		t.Errorf("%s: %d of %d rows carry an unconverted timestamp; first at row %d (id=%d):\n"+
			"  expected ts = %v\n"+
			"  actual   ts = %v",
			what, bad, len(rows), first, r.ID, c11f4TS(r.ID), r.TS)
	}
}

// Every input needs the millisecond -> microsecond conversion: none of the
// segments of the merged row group qualifies for a chunk-level fast path, the
// writer falls back to multiRowGroup.Rows(), which reads the unconverted column
// chunks of the converted row groups.
func TestC11F4AllInputsConverted(t *testing.T) {
	a := c11f4MillisFile(t, 0, 50)
	b := c11f4MillisFile(t, 50, 100)
	rows := c11f4MergeAndWrite(t, a.RowGroups()[0], b.RowGroups()[0])
	c11f4Check(t, "WriteRowGroup(MergeRowGroups(millis, millis) -> micros)", rows, 100)
}

// Control: the very same two inputs plus a third one which already has the
// target schema. Now one segment is eligible for a fast path, the writer writes
// the segments one at a time through their own Rows(), and the two converted
// inputs come out right. Whether a row group is converted thus depends on the
// fast-path eligibility of its siblings.
func TestC11F4ControlOneInputAlreadyInTargetSchema(t *testing.T) {
	a := c11f4MillisFile(t, 0, 50)
	b := c11f4MillisFile(t, 50, 100)
	c := c11f4MicrosFile(t, 100, 150)
	rows := c11f4MergeAndWrite(t, a.RowGroups()[0], b.RowGroups()[0], c.RowGroups()[0])
	c11f4Check(t, "WriteRowGroup(MergeRowGroups(millis, millis, micros) -> micros)", rows, 150)
}
