package parquet_test

// Copy into the repository root (package parquet_test), e.g. as
// c19_f3_demo_test.go, and run:
//
//	go test -vet=off -count=1 -run TestC19F3 .

import (
	"bytes"
	"fmt"
	"io"
	"reflect"
	"testing"

	"github.com/parquet-go/parquet-go"
	"github.com/parquet-go/parquet-go/variant"
)

// (a) A map whose values are VARIANT, declared with struct tags only.
type c19f3TagRow struct {
	ID int32          `parquet:"id"`
	Mp map[string]any `parquet:"mp" parquet-value:",variant"`
}

func TestC19F3MapValueVariantTypedRead(t *testing.T) {
	rows := []c19f3TagRow{
		{ID: 1, Mp: map[string]any{"k": int64(5), "j": "s"}},
		{ID: 2, Mp: map[string]any{"o": map[string]any{"a": int64(1)}}},
	}
	buf := new(bytes.Buffer)
	w := parquet.NewGenericWriter[c19f3TagRow](buf)
	if _, err := w.Write(rows); err != nil {
		t.Fatalf("write: %v", err)
	}
	if err := w.Close(); err != nil {
		t.Fatalf("close: %v", err)
	}
	got, err := parquet.Read[c19f3TagRow](bytes.NewReader(buf.Bytes()), int64(buf.Len()))
	if err != nil {
		t.Fatalf("read: %v", err)
	}
	if len(got) != len(rows) {
		t.Fatalf("expected %d rows, actual %d", len(rows), len(got))
	}
	for i := range rows {
		for k, want := range rows[i].Mp {
			if !reflect.DeepEqual(got[i].Mp[k], want) {
				t.Errorf("row %d mp[%q]: expected the variant value %#v (as a top-level `any` variant field reads it), actual %#v",
					i, k, want, got[i].Mp[k])
			}
		}
	}

	// The row path cannot even write it.
	func() {
		defer func() {
			if p := recover(); p != nil {
				t.Errorf("Schema.Deconstruct of the same row: expected a row, actual panic: %v", p)
			}
		}()
		parquet.SchemaOf(c19f3TagRow{}).Deconstruct(nil, &rows[0])
	}()
}

// (b) A map whose values are a SHREDDED variant: a raw variant int64 comes
// back as a variant string holding the int64's encoded bytes.
type c19f3Raw struct {
	Metadata []byte `parquet:"metadata"`
	Value    []byte `parquet:"value"`
}

func c19f3Encode(v variant.Value) c19f3Raw {
	var b variant.MetadataBuilder
	value := variant.Encode(&b, v)
	_, metadata := b.Build()
	return c19f3Raw{Metadata: metadata, Value: value}
}

func TestC19F3MapValueShreddedVariant(t *testing.T) {
	shredded, err := parquet.ShreddedVariant(parquet.String())
	if err != nil {
		t.Fatal(err)
	}
	writeSchema := parquet.NewSchema("table", parquet.Group{
		"id": parquet.Int(32),
		"mp": parquet.Map(parquet.String(), shredded),
	})
	readSchema := parquet.NewSchema("table", parquet.Group{
		"id": parquet.Int(32),
		"mp": parquet.Map(parquet.String(), parquet.Variant()),
	})
	type writeRow struct {
		ID int32          `parquet:"id"`
		Mp map[string]any `parquet:"mp"`
	}
	type readRow struct {
		ID int32               `parquet:"id"`
		Mp map[string]c19f3Raw `parquet:"mp"`
	}

	want := variant.Int64(5)
	buf := new(bytes.Buffer)
	err = func() (err error) {
		defer func() {
			if p := recover(); p != nil {
				err = fmt.Errorf("panic: %v", p)
			}
		}()
		w := parquet.NewGenericWriter[writeRow](buf, writeSchema)
		if _, err := w.Write([]writeRow{{ID: 1, Mp: map[string]any{"k": c19f3Encode(want)}}}); err != nil {
			return err
		}
		return w.Close()
	}()
	if err != nil {
		t.Fatalf("write: %v", err)
	}

	rd := parquet.NewGenericReader[readRow](bytes.NewReader(buf.Bytes()), readSchema)
	defer rd.Close()
	out := make([]readRow, 1)
	if n, err := rd.Read(out); n != 1 || (err != nil && err != io.EOF) {
		t.Fatalf("read: n=%d err=%v", n, err)
	}
	raw := out[0].Mp["k"]
	m, err := variant.DecodeMetadata(raw.Metadata)
	if err != nil {
		t.Fatalf("expected %#v, actual undecodable metadata %x: %v", want.GoValue(), raw.Metadata, err)
	}
	got, err := variant.Decode(m, raw.Value)
	if err != nil {
		t.Fatalf("expected %#v, actual undecodable value %x: %v", want.GoValue(), raw.Value, err)
	}
	if !got.Equal(want) {
		t.Errorf("mp[\"k\"]: expected variant %#v (%T), actual %#v (%T)", want.GoValue(), want.GoValue(), got.GoValue(), got.GoValue())
	}
}
