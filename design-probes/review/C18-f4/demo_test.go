// Copy into the repository root (package directory "."), e.g.
//   cp findings/f4/demo_test.go ./c18_f4_demo_test.go
//   go test -vet=off -count=1 -run TestC18F4 .
package parquet_test

import (
	"bytes"
	"errors"
	"fmt"
	"io"
	"testing"

	"github.com/parquet-go/parquet-go"
)

type c18f4Row struct {
	ID  int64  `parquet:"id"`
	SSN string `parquet:"ssn"`
}

// footer key available, every column key intentionally unavailable (the
// documented ErrKeyNotFound protocol).
type c18f4FooterKeyOnly struct{ footer []byte }

func (k c18f4FooterKeyOnly) FooterKey([]byte) ([]byte, error) { return k.footer, nil }
func (k c18f4FooterKeyOnly) ColumnKey(path []string, _ []byte) ([]byte, error) {
	return nil, fmt.Errorf("no key for %v: %w", path, parquet.ErrKeyNotFound)
}

func c18f4Write(t *testing.T, encryptedFooter bool) ([]byte, []byte) {
	footerKey := bytes.Repeat([]byte{1}, 16)
	colKey := bytes.Repeat([]byte{2}, 16)
	var buf bytes.Buffer
	w := parquet.NewGenericWriter[c18f4Row](&buf, parquet.WithEncryption(&parquet.EncryptionConfig{
		FooterKey:       footerKey,
		ColumnKeys:      map[string][]byte{"id": colKey, "ssn": colKey},
		EncryptedFooter: encryptedFooter,
	}))
	rows := make([]c18f4Row, 100)
	for i := range rows {
		rows[i] = c18f4Row{ID: int64(i), SSN: fmt.Sprintf("ssn-%03d", i)}
	}
	if _, err := w.Write(rows); err != nil {
		t.Fatal(err)
	}
	if err := w.Close(); err != nil {
		t.Fatal(err)
	}
	return buf.Bytes(), footerKey
}

// (a) plaintext-footer mode: reading columns whose key is missing reports a
// clean end-of-data instead of an error: 100 rows become 0 rows + io.EOF.
func TestC18F4MissingColumnKeyReadsAsEmpty(t *testing.T) {
	data, footerKey := c18f4Write(t, false)
	f, err := parquet.OpenFile(bytes.NewReader(data), int64(len(data)), parquet.WithDecryption(c18f4FooterKeyOnly{footerKey}))
	if err != nil {
		t.Fatalf("open: %v", err) // documented to succeed
	}
	if f.NumRows() != 100 {
		t.Fatalf("NumRows=%d", f.NumRows())
	}

	pages := f.Root().Column("ssn").Pages()
	defer pages.Close()
	if _, err := pages.ReadPage(); err == nil || errors.Is(err, io.EOF) {
		t.Errorf("expected: ReadPage on column \"ssn\" (encrypted, key not available) fails with an error; "+
			"actual: err=%v, i.e. the column chunk looks like a valid chunk with no pages", err)
	}

	r := parquet.NewGenericReader[c18f4Row](f)
	defer r.Close()
	rows := make([]c18f4Row, 200)
	n, err := r.Read(rows)
	if err == nil || errors.Is(err, io.EOF) {
		t.Errorf("expected: reading the rows of a file with NumRows=%d without the column keys fails with an error; "+
			"actual: Read returned n=%d err=%v (all rows silently dropped)", f.NumRows(), n, err)
	}
}

// (b) encrypted-footer mode: a plaintext writer copies the still-encrypted
// bytes of such a column chunk verbatim and reports success; the output file
// is corrupt.
func TestC18F4MissingColumnKeyChunkCopiedAsPlaintext(t *testing.T) {
	data, footerKey := c18f4Write(t, true)
	f, err := parquet.OpenFile(bytes.NewReader(data), int64(len(data)), parquet.WithDecryption(c18f4FooterKeyOnly{footerKey}))
	if err != nil {
		t.Fatalf("open: %v", err) // documented to succeed
	}

	var out bytes.Buffer
	w := parquet.NewGenericWriter[c18f4Row](&out) // no encryption
	n, werr := w.WriteRowGroup(f.RowGroups()[0])
	cerr := w.Close()
	if werr != nil || cerr != nil {
		return // expected: the inaccessible column makes the copy fail
	}

	copied := out.Bytes()
	f2, err := parquet.OpenFile(bytes.NewReader(copied), int64(len(copied)))
	if err != nil {
		t.Fatalf("expected: WriteRowGroup fails; actual: it reported %d rows written and the output does not even open: %v", n, err)
	}
	r := parquet.NewGenericReader[c18f4Row](f2)
	defer r.Close()
	rows := make([]c18f4Row, 200)
	m, rerr := r.Read(rows)
	t.Errorf("expected: WriteRowGroup of a row group whose column keys are missing fails with an error; "+
		"actual: WriteRowGroup returned n=%d err=nil, Close err=nil, and the produced plaintext file (NumRows=%d) "+
		"contains the source ciphertext as if it were plain pages: reading it back gives n=%d err=%v",
		n, f2.NumRows(), m, rerr)
}
