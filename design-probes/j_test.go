package exp

import (
	"bytes"
	"errors"
	"fmt"
	"testing"

	"github.com/parquet-go/parquet-go"
)

type failSink struct {
	limit int
	n     int
	short bool
	buf   bytes.Buffer
}

var errSink = errors.New("sink failed")

func (s *failSink) Write(p []byte) (int, error) {
	if s.n+len(p) <= s.limit {
		s.n += len(p)
		s.buf.Write(p)
		return len(p), nil
	}
	k := 0
	if s.short {
		k = s.limit - s.n
		s.buf.Write(p[:k])
		s.n += k
	}
	return k, errSink
}

func writeScenario(out interface{ Write([]byte) (int, error) }, opts ...parquet.WriterOption) (errs []error, panicked any) {
	defer func() { panicked = recover() }()
	rows := make([]S, 400)
	for i := range rows {
		rows[i] = S{Name: fmt.Sprintf("name-%03d", i%50), N: int64(i)}
	}
	w := parquet.NewGenericWriter[S](out, opts...)
	for i := 0; i < len(rows); i += 100 {
		_, err := w.Write(rows[i : i+100])
		errs = append(errs, err)
		if i == 100 {
			errs = append(errs, w.Flush())
		}
	}
	errs = append(errs, w.Close())
	return
}

func TestSinkSweep(t *testing.T) {
	for name, opts := range map[string][]parquet.WriterOption{
		"default":     {parquet.PageBufferSize(256)},
		"nobuf":       {parquet.PageBufferSize(256), parquet.WriteBufferSize(0)},
		"bloom+defer": {parquet.PageBufferSize(256), parquet.BloomFilters(parquet.SplitBlockFilter(10, "name")), parquet.DeferBloomFiltersWithBuffers(parquet.NewBufferPool())},
		"filebuf":     {parquet.PageBufferSize(256), parquet.ColumnPageBuffers(parquet.NewFileBufferPool("", "vp.*")), parquet.WriteBufferSize(0)},
	} {
		var clean bytes.Buffer
		errs, p := writeScenario(&clean, opts...)
		for _, e := range errs {
			if e != nil || p != nil {
				t.Fatalf("clean run failed: %v %v", e, p)
			}
		}
		n := clean.Len()
		silent, panics := 0, 0
		var firstSilent []int
		for _, short := range []bool{false, true} {
			for k := 0; k < n; k++ {
				s := &failSink{limit: k, short: short}
				errs, p := writeScenario(s, opts...)
				if p != nil {
					panics++
					continue
				}
				any := false
				for _, e := range errs {
					if e != nil {
						any = true
					}
				}
				if !any {
					silent++
					if len(firstSilent) < 5 {
						firstSilent = append(firstSilent, k)
					}
				}
			}
		}
		t.Logf("%s: size=%d silent=%d panics=%d firstSilent=%v", name, n, silent, panics, firstSilent)
	}
}
