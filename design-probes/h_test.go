package exp

import (
	"bytes"
	"fmt"
	"testing"

	"github.com/parquet-go/parquet-go"
	"github.com/parquet-go/parquet-go/deprecated"
)

type BF struct {
	B   bool             `parquet:"b"`
	I32 int32            `parquet:"i32"`
	I64 int64            `parquet:"i64"`
	I96 deprecated.Int96 `parquet:"i96"`
	F   float32          `parquet:"f"`
	D   float64          `parquet:"d"`
	S   string           `parquet:"s"`
	SD  string           `parquet:"sd,dict"`
	F16 [16]byte         `parquet:"f16"`
	F5  [5]byte          `parquet:"f5"`
	OS  *string          `parquet:"os,optional"`
	LS  []string         `parquet:"ls,list"`
}

func TestBloomAllTypes(t *testing.T) {
	cols := [][]string{{"b"}, {"i32"}, {"i64"}, {"i96"}, {"f"}, {"d"}, {"s"}, {"sd"}, {"f16"}, {"f5"}, {"os"}, {"ls", "list", "element"}}
	var filters []parquet.BloomFilterColumn
	for _, c := range cols {
		filters = append(filters, parquet.SplitBlockFilter(10, c...))
	}
	rows := make([]BF, 300)
	for i := range rows {
		s := fmt.Sprintf("str-%d", i)
		rows[i] = BF{B: i%3 == 0, I32: int32(i * 7), I64: int64(i) * 1e10, I96: deprecated.Int96{uint32(i), 2, 3}, F: float32(i) / 3, D: float64(i) / 7, S: s, SD: fmt.Sprintf("d%d", i%9)}
		rows[i].F16[3] = byte(i)
		rows[i].F16[15] = byte(i >> 8)
		rows[i].F5[1] = byte(i)
		if i%2 == 0 {
			rows[i].OS = &s
		}
		rows[i].LS = []string{s + "a", s + "b"}
	}
	for _, variant := range []string{"default", "v1+snappy+smallpages"} {
		var b bytes.Buffer
		opts := []parquet.WriterOption{parquet.BloomFilters(filters...)}
		if variant != "default" {
			opts = append(opts, parquet.DataPageVersion(1), parquet.Compression(&parquet.Snappy), parquet.PageBufferSize(512))
		}
		w := parquet.NewGenericWriter[BF](&b, opts...)
		w.Write(rows)
		if err := w.Close(); err != nil {
			t.Fatal(err)
		}
		f := openBytes(t, b.Bytes())
		rg := f.RowGroups()[0]
		// check every value read back from each column against the chunk filter
		for ci, cc := range rg.ColumnChunks() {
			bf := cc.BloomFilter()
			if bf == nil {
				t.Logf("%s col %d: no filter", variant, ci)
				continue
			}
			vr := parquet.NewColumnChunkValueReader(cc)
			buf := make([]parquet.Value, 1000)
			n, _ := vr.ReadValues(buf)
			miss := 0
			for _, v := range buf[:n] {
				if v.IsNull() {
					continue
				}
				ok, err := bf.Check(v)
				if err != nil {
					t.Fatal(err)
				}
				if !ok {
					miss++
				}
			}
			t.Logf("%s col %d (%s): values=%d falseNegatives=%d", variant, ci, cc.Type(), n, miss)
			vr.Close()
		}
	}
}
