package exp

import (
	"bytes"
	"crypto/sha256"
	"sync"
	"testing"

	"github.com/parquet-go/parquet-go"
)

func TestConcurrentWriters(t *testing.T) {
	rows := mkRows(3000)
	schema := parquet.SchemaOf(C{})
	// per-column values
	prows := make([]parquet.Row, len(rows))
	for i := range rows {
		prows[i] = schema.Deconstruct(nil, &rows[i])
	}
	ncol := len(schema.Columns())
	colvals := make([][]parquet.Value, ncol)
	for _, r := range prows {
		for _, v := range r {
			colvals[v.Column()] = append(colvals[v.Column()], v)
		}
	}
	opts := []parquet.WriterOption{schema, parquet.PageBufferSize(1024), parquet.Compression(&parquet.Snappy), parquet.BloomFilters(parquet.SplitBlockFilter(10, "name"))}
	serial := func() [32]byte {
		var b bytes.Buffer
		w := parquet.NewGenericWriter[C](&b, opts...)
		for i, c := range w.ColumnWriters() {
			if _, err := c.WriteRowValues(colvals[i]); err != nil {
				t.Fatal(err)
			}
			c.Close()
		}
		if err := w.Close(); err != nil {
			t.Fatal(err)
		}
		return sha256.Sum256(b.Bytes())
	}()
	for it := 0; it < 10; it++ {
		var b bytes.Buffer
		w := parquet.NewGenericWriter[C](&b, opts...)
		var wg sync.WaitGroup
		for i, c := range w.ColumnWriters() {
			wg.Add(1)
			go func(i int, c *parquet.ColumnWriter) {
				defer wg.Done()
				if _, err := c.WriteRowValues(colvals[i]); err != nil {
					t.Error(err)
				}
				if err := c.Close(); err != nil {
					t.Error(err)
				}
			}(i, c)
		}
		wg.Wait()
		if err := w.Close(); err != nil {
			t.Fatal(err)
		}
		if sha256.Sum256(b.Bytes()) != serial {
			t.Errorf("parallel column write differs from serial")
		}
	}
	// concurrent row groups
	serialRG := func() [32]byte {
		var b bytes.Buffer
		w := parquet.NewGenericWriter[C](&b, opts...)
		for k := 0; k < 3; k++ {
			w.Write(rows[k*1000 : (k+1)*1000])
			w.Flush()
		}
		w.Close()
		return sha256.Sum256(b.Bytes())
	}()
	for it := 0; it < 10; it++ {
		var b bytes.Buffer
		w := parquet.NewGenericWriter[C](&b, opts...)
		rgs := make([]*parquet.ConcurrentRowGroupWriter, 3)
		var wg sync.WaitGroup
		for k := range rgs {
			rgs[k] = w.BeginRowGroup()
			wg.Add(1)
			go func(k int) {
				defer wg.Done()
				if _, err := rgs[k].WriteRows(prows[k*1000 : (k+1)*1000]); err != nil {
					t.Error(err)
				}
			}(k)
		}
		wg.Wait()
		for _, rg := range rgs {
			if _, err := rg.Commit(); err != nil {
				t.Fatal(err)
			}
		}
		w.Close()
		if sha256.Sum256(b.Bytes()) != serialRG {
			t.Errorf("concurrent row groups differ from serial flush")
		}
	}
}
