package exp

import (
	"bytes"
	"math/rand"
	"sync"
	"testing"

	"github.com/parquet-go/parquet-go"
	"github.com/parquet-go/parquet-go/compress"
)

func TestCodecHistories(t *testing.T) {
	codecs := map[string]compress.Codec{"snappy": &parquet.Snappy, "gzip": &parquet.Gzip, "brotli": &parquet.Brotli, "zstd": &parquet.Zstd, "lz4": &parquet.Lz4Raw, "none": &parquet.Uncompressed}
	rng := rand.New(rand.NewSource(1))
	inputs := [][]byte{{}, {1}, bytes.Repeat([]byte{0}, 70000), bytes.Repeat([]byte("abcdefgh"), 3000)}
	rnd := make([]byte, 50000)
	rng.Read(rnd)
	inputs = append(inputs, rnd)
	for name, c := range codecs {
		bad, panics := 0, 0
		var dst []byte
		for step := 0; step < 400; step++ {
			x := inputs[rng.Intn(len(inputs))]
			func() {
				defer func() {
					if r := recover(); r != nil {
						panics++
						if panics < 3 {
							t.Logf("%s step %d panic: %v", name, step, r)
						}
					}
				}()
				enc, err := c.Encode(dst[:0], x)
				if err != nil {
					t.Logf("%s encode err %v", name, err)
					return
				}
				enc = bytes.Clone(enc)
				if name != "lz4" && name != "none" && step%3 == 0 && len(enc) > 4 {
					// failing decode first
					garbage := bytes.Clone(enc)
					switch rng.Intn(3) {
					case 0:
						garbage = garbage[:len(garbage)/2]
					case 1:
						garbage[len(garbage)/2] ^= 0x40
					case 2:
						rng.Read(garbage)
					}
					c.Decode(nil, garbage)
				}
				var d []byte
				switch rng.Intn(3) {
				case 0:
					d = nil
				case 1:
					d = make([]byte, 0, len(x))
				case 2:
					d = make([]byte, 3, 10)
				}
				dec, err := c.Decode(d, enc)
				if err != nil || !bytes.Equal(dec, x) {
					bad++
					if bad < 3 {
						t.Logf("%s step %d: roundtrip mismatch err=%v len(x)=%d len(dec)=%d", name, step, err, len(x), len(dec))
					}
				}
				dst = enc
			}()
		}
		t.Logf("%s: bad=%d panics=%d", name, bad, panics)
	}
	// concurrency smoke
	var wg sync.WaitGroup
	for g := 0; g < 8; g++ {
		wg.Add(1)
		go func(g int) {
			defer wg.Done()
			for name, c := range codecs {
				for i := 0; i < 30; i++ {
					x := inputs[(g+i)%len(inputs)]
					enc, _ := c.Encode(nil, x)
					dec, err := c.Decode(nil, enc)
					if err != nil || !bytes.Equal(dec, x) {
						t.Errorf("%s concurrent mismatch", name)
					}
				}
			}
		}(g)
	}
	wg.Wait()
}
