package exp

import (
	"bytes"
	"errors"
	"fmt"
	"io"
	"sort"
	"testing"

	"github.com/parquet-go/parquet-go"
)

type S struct {
	Name string `parquet:"name,dict"`
	N    int64  `parquet:"n"`
}

// F3: corrupt the dictionary page body; read after a seek (lazy dictionary load)
func TestDictCorruptionAfterSeek(t *testing.T) {
	rows := make([]S, 3000)
	for i := range rows {
		rows[i] = S{Name: fmt.Sprintf("name-%03d", i%50), N: int64(i)}
	}
	var src bytes.Buffer
	w := parquet.NewGenericWriter[S](&src, parquet.PageBufferSize(1024))
	w.Write(rows)
	if err := w.Close(); err != nil {
		t.Fatal(err)
	}
	b := src.Bytes()
	f, _ := parquet.OpenFile(bytes.NewReader(b), int64(len(b)))
	md := f.Metadata().RowGroups[0].Columns[0].MetaData
	t.Logf("dict off=%d data off=%d codec=%v", md.DictionaryPageOffset, md.DataPageOffset, md.Codec)
	// flip a bit near the end of the dictionary page (inside body)
	pos := md.DataPageOffset - 3
	c := bytes.Clone(b)
	c[pos] ^= 0x01
	f2, err := parquet.OpenFile(bytes.NewReader(c), int64(len(c)))
	if err != nil {
		t.Fatalf("open: %v", err)
	}
	// sequential
	{
		r := parquet.NewGenericReader[S](f2)
		out := make([]S, 10)
		n, err := r.Read(out)
		t.Logf("sequential: n=%d err=%v", n, err)
		r.Close()
	}
	// seek then read
	{
		r := parquet.NewGenericReader[S](f2)
		if err := r.SeekToRow(2000); err != nil {
			t.Logf("seek err %v", err)
		}
		out := make([]S, 1000)
		n, err := r.Read(out)
		diff := 0
		for i := 0; i < n; i++ {
			if out[i] != rows[2000+i] {
				diff++
			}
		}
		t.Logf("seek+read: n=%d err=%v isCorrupted=%v rowsDiffering=%d", n, err, errors.Is(err, parquet.ErrCorrupted), diff)
		r.Close()
	}
}

type K struct {
	K *int64 `parquet:"k,optional"`
	V int64  `parquet:"v"`
}

func writeSorted(t *testing.T, rows []K, opts ...parquet.WriterOption) *parquet.File {
	var buf bytes.Buffer
	w := parquet.NewGenericWriter[K](&buf, opts...)
	w.Write(rows)
	if err := w.Close(); err != nil {
		t.Fatal(err)
	}
	f, err := parquet.OpenFile(bytes.NewReader(buf.Bytes()), int64(buf.Len()))
	if err != nil {
		t.Fatal(err)
	}
	return f
}

// F4: nullable sort key, nulls last; A=[1,2,null,null] B=[3,4]
func TestMergeNullableKeys(t *testing.T) {
	sc := parquet.SortingWriterConfig(parquet.SortingColumns(parquet.Ascending("k")))
	a := writeSorted(t, []K{{p(1), 1}, {p(2), 2}, {nil, 3}, {nil, 4}}, sc)
	b := writeSorted(t, []K{{p(3), 5}, {p(4), 6}}, sc)
	t.Logf("a sorting=%v b sorting=%v", a.RowGroups()[0].SortingColumns(), b.RowGroups()[0].SortingColumns())
	m, err := parquet.MergeRowGroups([]parquet.RowGroup{a.RowGroups()[0], b.RowGroups()[0]})
	if err != nil {
		t.Fatal(err)
	}
	dump(t, "merged", m.Rows())
	t.Logf("merged type %T sorting=%v", m, m.SortingColumns())
}

// F5: sorting columns recorded from row group when writer has none
func TestRowGroupSortingRecorded(t *testing.T) {
	b := parquet.NewGenericBuffer[K](parquet.SortingRowGroupConfig(parquet.SortingColumns(parquet.Ascending("v"))))
	b.Write([]K{{p(1), 3}, {p(2), 2}, {nil, 1}})
	sort.Sort(b)
	var out bytes.Buffer
	w := parquet.NewGenericWriter[K](&out)
	if _, err := w.WriteRowGroup(b); err != nil {
		t.Fatal(err)
	}
	w.Close()
	f, _ := parquet.OpenFile(bytes.NewReader(out.Bytes()), int64(out.Len()))
	t.Logf("row group sorting columns recorded: %v (metadata %v)", f.RowGroups()[0].SortingColumns(), f.Metadata().RowGroups[0].SortingColumns)
}

var _ = io.EOF
