package vr

import (
	"bytes"
	"fmt"
	"io"
	"math/rand/v2"
	"testing"

	"github.com/google/uuid"
	"github.com/parquet-go/parquet-go"
	"github.com/parquet-go/parquet-go/variant"
)

type rawVariant struct {
	Metadata []byte `parquet:"metadata"`
	Value    []byte `parquet:"value"`
}

type rawVariantRow struct {
	ID  int32      `parquet:"id"`
	Var rawVariant `parquet:"var,variant"`
}

func decodeRawVariant(raw rawVariant) (variant.Value, error) {
	m, err := variant.DecodeMetadata(raw.Metadata)
	if err != nil {
		return variant.Null(), fmt.Errorf("metadata: %w", err)
	}
	return variant.Decode(m, raw.Value)
}

type shreddedVariantRow struct {
	ID  int32 `parquet:"id"`
	Var any   `parquet:"var,variant"`
}

var shredFieldNames = [...]string{"a", "b", "c", "d"}

// randomShredNode generates a random typed_value schema node covering the
// full shredded-types table plus LIST and object groups.
func randomShredNode(r *rand.Rand, depth int) parquet.Node {
	if depth < 2 {
		switch r.IntN(8) {
		case 0:
			return parquet.List(randomShredNode(r, depth+1))
		case 1, 2:
			g := parquet.Group{}
			for _, name := range shredFieldNames {
				if r.IntN(2) == 0 {
					g[name] = randomShredNode(r, depth+1)
				}
			}
			if len(g) == 0 { // empty object typed_value groups are invalid
				g[shredFieldNames[r.IntN(len(shredFieldNames))]] = randomShredNode(r, depth+1)
			}
			return g
		}
	}
	switch r.IntN(17) {
	case 0:
		return parquet.Leaf(parquet.BooleanType)
	case 1:
		return parquet.Int(8)
	case 2:
		return parquet.Int(16)
	case 3:
		return parquet.Int(32)
	case 4:
		return parquet.Int(64)
	case 5:
		return parquet.Leaf(parquet.FloatType)
	case 6:
		return parquet.Leaf(parquet.DoubleType)
	case 7:
		return parquet.String()
	case 8:
		return parquet.Leaf(parquet.ByteArrayType)
	case 9:
		return parquet.Date()
	case 10:
		return parquet.UUID()
	case 11:
		return parquet.TimestampAdjusted(parquet.Microsecond, r.IntN(2) == 0)
	case 12:
		return parquet.TimestampAdjusted(parquet.Nanosecond, r.IntN(2) == 0)
	case 13:
		return parquet.TimeAdjusted(parquet.Microsecond, false) // spec: TIME(false, MICROS)
	case 14:
		return parquet.Decimal(2, 9, parquet.Int32Type)
	case 15:
		return parquet.Decimal(2, 18, parquet.Int64Type)
	default:
		return parquet.Decimal(2, 38, parquet.FixedLenByteArrayType(16))
	}
}

// randomVariant generates a random variant value from the same pools, so
// it sometimes matches a generated schema exactly, sometimes partially,
// and sometimes not at all.
func randomVariant(r *rand.Rand, depth int) variant.Value {
	if depth < 3 {
		switch r.IntN(6) {
		case 0:
			elems := make([]variant.Value, r.IntN(4))
			for i := range elems {
				elems[i] = randomVariant(r, depth+1)
			}
			return variant.MakeArray(elems)
		case 1:
			var fields []variant.Field
			for _, name := range shredFieldNames {
				if r.IntN(2) == 0 {
					fields = append(fields, variant.Field{Name: name, Value: randomVariant(r, depth+1)})
				}
			}
			if r.IntN(4) == 0 {
				fields = append(fields, variant.Field{Name: "resid", Value: randomVariant(r, depth+1)})
			}
			return variant.MakeObject(fields)
		}
	}
	switch r.IntN(17) {
	case 0:
		return variant.Null()
	case 1:
		return variant.Bool(r.IntN(2) == 0)
	case 2:
		return variant.Int8(int8(r.IntN(1 << 8)))
	case 3:
		return variant.Int16(int16(r.IntN(1 << 16)))
	case 4:
		return variant.Int32(int32(r.Uint32()))
	case 5:
		return variant.Int64(int64(r.Uint64()))
	case 6:
		return variant.Float(float32(r.NormFloat64()))
	case 7:
		return variant.Double(r.NormFloat64())
	case 8:
		n := r.IntN(80) // crosses the 63-byte short-string boundary
		b := make([]byte, n)
		for i := range b {
			b[i] = byte('a' + r.IntN(26))
		}
		return variant.String(string(b))
	case 9:
		b := make([]byte, r.IntN(20))
		for i := range b {
			b[i] = byte(r.Uint32())
		}
		return variant.Binary(b)
	case 10:
		return variant.Date(int32(r.IntN(40000)))
	case 11:
		var u uuid.UUID
		for i := range u {
			u[i] = byte(r.Uint32())
		}
		return variant.UUID(u)
	case 12:
		ts := int64(r.Uint64() >> 20)
		switch r.IntN(4) {
		case 0:
			return variant.Timestamp(ts)
		case 1:
			return variant.TimestampNTZ(ts)
		case 2:
			return variant.TimestampNanos(ts)
		default:
			return variant.TimestampNTZNanos(ts)
		}
	case 13:
		return variant.Time(int64(r.IntN(86400_000_000)))
	case 14:
		// Scale 2 matches the generated decimal columns; scale 3 must
		// fall back to the value column.
		return variant.Decimal4(int32(r.Uint32()), byte(2+r.IntN(2)))
	case 15:
		return variant.Decimal8(int64(r.Uint64()), byte(2+r.IntN(2)))
	default:
		var d [16]byte
		for i := range d {
			d[i] = byte(r.Uint32())
		}
		return variant.Decimal16(d, byte(2+r.IntN(2)))
	}
}

func encodeRawVariant(v variant.Value) rawVariant {
	var b variant.MetadataBuilder
	value := variant.Encode(&b, v)
	_, metadata := b.Build()
	return rawVariant{Metadata: metadata, Value: value}
}



func TestVariantMany(t *testing.T) {
	r := rand.New(rand.NewPCG(12345, 678))
	fails, panics, total := 0, 0, 0
	for s := 0; s < 1500; s++ {
		shred := randomShredNode(r, 0)
		values := make([]variant.Value, 6)
		for i := range values {
			values[i] = randomVariant(r, 0)
		}
		func() {
			defer func() {
				if p := recover(); p != nil {
					panics++
					if panics <= 3 {
						t.Logf("PANIC schema %d: %v", s, p)
					}
				}
			}()
			node, err := parquet.ShreddedVariant(shred)
			if err != nil {
				t.Logf("shredded variant err: %v", err)
				return
			}
			schema := parquet.NewSchema("table", parquet.Group{"id": parquet.Int(32), "var": node})
			rows := make([]shreddedVariantRow, len(values))
			for i, v := range values {
				rows[i] = shreddedVariantRow{ID: int32(i), Var: encodeRawVariant(v)}
			}
			buf := new(bytes.Buffer)
			w := parquet.NewGenericWriter[shreddedVariantRow](buf, schema)
			if _, err := w.Write(rows); err != nil {
				fails++
				if fails <= 5 { t.Logf("write err: %v", err) }
				return
			}
			if err := w.Close(); err != nil {
				fails++
				if fails <= 5 { t.Logf("close err: %v", err) }
				return
			}
			// read: convert
			got, err := parquet.Read[rawVariantRow](bytes.NewReader(buf.Bytes()), int64(buf.Len()))
			if err != nil && err != io.EOF {
				fails++
				if fails <= 5 { t.Logf("read err: %v\nschema:\n%s", err, schema) }
				return
			}
			for i, want := range values {
				total++
				if i >= len(got) { fails++; continue }
				d, err := decodeRawVariant(got[i].Var)
				if err != nil || !d.Equal(want) {
					fails++
					if fails <= 5 {
						t.Logf("MISMATCH schema %d row %d err=%v\n got: %#v\nwant: %#v\nschema:\n%s", s, i, err, d.GoValue(), want.GoValue(), schema)
					}
				}
			}
		}()
	}
	t.Logf("total=%d fails=%d panics=%d", total, fails, panics)
}

var _ = uuid.Nil
