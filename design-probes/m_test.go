package exp

import (
	"bytes"
	"fmt"
	"testing"

	"github.com/parquet-go/parquet-go"
)

type OL struct {
	L  []int64         `parquet:"l,list,optional"`
	R  []int64         `parquet:"r"`
	RO []int64         `parquet:"ro,optional"`
	LL [][]int64       `parquet:"ll,list"`
	M  map[string]int64 `parquet:"m,optional"`
}

func streams(t *testing.T, rows parquet.Rows) string {
	buf := make([]parquet.Row, 10)
	n, _ := rows.ReadRows(buf)
	s := ""
	for _, r := range buf[:n] {
		s += "\n    "
		for _, v := range r {
			s += fmt.Sprintf("c%d:%v(r%d,d%d) ", v.Column(), v, v.RepetitionLevel(), v.DefinitionLevel())
		}
	}
	return s
}

func TestNilEmptyPaths(t *testing.T) {
	rows := []OL{
		{},
		{L: []int64{}, R: []int64{}, RO: []int64{}, LL: [][]int64{}, M: map[string]int64{}},
		{L: []int64{1}, R: []int64{0}, RO: []int64{0, 5}, LL: [][]int64{nil, {}, {7}}, M: map[string]int64{"a": 0}},
	}
	var b bytes.Buffer
	w := parquet.NewGenericWriter[OL](&b)
	w.Write(rows)
	w.Close()
	f := openBytes(t, b.Bytes())
	t.Logf("schema:\n%s", f.Schema())
	t.Logf("typed: %s", streams(t, f.RowGroups()[0].Rows()))
	var b2 bytes.Buffer
	w2 := parquet.NewWriter(&b2, parquet.SchemaOf(OL{}))
	for _, r := range rows {
		if err := w2.Write(r); err != nil {
			t.Fatal(err)
		}
	}
	w2.Close()
	f2 := openBytes(t, b2.Bytes())
	t.Logf("reflect: %s", streams(t, f2.RowGroups()[0].Rows()))
}
