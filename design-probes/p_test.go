package exp

import (
	"bytes"
	"encoding/binary"
	"fmt"
	"strings"
	"testing"

	"github.com/parquet-go/parquet-go"
)

type kr struct {
	footer []byte
	cols   map[string][]byte
}

func (k *kr) FooterKey([]byte) ([]byte, error) { return k.footer, nil }
func (k *kr) ColumnKey(path []string, _ []byte) ([]byte, error) {
	if key, ok := k.cols[strings.Join(path, ".")]; ok {
		return key, nil
	}
	return k.footer, nil
}

func key(b byte) []byte { return bytes.Repeat([]byte{b}, 16) }

type E struct {
	Name  string `parquet:"name"`
	Value int64  `parquet:"value"`
}

func TestEncProbe(t *testing.T) {
	rows := make([]E, 600)
	for i := range rows {
		rows[i] = E{Name: fmt.Sprintf("SECRETMARKER-%06d-XYZ", i), Value: 0x5151515100000000 + int64(i)}
	}
	keys := &kr{footer: key(1), cols: map[string][]byte{"name": key(2)}}
	for _, encFooter := range []bool{true, false} {
		cfg := &parquet.EncryptionConfig{FooterKey: key(1), ColumnKeys: map[string][]byte{"name": key(2)}, EncryptedFooter: encFooter}
		var b1, b2 bytes.Buffer
		w := parquet.NewGenericWriter[E](&b1, parquet.WithEncryption(cfg), parquet.PageBufferSize(1024), parquet.MaxRowsPerRowGroup(250))
		w.Write(rows)
		if err := w.Close(); err != nil {
			t.Fatal(err)
		}
		w.Reset(&b2)
		w.Write(rows)
		if err := w.Close(); err != nil {
			t.Fatal(err)
		}
		for i, b := range [][]byte{b1.Bytes(), b2.Bytes()} {
			f, err := parquet.OpenFile(bytes.NewReader(b), int64(len(b)), parquet.WithDecryption(keys))
			if err != nil {
				t.Logf("encFooter=%v file%d open err: %v", encFooter, i, err)
				continue
			}
			got, err, p := func() (g []E, err error, p any) {
				defer func() { p = recover() }()
				r := parquet.NewGenericReader[E](f)
				g = make([]E, 600)
				n, err := r.Read(g)
				return g[:n], err, nil
			}()
			same := len(got) == len(rows)
			for j := range got {
				if got[j] != rows[j] {
					same = false
				}
			}
			t.Logf("encFooter=%v file%d: rows=%d same=%v err=%v panic=%v leakName=%v leakValue=%v", encFooter, i, len(got), same, err, p,
				bytes.Contains(b, []byte("SECRETMARKER")), bytes.Contains(b, binary.LittleEndian.AppendUint64(nil, 0x5151515100000005)))
		}
	}
}
