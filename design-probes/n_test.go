package exp

import (
	"bytes"
	"fmt"
	"io"
	"sync"
	"testing"

	"github.com/parquet-go/parquet-go"
)

type C struct {
	ID   int64    `parquet:"id"`
	Name string   `parquet:"name,dict"`
	Tags []string `parquet:"tags,list"`
	Opt  *float64 `parquet:"opt,optional"`
}

func mkRows(n int) []C {
	rows := make([]C, n)
	for i := range rows {
		f := float64(i) / 3
		rows[i] = C{ID: int64(i), Name: fmt.Sprintf("n%d", i%37), Tags: []string{fmt.Sprintf("t%d", i), "x"}}
		if i%3 != 0 {
			rows[i].Opt = &f
		}
	}
	return rows
}

func TestConcurrentProbe(t *testing.T) {
	rows := mkRows(5000)
	var b bytes.Buffer
	w := parquet.NewGenericWriter[C](&b, parquet.PageBufferSize(2048), parquet.MaxRowsPerRowGroup(1500),
		parquet.BloomFilters(parquet.SplitBlockFilter(10, "name")), parquet.Compression(&parquet.Zstd))
	w.Write(rows)
	w.Close()
	for _, mode := range []parquet.ReadMode{parquet.ReadModeSync, parquet.ReadModeAsync} {
		f, err := parquet.OpenFile(bytes.NewReader(b.Bytes()), int64(b.Len()), parquet.FileReadMode(mode), parquet.SkipPageIndex(true), parquet.SkipBloomFilters(true))
		if err != nil {
			t.Fatal(err)
		}
		var wg sync.WaitGroup
		for g := 0; g < 16; g++ {
			wg.Add(1)
			go func(g int) {
				defer wg.Done()
				for it := 0; it < 5; it++ {
					switch g % 4 {
					case 0:
						r := parquet.NewGenericReader[C](f)
						out := make([]C, 700)
						total := 0
						for {
							n, err := r.Read(out)
							for i := 0; i < n; i++ {
								if out[i].ID != int64(total+i) {
									t.Errorf("row mismatch")
								}
							}
							total += n
							if err != nil {
								if err != io.EOF {
									t.Error(err)
								}
								break
							}
						}
						if total != len(rows) {
							t.Errorf("total %d", total)
						}
						r.Close()
					case 1:
						for _, rg := range f.RowGroups() {
							for _, cc := range rg.ColumnChunks() {
								cc.ColumnIndex()
								cc.OffsetIndex()
								if bf := cc.BloomFilter(); bf != nil {
									bf.Check(parquet.ValueOf("n3"))
								}
							}
						}
					case 2:
						rg := f.RowGroups()[g%len(f.RowGroups())]
						rr := rg.Rows()
						rr.SeekToRow(int64(100 * it))
						buf := make([]parquet.Row, 50)
						rr.ReadRows(buf)
						rr.Close()
					case 3:
						var ob bytes.Buffer
						ww := parquet.NewGenericWriter[C](&ob, parquet.Compression(&parquet.Zstd))
						ww.Write(rows[:500])
						ww.Close()
					}
				}
			}(g)
		}
		wg.Wait()
	}
}
