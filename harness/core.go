// Command harness is the child process of the verification driver (cmd/vcheck).
// It runs a contiguous range of PRNG-determined cases of one property against
// the real library (built from /repo's working tree with -tags verif) and
// appends one JSON record before and one after every case to the event log, so
// that a fatal crash is attributed to the case that was open.
package main

import (
	"crypto/sha256"
	"encoding/hex"
	"encoding/json"
	"flag"
	"fmt"
	"os"
	"runtime"
	"runtime/debug"
	"sort"
	"strings"
	"sync"
	"sync/atomic"

	"verif/gen"
)

// Violation is one refuting observation.
type Violation struct {
	Detector string         `json:"detector"`
	Keys     map[string]any `json:"keys,omitempty"`
	Msg      string         `json:"msg"`
}

// Ctx is what a case sees.
type Ctx struct {
	Prop    string
	Tier    string
	Seed    uint64
	Case    int
	Variant string
	R       *gen.Rand

	mu      sync.Mutex
	desc    map[string]any
	obs     map[string]int64
	viols   []Violation
	dig     map[string]string
	trivial bool
	extra   map[string]any
}

func (c *Ctx) Thorough() bool { return c.Tier == "thorough" }

// D records a descriptor key of the case (goes to evidence samples / replay).
func (c *Ctx) D(k string, v any) {
	c.mu.Lock()
	c.desc[k] = v
	c.mu.Unlock()
}

// Obs adds to a named observation counter.
func (c *Ctx) Obs(name string, n int) {
	c.mu.Lock()
	c.obs[name] += int64(n)
	c.mu.Unlock()
}

// Fail records a violation. keys is the narrow witness descriptor that
// known_findings.json entries are matched against.
func (c *Ctx) Fail(detector string, keys map[string]any, format string, args ...any) {
	msg := fmt.Sprintf(format, args...)
	if len(msg) > 4000 {
		msg = msg[:4000] + "…"
	}
	c.mu.Lock()
	if len(c.viols) < 20 {
		c.viols = append(c.viols, Violation{Detector: detector, Keys: keys, Msg: msg})
	}
	c.mu.Unlock()
}

func (c *Ctx) Failed() bool {
	c.mu.Lock()
	defer c.mu.Unlock()
	return len(c.viols) > 0
}

// Digest records a digest to be joined across build variants / histories.
func (c *Ctx) Digest(name string, b []byte) {
	h := sha256.Sum256(b)
	c.mu.Lock()
	c.dig[name] = hex.EncodeToString(h[:8])
	c.mu.Unlock()
}

// Heavy tells the watchdog that this case runs many goroutines at full speed.
func (c *Ctx) Heavy() { heavyCase.Store(1) }

// Trivial marks the case as not counting towards distinct_nontrivial.
func (c *Ctx) Trivial() { c.trivial = true }

// Extra attaches a bulky witness (e.g. a whole recorded history) to the end record.
func (c *Ctx) Extra(k string, v any) {
	c.mu.Lock()
	if c.extra == nil {
		c.extra = map[string]any{}
	}
	c.extra[k] = v
	c.mu.Unlock()
}

// Prop is a registered property workload.
type PropDef struct {
	ID          string
	Level       string // exploration | fault_enumeration
	Cases       func(tier string) int
	Batch       func(tier string) int // cases per child
	Floors      []string              // observation counters that must be >0 over the run (else inconclusive)
	Rule        string
	Assumptions []string
	Run         func(c *Ctx)
}

var curCase atomic.Int64

var registry = map[string]*PropDef{}

func register(p *PropDef) { registry[p.ID] = p }

type record struct {
	T       string            `json:"t"`
	Case    int               `json:"case"`
	Variant string            `json:"variant,omitempty"`
	Desc    map[string]any    `json:"desc,omitempty"`
	Key     string            `json:"key,omitempty"`
	Trivial bool              `json:"trivial,omitempty"`
	Obs     map[string]int64  `json:"obs,omitempty"`
	Viols   []Violation       `json:"viols,omitempty"`
	Dig     map[string]string `json:"dig,omitempty"`
	Extra   map[string]any    `json:"extra,omitempty"`
}

func topRepoFrame(stack string) string {
	// first frame inside the library (file path under /repo/), function name only.
	lines := strings.Split(stack, "\n")
	for i := 0; i+1 < len(lines); i++ {
		if strings.Contains(lines[i+1], "/repo/") && !strings.HasPrefix(lines[i], "\t") {
			fn := lines[i]
			if j := strings.LastIndex(fn, "("); j > 0 {
				fn = fn[:j]
			}
			if j := strings.LastIndex(fn, "/"); j >= 0 {
				fn = fn[j+1:]
			}
			return fn
		}
	}
	return ""
}

// guard runs f and converts a panic into a violation of the given detector.
func (c *Ctx) guard(detector string, keys map[string]any, f func()) (panicked bool) {
	defer func() {
		if r := recover(); r != nil {
			st := string(debug.Stack())
			k := map[string]any{"func": topRepoFrame(st)}
			for a, b := range keys {
				k[a] = b
			}
			c.Fail(detector, k, "panic: %v\n%s", r, trimStack(st))
			panicked = true
		}
	}()
	f()
	return false
}

func trimStack(s string) string {
	if len(s) > 2500 {
		return s[:2500]
	}
	return s
}

func main() {
	prop := flag.String("prop", "", "property id")
	tier := flag.String("tier", "quick", "quick|thorough")
	seed := flag.Uint64("seed", 1, "VERIF_SEED")
	from := flag.Int("from", 0, "first case")
	to := flag.Int("to", -1, "one past last case")
	out := flag.String("log", "", "event log (JSONL, appended)")
	variant := flag.String("variant", "std", "build/run variant name (informational)")
	describe := flag.Bool("describe", false, "print the property's description as JSON and exit")
	flag.Parse()
	maybePrintSchemas()

	p := registry[*prop]
	if p == nil {
		ids := []string{}
		for k := range registry {
			ids = append(ids, k)
		}
		sort.Strings(ids)
		fmt.Fprintf(os.Stderr, "unknown property %q (have %v)\n", *prop, ids)
		os.Exit(2)
	}
	if *describe {
		json.NewEncoder(os.Stdout).Encode(map[string]any{
			"id": p.ID, "level": p.Level, "cases": p.Cases(*tier), "batch": p.Batch(*tier),
			"floors": p.Floors, "rule": p.Rule, "assumptions": p.Assumptions,
		})
		return
	}
	if *to < 0 {
		*to = p.Cases(*tier)
	}
	var w *os.File = os.Stdout
	if *out != "" {
		f, err := os.OpenFile(*out, os.O_CREATE|os.O_WRONLY|os.O_APPEND, 0o644)
		if err != nil {
			fmt.Fprintln(os.Stderr, err)
			os.Exit(2)
		}
		w = f
	}
	var emit func(r record)
	emit = func(r record) {
		b, err := json.Marshal(r)
		if err != nil {
			b, _ = json.Marshal(record{T: r.T, Case: r.Case, Variant: r.Variant, Viols: []Violation{{Detector: "harness.marshal", Msg: err.Error()}}})
		}
		w.Write(append(b, '\n'))
	}
	debug.SetPanicOnFault(true)
	var emitMu sync.Mutex
	emit0 := emit
	emit = func(r record) {
		emitMu.Lock()
		defer emitMu.Unlock()
		emit0(r)
	}
	wd := startWatchdog(*tier, func(kind string, cpu, wall float64, stack string) {
		emit(record{T: "hang", Case: int(curCase.Load()), Variant: *variant,
			Viols: []Violation{{Detector: "hang", Keys: map[string]any{"kind": kind, "func": topRepoFrameAny(stack)},
				Msg: fmt.Sprintf("case did not finish: %s after %.0f CPU-seconds / %.0f s wall\n%s", kind, cpu, wall, trimStack(stack))}}})
		os.Stderr.WriteString(stack)
		os.Exit(3)
	})
	for i := *from; i < *to; i++ {
		wd.begin(i)
		c := &Ctx{Prop: p.ID, Tier: *tier, Seed: *seed, Case: i, Variant: *variant,
			R: gen.Sub(*seed, p.ID, i), desc: map[string]any{}, obs: map[string]int64{}, dig: map[string]string{}}
		emit(record{T: "begin", Case: i, Variant: *variant})
		c.guard("panic", nil, func() { p.Run(c) })
		kb, _ := json.Marshal(c.desc)
		h := sha256.Sum256(kb)
		emit(record{T: "end", Case: i, Variant: *variant, Desc: c.desc, Key: hex.EncodeToString(h[:8]),
			Trivial: c.trivial, Obs: c.obs, Viols: c.viols, Dig: c.dig, Extra: c.extra})
		if i%64 == 63 {
			runtime.GC()
		}
	}
}
