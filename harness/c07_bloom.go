package main

import (
	"bytes"
	"fmt"
	"reflect"
	"sort"
	"strings"

	"github.com/parquet-go/parquet-go"
	"github.com/parquet-go/parquet-go/deprecated"

	"verif/gen"
	"verif/model"
	"verif/specreader"
)

// C07: bloom filters never answer "absent" for a value that was written.

func init() {
	register(&PropDef{
		ID:    "C07",
		Level: "exploration",
		Cases: func(t string) int {
			if t == "thorough" {
				return 9000
			}
			return 1200
		},
		Batch: func(t string) int { return 24 },
		Floors: []string{"library_checks", "spec_sbbf_checks", "mode_write_small_pages", "mode_write_rowgroup_buffer", "mode_dictionary", "dictionary_fallback_configs", "mode_copy_same_config", "mode_reencode_other_codec", "mode_merge_pack", "mode_source_without_filter", "mode_pending_then_rowgroup",
			"kind_BOOLEAN", "kind_INT32", "kind_INT64", "kind_INT96", "kind_FLOAT", "kind_DOUBLE", "kind_BYTE_ARRAY", "kind_FIXED_LEN_BYTE_ARRAY", "deferred_filters", "compressed_filters", "multi_rowgroup_files"},
		Rule: "case = (production mode among 8: small pages / WriteRowGroup from buffer / dictionary columns / verbatim copy / re-encode / merged pack path / source without filters / pending rows then row group; " +
			"bits-per-value from {1,8,10,64}; deferred and gzip-compressed filters; row-group splits). Ground truth = the non-null values independently decoded from each column chunk; every distinct value is probed through " +
			"the library's BloomFilter.Check and, for uncompressed filters, through a spec-level SBBF check (hand-written xxhash64) on the raw bitset. Distinct = descriptor hash; non-trivial = >= 1 value probed",
		Assumptions: []string{"values per chunk come from specreader's decode of the produced file (C02 ties them to the input)", "the spec-level check is skipped for BOOLEAN (no byte-level PLAIN encoding of a single value) and for gzip-compressed bitsets (library extension)"},
		Run:         runC07,
	})
}

type c07Row struct {
	ID  int64            `parquet:"id"`
	B   bool             `parquet:"b"`
	I32 int32            `parquet:"i32"`
	I64 int64            `parquet:"i64"`
	F32 float32          `parquet:"f32"`
	F64 float64          `parquet:"f64"`
	S   string           `parquet:"s"`
	Bs  []byte           `parquet:"bs"`
	F5  [5]byte          `parquet:"f5"`
	F16 [16]byte         `parquet:"f16"`
	I96 deprecated.Int96 `parquet:"i96"`
	O   *string          `parquet:"o"`
	L   []int64          `parquet:"l"`
	D   string           `parquet:"d,dict"`
	DI  int64            `parquet:"di,dict"`
	OB  *bool            `parquet:"ob"`
}

func init() { reg[c07Row]("c07row") }

var c07Modes = []string{"write_small_pages", "write_rowgroup_buffer", "dictionary", "copy_same_config", "reencode_other_codec", "merge_pack", "source_without_filter", "pending_then_rowgroup"}

func runC07(c *Ctx) {
	r := c.R
	te := typeByName("c07row")
	schema := te.ops.Schema()
	mode := c.Case % len(c07Modes)
	n := gen.Pick(r, []int{1, 20, 150, 400})
	if c.Thorough() && r.P(10) {
		n = 5000 + r.Intn(15000)
	}
	rows := genRows(r, te, n, genOpts{NoHuge: true, SmallLists: true})
	bits := gen.Pick(r, []uint{1, 8, 10, 64})
	var filters []parquet.BloomFilterColumn
	for _, p := range schema.Columns() {
		filters = append(filters, parquet.SplitBlockFilter(bits, p...))
	}
	base := []parquet.WriterOption{parquet.BloomFilters(filters...)}
	desc := []string{fmt.Sprintf("bits=%d", bits)}
	if r.P(30) {
		base = append(base, parquet.BloomFilterCompression(&parquet.Gzip))
		desc = append(desc, "gzipfilters")
		c.Obs("compressed_filters", 1)
	}
	if r.P(30) {
		base = append(base, parquet.DeferBloomFiltersWithBuffers(parquet.NewBufferPool()))
		desc = append(desc, "deferred")
		c.Obs("deferred_filters", 1)
	}
	if r.P(50) {
		base = append(base, parquet.MaxRowsPerRowGroup(int64(gen.Pick(r, []int{7, 50, 1000}))))
		desc = append(desc, "maxrows")
	}
	if r.P(50) {
		base = append(base, parquet.DataPageVersion(1+r.Intn(2)))
	}
	codec := gen.Pick(r, allCodecs[:4])
	base = append(base, parquet.Compression(codec))
	c.D("mode", c07Modes[mode])
	c.D("rows", n)
	c.D("opts", strings.Join(desc, " "))
	keys := map[string]any{"mode": c07Modes[mode]}

	withFilters := func(extra ...parquet.WriterOption) []parquet.WriterOption {
		return append(append([]parquet.WriterOption{}, base...), extra...)
	}
	writeFile := func(rows reflect.Value, opts []parquet.WriterOption) ([]byte, error) {
		return writeTyped(te, rows, genWriteHist(r, rows.Len()), opts)
	}
	var data []byte
	var err error
	if c.guard("c07.panic", keys, func() {
		switch mode {
		case 0:
			data, err = writeFile(rows, withFilters(parquet.PageBufferSize(gen.Pick(r, []int{1, 64, 512}))))
		case 1:
			b := te.ops.NewBuffer()
			if _, err = te.ops.BufferWrite(b, rows); err != nil {
				return
			}
			var out bytes.Buffer
			extra := []parquet.WriterOption{}
			if r.P(40) {
				// the filter is pre-sized from the buffer; a dictionary column may then fall back to PLAIN page by page
				extra = append(extra, parquet.DefaultEncoding(&parquet.RLEDictionary), parquet.DictionaryMaxBytes(gen.Pick(r, []int64{64, 256})), parquet.PageBufferSize(gen.Pick(r, []int{64, 512})))
				c.Obs("dictionary_fallback_configs", 1)
			}
			w := te.ops.NewWriter(&out, withFilters(extra...)...)
			if _, err = w.WriteRowGroup(b); err != nil {
				return
			}
			err = w.Close()
			data = out.Bytes()
		case 2:
			dopts := []parquet.WriterOption{parquet.DefaultEncoding(&parquet.RLEDictionary), parquet.DictionaryMaxBytes(gen.Pick(r, []int64{0, 64, 256, 100000}))}
			if r.P(70) {
				// several pages per chunk: with a small dictionary limit the column falls back to PLAIN after the first ones
				dopts = append(dopts, parquet.PageBufferSize(gen.Pick(r, []int{64, 512, 4096})))
				c.Obs("dictionary_fallback_configs", 1)
			}
			data, err = writeFile(rows, withFilters(dopts...))
		case 3, 4, 6:
			srcOpts := withFilters()
			if mode == 6 {
				srcOpts = []parquet.WriterOption{parquet.Compression(codec)}
			}
			var src []byte
			if src, err = writeFile(rows, srcOpts); err != nil {
				return
			}
			var sf *parquet.File
			if sf, err = openBytes(src); err != nil {
				return
			}
			dstOpts := withFilters()
			if mode == 4 {
				dstOpts = append(dstOpts, parquet.Compression(&parquet.Lz4Raw))
			}
			var out bytes.Buffer
			w := te.ops.NewWriter(&out, dstOpts...)
			for _, rg := range sf.RowGroups() {
				if _, err = w.WriteRowGroup(rg); err != nil {
					return
				}
			}
			err = w.Close()
			data = out.Bytes()
		case 5, 7:
			// two sorted sources with disjoint id ranges, merged and written as one row group
			half := n / 2
			sorting := parquet.SortingWriterConfig(parquet.SortingColumns(parquet.Ascending("id")))
			var s1, s2 []byte
			if s1, err = writeTyped(te, rows.Slice(0, half), []wop{{Lo: 0, Hi: half}}, withFilters(sorting)); err != nil {
				return
			}
			if s2, err = writeTyped(te, rows.Slice(half, n), []wop{{Lo: 0, Hi: n - half}}, withFilters(sorting)); err != nil {
				return
			}
			var rgs []parquet.RowGroup
			for _, s := range [][]byte{s1, s2} {
				var sf *parquet.File
				if sf, err = openBytes(s); err != nil {
					return
				}
				rgs = append(rgs, sf.RowGroups()...)
			}
			var merged parquet.RowGroup
			if merged, err = parquet.MergeRowGroups(rgs, schema, parquet.SortingRowGroupConfig(parquet.SortingColumns(parquet.Ascending("id")))); err != nil {
				return
			}
			var out bytes.Buffer
			w := te.ops.NewWriter(&out, withFilters(sorting, parquet.PageBufferSize(gen.Pick(r, []int{64, 4096})))...)
			if mode == 7 {
				// rows pending in the writer when the row group arrives
				pend := genRows(r, te, 1+r.Intn(300), genOpts{NoHuge: true, SmallLists: true})
				if _, err = te.ops.Write(w, pend); err != nil {
					return
				}
			}
			if _, err = w.WriteRowGroup(merged); err != nil {
				err = fmt.Errorf("%w\nmerged schema:\n%s\nwriter schema:\n%s", err, merged.Schema(), w.Schema())
				return
			}
			err = w.Close()
			data = out.Bytes()
		}
	}) {
		return
	}
	if err != nil {
		c.Fail("c07.write_error", keys, "%s: %v", c07Modes[mode], err)
		return
	}
	c.Obs("mode_"+c07Modes[mode], 1)
	res := specreader.Validate(data, specreader.Expect{Codec: -1})
	if res.File == nil || hasDecodeProblem(res) {
		for _, p := range res.Problems {
			c.Fail("c07.unreadable."+p.Rule, keys, "%s", p.Msg)
		}
		return
	}
	var fopts []parquet.FileOption
	switch c.Case % 4 {
	case 1:
		fopts = []parquet.FileOption{parquet.PrefetchBloomFilters(true), parquet.OptimisticRead(true)}
		c.Obs("open_prefetch_bloom_filters", 1)
	case 2:
		fopts = []parquet.FileOption{parquet.SkipBloomFilters(true)} // loaded lazily by BloomFilter()
		c.Obs("open_skip_bloom_filters_lazy", 1)
	}
	f, err := openBytes(data, fopts...)
	if err != nil {
		c.Fail("c07.open", keys, "%v", err)
		return
	}
	if len(res.File.RowGroups) > 1 {
		c.Obs("multi_rowgroup_files", 1)
	}
	probes := 0
	for gi := range res.Chunks {
		for ci, cd := range res.Chunks[gi] {
			leaf := cd.Leaf
			// distinct non-null values of the chunk
			seen := map[string]specreader.Entry{}
			for _, dp := range cd.Data {
				for _, e := range dp.Entries {
					if !e.Null {
						seen[fmt.Sprintf("%d/%x", e.I, e.B)] = e
					}
				}
			}
			if len(seen) == 0 {
				continue
			}
			kname := []string{"BOOLEAN", "INT32", "INT64", "INT96", "FLOAT", "DOUBLE", "BYTE_ARRAY", "FIXED_LEN_BYTE_ARRAY"}[leaf.Type]
			k := map[string]any{"mode": c07Modes[mode], "kind": kname}
			lib := f.RowGroups()[gi].ColumnChunks()[ci].BloomFilter()
			if lib == nil {
				c.Fail("c07.filter_missing", k, "row group %d column %s is configured with a bloom filter and holds %d distinct values but the file has no filter for it", gi, leaf.Name(), len(seen))
				continue
			}
			sb, serr := res.File.ReadBloomFilter(cd.Chunk)
			if serr != nil {
				c.Fail("c07.filter_unreadable", k, "row group %d column %s: %v", gi, leaf.Name(), serr)
				continue
			}
			keysSorted := make([]string, 0, len(seen))
			for s := range seen {
				keysSorted = append(keysSorted, s)
			}
			sort.Strings(keysSorted)
			misses, smisses := 0, 0
			var firstMiss string
			for _, s := range keysSorted {
				e := seen[s]
				lv := entriesToLV(leaf, []specreader.Entry{e})[0]
				v := model.ToValue(lv, ci)
				ok, cerr := lib.Check(v)
				c.Obs("library_checks", 1)
				probes++
				if cerr != nil {
					c.Fail("c07.check_error", k, "row group %d column %s: Check: %v", gi, leaf.Name(), cerr)
					break
				}
				if !ok {
					misses++
					if firstMiss == "" {
						firstMiss = lv.String()
					}
				}
				if sb != nil && sb.Bitset != nil {
					if pb, okp := leaf.PlainBytes(e); okp {
						c.Obs("spec_sbbf_checks", 1)
						if !specreader.SBBFCheck(sb.Bitset, specreader.XXH64(pb)) {
							smisses++
							if firstMiss == "" {
								firstMiss = lv.String()
							}
						}
					}
				}
			}
			if misses > 0 {
				c.Fail("c07.false_negative", k, "row group %d column %s: BloomFilter.Check answered absent for %d of %d values written to the chunk (e.g. %s)", gi, leaf.Name(), misses, len(seen), firstMiss)
			}
			if smisses > 0 {
				c.Fail("c07.spec_false_negative", k, "row group %d column %s: a spec-level split-block check of the raw bitset answers absent for %d of %d values written (e.g. %s)", gi, leaf.Name(), smisses, len(seen), firstMiss)
			}
			c.Obs("kind_"+kname, 1)
		}
	}
	if probes == 0 {
		c.Trivial()
	}
}
