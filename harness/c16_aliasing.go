package main

import (
	"bytes"
	"errors"
	"fmt"
	"io"
	"reflect"
	"runtime"
	"sort"
	"strings"

	"github.com/parquet-go/parquet-go"

	"verif/gen"
	"verif/model"
)

// C16: values handed to the caller are not changed by later library activity.

func init() {
	register(&PropDef{
		ID:    "C16",
		Level: "exploration",
		Cases: func(t string) int {
			if t == "thorough" {
				return 16000
			}
			return 2100
		},
		Batch: func(t string) int { return 35 },
		Floors: []string{"snapshots_compared", "typed_values_retained", "cloned_rows_retained", "uncloned_rows_checked", "writer_inputs_checked", "activity_read_more", "activity_seek", "activity_reset", "activity_close", "activity_other_reader",
			"activity_writer_churn", "activity_gc", "batch_slice_reused", "page_boundary_crossed", "typed_source_buffer", "cloned_source_buffer", "dedupe_writer_batches_with_duplicates", "activity_source_buffer_refilled", "row_writer_wrappers_checked", "reader_FilterRowReader", "reader_TransformRowReader"},
		Rule: "case = (file of a catalogue type with byte-array / FLBA / int96 / dictionary / nested list columns, small pages; history: Read a batch of Go values (the batch slice is reused, rows are retained by shallow copy like a caller would) or ReadRows; deep snapshot; " +
			"then PRNG later activity: more reads, SeekToRow, Reset, Close, other readers on the same and other files, writer churn through the shared pools, runtime.GC; compare). The verif build overwrites pooled memory on release (0xDB), so a dangling alias changes the retained value deterministically. " +
			"Writer side: rows and slices passed to Write/WriteRows/SortingWriter/WriteRowGroup are snapshotted before and compared after. Distinct = descriptor hash; non-trivial = at least one later activity between snapshot and comparison",
		Assumptions: []string{"un-cloned Rows are only required to stay valid until the next call on the same reader (they are checked across activity of OTHER readers/writers only)", "poison-on-release hook (build tag verif) in internal/memory.putSliceToPool"},
		Run:         runC16,
	})
}

func snapshotRows(rows []parquet.Row) [][]model.LV {
	out := make([][]model.LV, len(rows))
	for i, r := range rows {
		out[i] = make([]model.LV, len(r))
		for j, v := range r {
			out[i][j] = model.FromValue(v)
		}
	}
	return out
}

func rowsMatchSnapshot(rows []parquet.Row, snap [][]model.LV) (bool, string) {
	for i, r := range rows {
		if len(r) != len(snap[i]) {
			return false, fmt.Sprintf("row %d has %d values, had %d", i, len(r), len(snap[i]))
		}
		for j, v := range r {
			if !model.FromValue(v).Equal(snap[i][j]) {
				return false, fmt.Sprintf("row %d value %d (column %d) is now %s, was %s", i, j, v.Column(), model.FromValue(v), snap[i][j])
			}
		}
	}
	return true, ""
}

func runC16(c *Ctx) {
	r := c.R
	// types with variable-length / pooled payloads
	names := []string{"strings", "fixed", "int96", "repdict", "deep", "c07row", "lists", "flat", "nested", "dictall", "optscalar", "c10row", "maps", "mapofmaps"}
	te := typeByName(names[c.Case%len(names)])
	n := gen.Pick(r, []int{60, 200, 500})
	rows := genRows(r, te, n, genOpts{NoHuge: true, SmallLists: true})
	opts := []parquet.WriterOption{parquet.PageBufferSize(gen.Pick(r, []int{64, 256, 2048})), parquet.DataPageVersion(1 + r.Intn(2))}
	desc := []string{}
	if r.P(40) {
		opts = append(opts, parquet.Compression(gen.Pick(r, allCodecs)))
		desc = append(desc, "compressed")
	}
	if r.P(30) {
		opts = append(opts, parquet.DefaultEncoding(&parquet.RLEDictionary))
		desc = append(desc, "dict")
	}
	if r.P(40) {
		opts = append(opts, parquet.MaxRowsPerRowGroup(int64(n/3+1)))
		desc = append(desc, "multi-rg")
	}
	mode := c.Case % 4 // 0 typed values, 1 cloned rows, 2 un-cloned rows vs other activity, 3 writer side
	c.D("type", te.Name)
	c.D("rows", n)
	c.D("file", strings.Join(desc, " "))
	c.D("mode", []string{"typed_values", "cloned_rows", "uncloned_rows", "writer_inputs"}[mode])
	keys := map[string]any{"mode": []string{"typed_values", "cloned_rows", "uncloned_rows", "writer_inputs"}[mode], "type": te.Name}

	if mode == 3 {
		c16Writer(c, r, te, rows, opts, keys)
		return
	}
	data, err := writeTyped(te, rows, genWriteHist(r, n), opts)
	if err != nil {
		c.Fail("harness.write", nil, "%v", err)
		return
	}
	other := genRows(r, te, 150, genOpts{NoHuge: true, SmallLists: true})
	otherData, _ := writeTyped(te, other, []wop{{Lo: 0, Hi: 150}}, opts)

	var acts []string
	// churn: activity that recycles pooled buffers without touching our reader
	churn := func(kind int) {
		switch kind {
		case 0:
			f, err := openBytes(otherData)
			if err == nil {
				fileRows(f, 64)
			}
			acts = append(acts, "other_reader")
			c.Obs("activity_other_reader", 1)
		case 1:
			f, err := openBytes(data)
			if err == nil {
				gr := te.ops.NewReader(f)
				tmp := te.ops.NewRows(50)
				te.ops.Read(gr, tmp)
				gr.Close()
			}
			acts = append(acts, "same_file_reader")
			c.Obs("activity_other_reader", 1)
		case 2:
			var b bytes.Buffer
			w := te.ops.NewWriter(&b, parquet.Compression(&parquet.Snappy), parquet.PageBufferSize(128))
			te.ops.Write(w, other)
			w.Close()
			acts = append(acts, "writer_churn")
			c.Obs("activity_writer_churn", 1)
		default:
			runtime.GC()
			acts = append(acts, "gc")
			c.Obs("activity_gc", 1)
		}
	}

	c.guard("c16.panic", keys, func() {
		f, err := openBytes(data)
		if err != nil {
			c.Fail("harness.open", nil, "%v", err)
			return
		}
		switch mode {
		case 0:
			gr := te.ops.NewReader(f)
			// a third of the time the source is an in-memory buffer row group, which its owner resets and refills afterwards
			var srcBuf gbuffer
			if r.P(33) {
				srcBuf = te.ops.NewBuffer()
				if _, err := te.ops.BufferWrite(srcBuf, rows); err != nil {
					c.Fail("harness.buffer", nil, "%v", err)
					return
				}
				gr.Close()
				gr = te.ops.NewRowGroupReader(srcBuf)
				c.D("source", "buffer")
				c.Obs("typed_source_buffer", 1)
			}
			batch := te.ops.NewRows(gen.Pick(r, []int{1, 7, 40, 100}))
			retained := reflect.MakeSlice(batch.Type(), 0, n)
			var snaps []reflect.Value
			closed := false
			pos := 0
			steps := r.Range(4, 14)
			for s := 0; s < steps && !closed; s++ {
				switch op := r.Intn(10); {
				case op < 5:
					k, err := te.ops.Read(gr, batch)
					if k > 0 && pos >= 0 && pos+k <= n {
						// what is handed out must be the file's rows in the first place (a buffer
						// released too early is already overwritten by the poison hook here)
						if ok, diff := eqRows(rows.Slice(pos, pos+k), batch.Slice(0, k)); !ok {
							c.Extra("history", acts)
							c.Fail("c16.value_wrong_when_returned", keys, "values returned by Read at row %d differ from the rows written, after [%s]: %s", pos, strings.Join(acts, " "), diff)
							return
						}
					}
					pos += k
					if k > 0 {
						// retain like a caller: shallow copies of the rows, batch reused next time
						for i := 0; i < k; i++ {
							retained = reflect.Append(retained, batch.Index(i))
							snaps = append(snaps, deepCopy(batch.Index(i)))
						}
						c.Obs("typed_values_retained", k)
						c.Obs("batch_slice_reused", 1)
						acts = append(acts, fmt.Sprintf("read(%d)", k))
						c.Obs("activity_read_more", 1)
					}
					if err != nil && !errors.Is(err, io.EOF) {
						c.Fail("c16.read_error", keys, "Read: %v", err)
						return
					}
				case op == 5:
					k := int64(r.Intn(n))
					if err := gr.SeekToRow(k); err == nil {
						acts = append(acts, fmt.Sprintf("seek(%d)", k))
						c.Obs("activity_seek", 1)
						pos = int(k)
					} else {
						pos = -1 << 30
					}
				case op == 6:
					gr.Reset()
					pos = 0
					acts = append(acts, "reset")
					c.Obs("activity_reset", 1)
				case op == 7 && s > 2:
					gr.Close()
					closed = true
					acts = append(acts, "close")
					c.Obs("activity_close", 1)
				default:
					churn(r.Intn(4))
				}
			}
			if !closed {
				gr.Close()
				acts = append(acts, "close")
				c.Obs("activity_close", 1)
			}
			if srcBuf != nil {
				srcBuf.Reset()
				te.ops.BufferWrite(srcBuf, other)
				rowGroupRows(srcBuf, 64)
				srcBuf.Reset()
				acts = append(acts, "source_buffer_reset_refill")
				c.Obs("activity_source_buffer_refilled", 1)
			}
			churn(2)
			churn(0)
			churn(3)
			c.D("history", strings.Join(acts, " "))
			if retained.Len() == 0 {
				c.Trivial()
				return
			}
			for i := 0; i < retained.Len(); i++ {
				if ok, diff := eqNorm(snaps[i], retained.Index(i), ""); !ok {
					c.Extra("history", acts)
					c.Fail("c16.typed_value_changed", keys, "a value filled by GenericReader.Read (retained row %d) changed after later activity [%s]: %s", i, strings.Join(acts, " "), diff)
					return
				}
			}
			c.Obs("snapshots_compared", retained.Len())
		case 1, 2:
			var rg parquet.RowGroup = f.RowGroups()[r.Intn(len(f.RowGroups()))]
			// cloned rows are also taken from an in-memory buffer row group whose owner resets and refills it later
			var cloneBuf gbuffer
			if mode == 1 && r.P(40) {
				cloneBuf = te.ops.NewBuffer()
				if _, err := te.ops.BufferWrite(cloneBuf, rows); err != nil {
					c.Fail("harness.buffer", nil, "%v", err)
					return
				}
				rg = cloneBuf
				c.D("source", "buffer")
				c.Obs("cloned_source_buffer", 1)
			}
			rr := rg.Rows()
			// mode 2 also reads through the RowReader wrappers: what they return must be the
			// right rows at return time (a wrapper that calls its source twice per call hands
			// out rows of the first call after the source has moved on)
			var rd parquet.RowReader = rr
			var expected []parquet.Row
			wrapper := "Rows"
			if mode == 2 {
				all, err := rowGroupRows(rg, 64)
				if err != nil {
					c.Fail("c16.read_error", keys, "clean pass: %v", err)
					return
				}
				expected = all
				switch r.Intn(6) {
				case 1:
					wrapper = "FilterRowReader"
					i := 0
					rd = parquet.FilterRowReader(rr, func(parquet.Row) bool { i++; return i%3 != 0 })
					expected = nil
					for j, row := range all {
						if (j+1)%3 != 0 {
							expected = append(expected, row)
						}
					}
				case 2:
					wrapper = "TransformRowReader"
					// identity transform (skipping rows is not used: the reader emits an empty row for a
					// skipped one, which is outside C16; DESIGN O6)
					rd = parquet.TransformRowReader(rr, func(dst, src parquet.Row) (parquet.Row, error) {
						return append(dst, src...), nil
					})
				case 3:
					wrapper = "ScanRowReader"
					limit := int64(r.Intn(len(all) + 1))
					rd = parquet.ScanRowReader(rr, func(_ parquet.Row, idx int64) bool { return idx < limit })
					expected = all[:limit]
				case 4:
					wrapper = "DedupeRowReader"
					rd = parquet.DedupeRowReader(rr, func(a, b parquet.Row) int { return 1 })
				case 5:
					wrapper = "MergeRowReaders"
					rd = parquet.MergeRowReaders([]parquet.RowReader{rr}, func(a, b parquet.Row) int { return 0 })
				}
				c.D("reader", wrapper)
				c.Obs("reader_"+wrapper, 1)
			}
			pos := 0
			var held []parquet.Row
			var snap [][]model.LV
			buf := make([]parquet.Row, gen.Pick(r, []int{1, 16, 64, 200}))
			steps := r.Range(3, 10)
			closed := false
			for s := 0; s < steps && !closed; s++ {
				k, err := rd.ReadRows(buf)
				if mode == 2 && k > 0 {
					if pos+k > len(expected) {
						c.Fail("c16.value_wrong_when_returned", map[string]any{"mode": "uncloned_rows", "reader": wrapper}, "%s returned %d rows at position %d, only %d expected in all", wrapper, k, pos, len(expected))
						return
					}
					if ok, diff := rowsMatchSnapshot(buf[:k], snapshotRows(expected[pos:pos+k])); !ok {
						c.Fail("c16.value_wrong_when_returned", map[string]any{"mode": "uncloned_rows", "reader": wrapper}, "rows returned by %s.ReadRows (position %d, %d rows) are not the rows of the file: %s", wrapper, pos, k, diff)
						return
					}
					pos += k
				}
				if mode == 1 {
					for _, row := range buf[:k] {
						cl := row.Clone()
						held = append(held, cl)
					}
					snap = append(snap, snapshotRows(buf[:k])...)
					c.Obs("cloned_rows_retained", k)
					acts = append(acts, fmt.Sprintf("readrows(%d)", k))
					c.Obs("activity_read_more", 1)
					if r.P(20) {
						if err := rr.SeekToRow(int64(r.Intn(int(rg.NumRows())))); err == nil {
							acts = append(acts, "seek")
							c.Obs("activity_seek", 1)
						}
					}
					if r.P(30) {
						churn(r.Intn(4))
					}
				} else if k > 0 {
					// un-cloned rows must survive activity of OTHER readers and writers
					s0 := snapshotRows(buf[:k])
					if k > 1 {
						c.Obs("page_boundary_crossed", 1)
					}
					churn(r.Intn(3))
					churn(3)
					if ok, diff := rowsMatchSnapshot(buf[:k], s0); !ok {
						c.Extra("history", acts)
						c.Fail("c16.uncloned_row_changed", keys, "rows returned by ReadRows changed before the next call on the same reader, after [%s]: %s", strings.Join(acts, " "), diff)
						return
					}
					c.Obs("uncloned_rows_checked", k)
					c.Obs("snapshots_compared", k)
				}
				if err != nil {
					break
				}
			}
			rr.Close()
			acts = append(acts, "close")
			c.Obs("activity_close", 1)
			if mode == 1 {
				if cloneBuf != nil {
					cloneBuf.Reset()
					te.ops.BufferWrite(cloneBuf, other)
					rowGroupRows(cloneBuf, 64)
					cloneBuf.Reset()
					te.ops.BufferWrite(cloneBuf, other)
					acts = append(acts, "source_buffer_reset_refill")
					c.Obs("activity_source_buffer_refilled", 1)
				}
				churn(2)
				churn(0)
				churn(3)
				c.D("history", strings.Join(acts, " "))
				if len(held) == 0 {
					c.Trivial()
					return
				}
				if ok, diff := rowsMatchSnapshot(held, snap); !ok {
					c.Extra("history", acts)
					c.Fail("c16.cloned_row_changed", keys, "a cloned Row changed after later activity [%s]: %s", strings.Join(acts, " "), diff)
					return
				}
				c.Obs("snapshots_compared", len(held))
			}
		}
	})
}

// c16Writer: the library never modifies rows or slices the caller passes to Write.
// rows with nil pointers inside slices: the reflection-based write paths walk them with accessors that also serve the
// read direction, where a nil pointer is something to allocate
type c16Item struct {
	A int64  `parquet:"a"`
	B string `parquet:"b"`
}

type c16PtrRow struct {
	ID    int64      `parquet:"id"`
	Items []*c16Item `parquet:"items"`
	One   *c16Item   `parquet:"one"`
}

func c16NilPointers(c *Ctx, r *gen.Rand) {
	n := 1 + r.Intn(20)
	rows := make([]c16PtrRow, n)
	for i := range rows {
		rows[i].ID = int64(i)
		for j := r.Intn(4); j > 0; j-- {
			if r.Bool() {
				rows[i].Items = append(rows[i].Items, nil)
			} else {
				rows[i].Items = append(rows[i].Items, &c16Item{A: int64(j), B: "b"})
			}
		}
		if r.Bool() {
			rows[i].One = &c16Item{A: 7}
		}
	}
	nils := func() (k int) {
		for i := range rows {
			for _, it := range rows[i].Items {
				if it == nil {
					k++
				}
			}
			if rows[i].One == nil {
				k++
			}
		}
		return k
	}
	before := nils()
	schema := parquet.SchemaOf(c16PtrRow{})
	api := []string{"Schema.Deconstruct", "Writer.Write(any)", "Buffer.Write", "RowBuffer.Write", "GenericWriter.Write"}[r.Intn(5)]
	c.D("api", api)
	c.D("nil_pointer_rows", n)
	c.guard("c16.panic", map[string]any{"api": api, "rows": "nil_pointer_elements"}, func() {
		switch api {
		case "Schema.Deconstruct":
			for i := range rows {
				schema.Deconstruct(nil, &rows[i])
			}
		case "Writer.Write(any)":
			var b bytes.Buffer
			w := parquet.NewWriter(&b, schema)
			for i := range rows {
				w.Write(&rows[i])
			}
			w.Close()
		case "Buffer.Write":
			b := parquet.NewBuffer(schema)
			for i := range rows {
				b.Write(&rows[i])
			}
		case "RowBuffer.Write":
			b := parquet.NewRowBuffer[c16PtrRow]()
			b.Write(rows)
		default:
			var b bytes.Buffer
			w := parquet.NewGenericWriter[c16PtrRow](&b)
			w.Write(rows)
			w.Close()
		}
	})
	if after := nils(); after != before {
		c.Fail("c16.writer_modified_input", map[string]any{"api": api, "rows": "nil_pointer_elements"}, "%s replaced nil pointers in the caller's rows by allocated values: %d nil pointers before the call, %d after", api, before, after)
		return
	}
	c.Obs("nil_pointer_inputs_checked", 1)
}

func c16Writer(c *Ctx, r *gen.Rand, te *typeEntry, rows reflect.Value, opts []parquet.WriterOption, keys map[string]any) {
	if r.P(15) {
		c16NilPointers(c, r)
		if c.Failed() {
			return
		}
	}
	n := rows.Len()
	snap := deepCopy(rows)
	schema := te.ops.Schema()
	c.guard("c16.panic", keys, func() {
		var api string
		switch r.Intn(5) {
		case 0:
			api = "GenericWriter.Write"
			var b bytes.Buffer
			w := te.ops.NewWriter(&b, opts...)
			for lo := 0; lo < n; lo += 37 {
				te.ops.Write(w, rows.Slice(lo, min(n, lo+37)))
			}
			w.Close()
		case 1:
			api = "Writer.Write(any)"
			var b bytes.Buffer
			w := parquet.NewWriter(&b, append([]parquet.WriterOption{schema}, opts...)...)
			for i := 0; i < n; i++ {
				w.Write(rows.Index(i).Addr().Interface())
			}
			w.Close()
		case 2:
			api = "SortingWriter.Write"
			var b bytes.Buffer
			w := te.ops.NewSortingWriter(&b, 50, append([]parquet.WriterOption{parquet.SortingWriterConfig(parquet.SortingColumns(parquet.Descending("id")))}, opts...)...)
			te.ops.SortingWrite(w, rows)
			w.Close()
		case 3:
			api = "GenericBuffer.Write+sort"
			b := te.ops.NewBuffer(parquet.SortingRowGroupConfig(parquet.SortingColumns(parquet.Descending("id"))))
			te.ops.BufferWrite(b, rows)
			sortBuffer(b)
			var out bytes.Buffer
			w := te.ops.NewWriter(&out, opts...)
			w.WriteRowGroup(b)
			w.Close()
		default:
			api = "WriteRows"
			prows := make([]parquet.Row, n)
			for i := 0; i < n; i++ {
				prows[i] = schema.Deconstruct(nil, rows.Index(i).Interface())
			}
			psnap := snapshotRows(prows)
			var b bytes.Buffer
			w := parquet.NewWriter(&b, append([]parquet.WriterOption{schema}, opts...)...)
			w.WriteRows(prows)
			w.Close()
			rb := parquet.NewBuffer(schema, parquet.SortingRowGroupConfig(parquet.SortingColumns(parquet.Descending("id"))))
			rb.WriteRows(prows)
			sortBuffer(rb)
			dw := parquet.DedupeRowWriter(parquet.NewBuffer(schema), schema.Comparator(parquet.Ascending("id")))
			dw.WriteRows(prows)
			// a batch with duplicates followed by other rows: what is dropped is dropped downstream, not in the caller's slice
			var dupBatch []parquet.Row
			for i, row := range prows {
				dupBatch = append(dupBatch, row)
				if i%3 == 0 {
					dupBatch = append(dupBatch, row.Clone())
				}
			}
			dupSnap := snapshotRows(dupBatch)
			dw2 := parquet.DedupeRowWriter(parquet.NewBuffer(schema), schema.Comparator(parquet.Ascending("id")))
			dw2.WriteRows(dupBatch)
			if ok, diff := rowsMatchSnapshot(dupBatch, dupSnap); !ok {
				c.Fail("c16.writer_modified_input", map[string]any{"api": "DedupeRowWriter"}, "DedupeRowWriter modified the []Row passed by the caller (a batch with duplicates): %s", diff)
				return
			}
			c.Obs("dedupe_writer_batches_with_duplicates", 1)
			if ok, diff := rowsMatchSnapshot(prows, psnap); !ok {
				c.Fail("c16.writer_modified_input", map[string]any{"api": api}, "%s modified the []Row passed by the caller: %s", api, diff)
				return
			}
			// the RowWriter wrappers, each followed by a second call (their scratch state outlives a call)
			keep := r.Intn(3)
			wrappers := []struct {
				name string
				w    parquet.RowWriter
			}{
				{"FilterRowWriter", parquet.FilterRowWriter(parquet.NewBuffer(schema), func(row parquet.Row) bool {
					return keep == 0 || len(row) == 0 || row[0].Column()%2 == 0 || int(row[len(row)-1].Int64())%(keep+1) == 0
				})},
				{"TransformRowWriter", parquet.TransformRowWriter(parquet.NewBuffer(schema), func(dst, src parquet.Row) (parquet.Row, error) { return append(dst, src...), nil })},
				{"MultiRowWriter", parquet.MultiRowWriter(parquet.NewBuffer(schema), parquet.NewBuffer(schema))},
				{"RowBuffer.WriteRows", te.ops.NewRowBuffer()},
			}
			for _, wr := range wrappers {
				half := len(prows) / 2
				wr.w.WriteRows(prows[:half])
				wr.w.WriteRows(prows[half:])
				if rb, ok := wr.w.(interface{ Reset() }); ok {
					rb.Reset()
					wr.w.WriteRows(prows[:half])
				}
				if ok, diff := rowsMatchSnapshot(prows, psnap); !ok {
					c.Fail("c16.writer_modified_input", map[string]any{"api": wr.name}, "%s modified the []Row passed by the caller: %s", wr.name, diff)
					return
				}
				c.Obs("row_writer_wrappers_checked", 1)
			}
		}
		c.D("api", api)
		if ok, diff := eqRows(snap, rows); !ok {
			c.Fail("c16.writer_modified_input", map[string]any{"api": api}, "%s modified the rows passed by the caller: %s", api, diff)
			return
		}
		c.Obs("writer_inputs_checked", n)
		c.Obs("snapshots_compared", n)
	})
}

func sortBuffer(b interface {
	Len() int
	Less(i, j int) bool
	Swap(i, j int)
}) {
	// simple insertion-free sort through sort.Sort semantics
	sortSort(b)
}

func sortSort(b interface {
	Len() int
	Less(i, j int) bool
	Swap(i, j int)
}) {
	sort.Sort(b)
}
