package main

import (
	"bytes"
	"fmt"
	"time"

	"github.com/parquet-go/parquet-go"

	"verif/gen"
)

// Sources whose Rows() CONVERT VALUES (timestamp milliseconds -> microseconds, same physical type): a chunk-level
// shortcut that bypasses the wrapper stores the unconverted numbers, which nothing downstream notices. What the
// destination file must hold is computed here from the Go values, not read from src.Rows().

type c11A struct {
	ID int64     `parquet:"id"`
	T  time.Time `parquet:"t,timestamp(millisecond)"`
	S  string    `parquet:"s"`
}

type c11B struct {
	ID int64     `parquet:"id"`
	T  time.Time `parquet:"t,timestamp(microsecond)"`
	S  string    `parquet:"s"`
}

var c11ConvertedKinds = []string{"converted_values", "merged_converted_unsorted", "merged_converted_ranges"}

func c11Converted(c *Ctx, r *gen.Rand, srcKind string) {
	n := gen.Pick(r, []int{40, 400, 5000})
	if srcKind == "merged_converted_ranges" {
		n = gen.Pick(r, []int{3000, 10000}) // partially overlapping inputs large enough for the planner to slice them
	}
	base := time.Date(2020, 1, 1, 0, 0, 0, 0, time.UTC).UnixMilli() + int64(r.Intn(1000000))
	all := make([]c11A, n)
	for i := range all {
		all[i] = c11A{ID: int64(i), T: time.UnixMilli(base + int64(i)*7).UTC(), S: fmt.Sprintf("s%06d", i)}
	}
	c.D("type", "c11A->c11B")
	c.D("rows", n)
	c.D("source", srcKind)
	keys := map[string]any{"source": srcKind}
	sorting := parquet.SortingWriterConfig(parquet.SortingColumns(parquet.Ascending("id")))
	mk := func(rows []c11A, opts ...parquet.WriterOption) (parquet.RowGroup, error) {
		var buf bytes.Buffer
		w := parquet.NewGenericWriter[c11A](&buf, append([]parquet.WriterOption{parquet.MaxRowsPerRowGroup(1 << 40), parquet.PageBufferSize(gen.Pick(r, []int{512, 8192}))}, opts...)...)
		if _, err := w.Write(rows); err != nil {
			return nil, err
		}
		if err := w.Close(); err != nil {
			return nil, err
		}
		f, err := openBytes(buf.Bytes())
		if err != nil {
			return nil, err
		}
		return f.RowGroups()[0], nil
	}
	schemaB := parquet.SchemaOf(c11B{})
	var src parquet.RowGroup
	var want []c11A
	var dstOpts []parquet.WriterOption
	var err error
	failed := c.guard("c11.panic", map[string]any{"source": srcKind, "phase": "build"}, func() {
		switch srcKind {
		case "converted_values":
			var rg parquet.RowGroup
			if rg, err = mk(all); err != nil {
				return
			}
			var conv parquet.Conversion
			if conv, err = parquet.Convert(schemaB, rg.Schema()); err != nil {
				return
			}
			src = parquet.ConvertRowGroup(rg, conv)
			want = all
		case "merged_converted_unsorted":
			// no sorting columns: the merge is the concatenation of its converted inputs
			k := 2 + r.Intn(2)
			var rgs []parquet.RowGroup
			for j := 0; j < k; j++ {
				part := all[j*n/k : (j+1)*n/k]
				var rg parquet.RowGroup
				if rg, err = mk(part); err != nil {
					return
				}
				rgs = append(rgs, rg)
				want = append(want, part...)
			}
			src, err = parquet.MergeRowGroups(rgs, schemaB)
		default:
			// two id-sorted inputs whose ranges overlap in the middle: the planner slices row-range views of them
			a, b := all[:n*6/10], all[n*4/10:]
			var ra, rb parquet.RowGroup
			if ra, err = mk(a, sorting); err != nil {
				return
			}
			if rb, err = mk(b, sorting); err != nil {
				return
			}
			src, err = parquet.MergeRowGroups([]parquet.RowGroup{ra, rb}, schemaB, parquet.SortingRowGroupConfig(parquet.SortingColumns(parquet.Ascending("id"))))
			dstOpts = append(dstOpts, sorting)
			// expected: ids ascending, the overlap twice
			i, j := 0, 0
			for i < len(a) || j < len(b) {
				if j >= len(b) || (i < len(a) && a[i].ID <= b[j].ID) {
					want = append(want, a[i])
					i++
				} else {
					want = append(want, b[j])
					j++
				}
			}
		}
	})
	if failed {
		return
	}
	if err != nil {
		c.Fail("harness.source", keys, "building the %s source: %v", srcKind, err)
		return
	}
	var out bytes.Buffer
	var got []c11B
	copied0, reenc0 := parquet.VerifPathCounters()
	if c.guard("c11.panic", keys, func() {
		w := parquet.NewGenericWriter[c11B](&out, dstOpts...)
		if _, err = w.WriteRowGroup(src); err != nil {
			return
		}
		if err = w.Close(); err != nil {
			return
		}
		got, err = parquet.Read[c11B](bytes.NewReader(out.Bytes()), int64(out.Len()))
	}) {
		return
	}
	if err != nil {
		c.Fail("c11.write_error", keys, "WriteRowGroup(%s): %v", srcKind, err)
		return
	}
	copied1, reenc1 := parquet.VerifPathCounters()
	path := "row"
	if copied1 > copied0 {
		path = "verbatim_copy"
	} else if reenc1 > reenc0 {
		path = "column_reencode"
	}
	keys["path"] = path
	c.Obs("path_"+path, 1)
	c.Obs("source_"+srcKind, 1)
	if len(got) != len(want) {
		c.Fail("c11.rows_differ", keys, "%s: %d rows expected, the file written through WriteRowGroup holds %d", srcKind, len(want), len(got))
		return
	}
	for i := range want {
		if got[i].ID != want[i].ID || !got[i].T.Equal(want[i].T) || got[i].S != want[i].S {
			c.Fail("c11.rows_differ", keys, "%s (%s path): row %d is {id %d, t %v, s %q}, expected {id %d, t %v, s %q}: the value conversion of the source was bypassed or rows were reordered", srcKind, path, i, got[i].ID, got[i].T, got[i].S, want[i].ID, want[i].T, want[i].S)
			return
		}
	}
	c.Obs("comparisons", 1)
	c.Obs("value_conversions_checked", 1)
}
