package main

import (
	"bytes"
	"errors"
	"fmt"
	"io"
	"reflect"

	"github.com/parquet-go/parquet-go"

	"verif/gen"
	"verif/model"
)

func openBytes(b []byte, opts ...parquet.FileOption) (*parquet.File, error) {
	return parquet.OpenFile(bytes.NewReader(b), int64(len(b)), opts...)
}

// readRowsAll drains a Rows reader with the given batch size, cloning every row.
func readRowsAll(rows parquet.RowReader, batch int) ([]parquet.Row, error) {
	if batch <= 0 {
		batch = 64
	}
	buf := make([]parquet.Row, batch)
	var out []parquet.Row
	for guard := 0; ; guard++ {
		n, err := rows.ReadRows(buf)
		for _, r := range buf[:n] {
			out = append(out, r.Clone())
		}
		if err != nil {
			if errors.Is(err, io.EOF) {
				return out, nil
			}
			return out, err
		}
		if n == 0 && guard > 1000000 {
			return out, errors.New("ReadRows made no progress")
		}
	}
}

// fileRows reads every row of every row group through RowGroup.Rows().
func fileRows(f *parquet.File, batch int) ([]parquet.Row, error) {
	var out []parquet.Row
	for i, rg := range f.RowGroups() {
		rr := rg.Rows()
		rows, err := readRowsAll(rr, batch)
		rr.Close()
		out = append(out, rows...)
		if err != nil {
			return out, fmt.Errorf("row group %d: %w", i, err)
		}
	}
	return out, nil
}

func rowGroupRows(rg parquet.RowGroup, batch int) ([]parquet.Row, error) {
	rr := rg.Rows()
	defer rr.Close()
	return readRowsAll(rr, batch)
}

func numLeaves(s *parquet.Schema) int { return len(s.Columns()) }

// writeHist is a PRNG split of n rows into Write calls and Flushes.
type wop struct {
	Flush  bool
	Lo, Hi int
}

func genWriteHist(r *gen.Rand, n int) []wop {
	var ops []wop
	mode := r.Intn(5)
	for lo := 0; lo < n; {
		var k int
		switch mode {
		case 0:
			k = n
		case 1:
			k = 1
		case 2:
			k = gen.Pick(r, []int{1, 2, 63, 64, 65, 100})
		case 3:
			k = 1 + r.Intn(40)
		default:
			k = gen.Pick(r, []int{0, 1, 7, 8, 9, 31, 32, 33, 127, 128, 129, 200})
		}
		if lo+k > n {
			k = n - lo
		}
		ops = append(ops, wop{Lo: lo, Hi: lo + k})
		lo += k
		if k == 0 {
			mode = 3
		}
		if r.P(8) {
			ops = append(ops, wop{Flush: true})
		}
	}
	if n == 0 && r.Bool() {
		ops = append(ops, wop{Lo: 0, Hi: 0})
	}
	return ops
}

func histDesc(ops []wop) string {
	var b bytes.Buffer
	for i, o := range ops {
		if i > 12 {
			fmt.Fprintf(&b, "…(%d ops)", len(ops))
			break
		}
		if o.Flush {
			b.WriteString("F ")
		} else {
			fmt.Fprintf(&b, "W%d ", o.Hi-o.Lo)
		}
	}
	return b.String()
}

// writeTyped runs a write history on GenericWriter[T].
func writeTyped(te *typeEntry, rows reflect.Value, ops []wop, opts []parquet.WriterOption) ([]byte, error) {
	var buf bytes.Buffer
	w := te.ops.NewWriter(&buf, opts...)
	for _, o := range ops {
		if o.Flush {
			if err := w.Flush(); err != nil {
				return nil, fmt.Errorf("Flush: %w", err)
			}
			continue
		}
		n, err := te.ops.Write(w, rows.Slice(o.Lo, o.Hi))
		if err != nil {
			return nil, fmt.Errorf("Write[%d:%d]: %w", o.Lo, o.Hi, err)
		}
		if n != o.Hi-o.Lo {
			return nil, fmt.Errorf("Write[%d:%d] returned n=%d with nil error", o.Lo, o.Hi, n)
		}
	}
	if err := w.Close(); err != nil {
		return nil, fmt.Errorf("Close: %w", err)
	}
	return buf.Bytes(), nil
}

// writeReflect runs a write history on Writer.Write(any), one row per call.
func writeReflect(te *typeEntry, rows reflect.Value, ops []wop, opts []parquet.WriterOption) ([]byte, error) {
	var buf bytes.Buffer
	o2 := append([]parquet.WriterOption{te.ops.Schema()}, opts...)
	w := parquet.NewWriter(&buf, o2...)
	for _, o := range ops {
		if o.Flush {
			if err := w.Flush(); err != nil {
				return nil, fmt.Errorf("Flush: %w", err)
			}
			continue
		}
		for i := o.Lo; i < o.Hi; i++ {
			var arg any
			if i%2 == 0 {
				arg = rows.Index(i).Interface()
			} else {
				arg = rows.Index(i).Addr().Interface()
			}
			if err := w.Write(arg); err != nil {
				return nil, fmt.Errorf("Write(row %d): %w", i, err)
			}
		}
	}
	if err := w.Close(); err != nil {
		return nil, fmt.Errorf("Close: %w", err)
	}
	return buf.Bytes(), nil
}

// streamsOfFile reads the file's rows at the (value, r, d) level.
func streamsOfFile(f *parquet.File, batch int) (model.Streams, error) {
	rows, err := fileRows(f, batch)
	if err != nil {
		return nil, err
	}
	return model.RowsToStreams(rows, numLeaves(f.Schema())), nil
}

// hasMultiEntryMaps reports whether stream-level comparison would depend on Go
// map iteration order.
func typeHasMap(t reflect.Type) bool {
	switch t.Kind() {
	case reflect.Map:
		return true
	case reflect.Ptr, reflect.Slice, reflect.Array:
		return typeHasMap(t.Elem())
	case reflect.Struct:
		if t == timeType {
			return false
		}
		for i := 0; i < t.NumField(); i++ {
			if typeHasMap(t.Field(i).Type) {
				return true
			}
		}
	}
	return false
}
