package main

import (
	"os"
	"regexp"
	"runtime"
	"strconv"
	"strings"
	"sync/atomic"
	"syscall"
	"time"
)

// The per-case watchdog (DESIGN §2.4, §4 C15). Its verdicts do not depend on
// wall-clock time on a loaded machine:
//   - livelock: the case has consumed more CPU time than `cpuLimit` (300 CPU-s,
//     1200 in the thorough tier, x4 for cases marked heavy; the heaviest
//     legitimate case observed needs ~65 CPU-s; CPU seconds do not depend on
//     machine load, unlike wall-clock time);
//   - deadlock: no CPU has been consumed for a while AND every goroutine other
//     than the watchdog is blocked on a channel/lock/condition, so no event
//     can ever wake them up (the harness has no timers or I/O pending);
//   - stalled: anything else that exceeds the generous wall-clock limit; this
//     is reported as inconclusive, never as a violation.
//
// heavyCase is set by cases that legitimately burn CPU on many goroutines
// (16-way concurrent histories under the race detector); their CPU budget is 4x.
var heavyCase atomic.Int64

type watchdog struct {
	startCPU  atomic.Int64
	startWall atomic.Int64
}

func processCPU() time.Duration {
	var ru syscall.Rusage
	syscall.Getrusage(syscall.RUSAGE_SELF, &ru)
	return time.Duration(ru.Utime.Nano() + ru.Stime.Nano())
}

func (w *watchdog) begin(i int) {
	curCase.Store(int64(i))
	heavyCase.Store(0)
	w.startCPU.Store(int64(processCPU()))
	w.startWall.Store(time.Now().UnixNano())
}

func envInt(name string, def int) int {
	if s := os.Getenv(name); s != "" {
		if n, err := strconv.Atoi(s); err == nil {
			return n
		}
	}
	return def
}

func startWatchdog(tier string, fire func(kind string, cpu, wall float64, stack string)) *watchdog {
	w := &watchdog{}
	w.begin(-1)
	cpuLimit := time.Duration(envInt("VERIF_CASE_CPU_S", 300)) * time.Second
	idleLimit := time.Duration(envInt("VERIF_CASE_IDLE_S", 90)) * time.Second
	wallLimit := time.Duration(envInt("VERIF_CASE_WALL_S", 600)) * time.Second
	if tier == "thorough" {
		cpuLimit *= 4
		wallLimit *= 3
	}
	go func() {
		lastCPU := processCPU()
		lastProgress := time.Now()
		lastCase := curCase.Load()
		for {
			time.Sleep(500 * time.Millisecond)
			now := time.Now()
			cpu := processCPU()
			if c := curCase.Load(); c != lastCase {
				lastCase, lastCPU, lastProgress = c, cpu, now
				continue
			}
			if cpu-lastCPU > 200*time.Millisecond {
				lastCPU, lastProgress = cpu, now
			}
			used := cpu - time.Duration(w.startCPU.Load())
			wall := now.Sub(time.Unix(0, w.startWall.Load()))
			switch {
			case used > cpuLimit*time.Duration(1+3*heavyCase.Load()):
				fire("livelock", used.Seconds(), wall.Seconds(), allStacks())
			case now.Sub(lastProgress) > idleLimit:
				st := allStacks()
				if allBlocked(st) {
					fire("deadlock", used.Seconds(), wall.Seconds(), st)
				}
				if wall > wallLimit {
					fire("stalled", used.Seconds(), wall.Seconds(), st)
				}
			case wall > wallLimit:
				fire("stalled", used.Seconds(), wall.Seconds(), allStacks())
			}
		}
	}()
	return w
}

func allStacks() string {
	buf := make([]byte, 1<<20)
	for {
		n := runtime.Stack(buf, true)
		if n < len(buf) {
			return string(buf[:n])
		}
		buf = make([]byte, 2*len(buf))
	}
}

var reGoroutineHdr = regexp.MustCompile(`(?m)^goroutine \d+ \[([^\]]+)\]:$`)

// allBlocked reports whether every goroutine except the one taking the dump
// (running) is parked in a state that only another goroutine can end.
func allBlocked(stacks string) bool {
	blocks := strings.Split(stacks, "\n\n")
	n := 0
	for _, b := range blocks {
		m := reGoroutineHdr.FindStringSubmatch(b)
		if m == nil {
			continue
		}
		state := m[1]
		if i := strings.Index(state, ","); i >= 0 {
			state = state[:i]
		}
		if strings.Contains(b, "main.startWatchdog") || strings.Contains(b, "main.allStacks") {
			continue
		}
		switch state {
		case "chan receive", "chan send", "select", "select (no cases)", "semacquire", "sync.Mutex.Lock", "sync.RWMutex.Lock", "sync.RWMutex.RLock",
			"sync.Cond.Wait", "sync.WaitGroup.Wait", "chan receive (nil chan)", "chan send (nil chan)":
			n++
		case "GC worker (idle)", "GC sweep wait", "GC scavenge wait", "finalizer wait", "force gc (idle)", "debug call", "cleanup wait":
			// runtime system goroutines
		default:
			return false // running, runnable, syscall, IO wait, sleep: something can still happen
		}
	}
	return n > 0
}

// topRepoFrameAny finds the first library frame of the first goroutine that has one.
func topRepoFrameAny(stack string) string {
	for _, b := range strings.Split(stack, "\n\n") {
		if strings.Contains(b, "main.startWatchdog") {
			continue
		}
		if f := topRepoFrame(b); f != "" {
			return f
		}
	}
	return ""
}
