package main

import (
	"bytes"
	"fmt"
	"math"
	"reflect"
	"sort"
	"strings"

	"github.com/parquet-go/parquet-go"

	"verif/gen"
)

// C10: sorting buffers and the sorting writer output a correctly ordered permutation.

func init() {
	register(&PropDef{
		ID:    "C10",
		Level: "exploration",
		Cases: func(t string) int {
			if t == "thorough" {
				return 32000
			}
			return 3000
		},
		Batch: func(t string) int { return 50 },
		Floors: []string{"sorted_outputs_checked", "target_GenericBuffer", "target_Buffer", "target_RowBuffer", "target_SortingWriter", "desc_nullable_key", "nulls_first_key", "two_column_keys", "resort_histories", "reset_reuse_histories",
			"dedup_runs", "library_comparator_checks", "rows_with_null_keys", "rows_with_duplicate_keys", "sorting_metadata_checks"},
		Rule: "case = (target: GenericBuffer / Buffer / RowBuffer / SortingWriter with sort-run sizes {1,2,7,100} and optional duplicate dropping; 1-2 sorting columns over required/optional int64, strings, floats, booleans with every direction x null placement; " +
			"rows with nulls and duplicate keys; write batchings producing null/non-null runs around 8 and 64; histories write-sort-read-write-sort-Reset-reuse). Oracle: output ids are a permutation of the input ids, every row is intact across all columns, " +
			"adjacent rows are ordered by an independent comparator (spec orders, direction, null placement as declared) AND by Schema.Comparator, file sorting metadata equals the configuration, dedup leaves one row per key. Distinct = descriptor hash",
		Assumptions: []string{"NaN sort keys are only checked for completeness (no row lost, one row per key with duplicate dropping, NaN being one key): no order is demanded of them", "ties may come out in any order"},
		Run:         runC10,
	})
}

type c10Group struct {
	X *int64 `parquet:"x"`
	Y string `parquet:"y"`
}

type c10Row struct {
	P0 []int64   `parquet:"p0"` // a repeated column located before every sort key
	ID int64     `parquet:"id"`
	K1 int64     `parquet:"k1"`
	K2 *int64    `parquet:"k2"`
	S  string    `parquet:"s,dict"`
	OS *string   `parquet:"os"`
	F  float64   `parquet:"f"`
	B  bool      `parquet:"b"`
	P  []int64   `parquet:"p"`
	V  string    `parquet:"v"`
	O3 int32     `parquet:"o3,optional"`
	G  *c10Group `parquet:"g"` // g.x: optional leaf in an optional group (two definition levels)
}

func init() { reg[c10Row]("c10row") }

type sortKey struct {
	col        string
	desc       bool
	nullsFirst bool
}

func (k sortKey) String() string {
	s := k.col
	if k.desc {
		s += " desc"
	}
	if k.nullsFirst {
		s += " nulls-first"
	}
	return s
}

func (k sortKey) column() parquet.SortingColumn {
	var sc parquet.SortingColumn
	if k.desc {
		sc = parquet.Descending(strings.Split(k.col, ".")...)
	} else {
		sc = parquet.Ascending(strings.Split(k.col, ".")...)
	}
	if k.nullsFirst {
		sc = parquet.NullsFirst(sc)
	}
	return sc
}

// keyOf extracts (isNull, comparable) of a key column from a row.
func c10KeyOf(row *c10Row, col string) (null bool, v any) {
	switch col {
	case "k1":
		return false, row.K1
	case "k2":
		if row.K2 == nil {
			return true, nil
		}
		return false, *row.K2
	case "s":
		return false, row.S
	case "os":
		if row.OS == nil {
			return true, nil
		}
		return false, *row.OS
	case "f":
		return false, row.F
	case "b":
		return false, row.B
	case "o3":
		if row.O3 == 0 {
			return true, nil
		}
		return false, int64(row.O3)
	case "p":
		return false, row.P
	case "g.x":
		if row.G == nil || row.G.X == nil {
			return true, nil
		}
		return false, *row.G.X
	}
	panic("c10: unknown key " + col)
}

func cmpAny(a, b any) int {
	switch x := a.(type) {
	case int64:
		y := b.(int64)
		switch {
		case x < y:
			return -1
		case x > y:
			return 1
		}
	case string:
		return strings.Compare(x, b.(string))
	case float64:
		y := b.(float64)
		switch {
		case x < y:
			return -1
		case x > y:
			return 1
		}
	case []int64:
		y := b.([]int64)
		for i := 0; i < len(x) && i < len(y); i++ {
			if x[i] != y[i] {
				if x[i] < y[i] {
					return -1
				}
				return 1
			}
		}
		switch {
		case len(x) < len(y):
			return -1
		case len(x) > len(y):
			return 1
		}
	case bool:
		y := b.(bool)
		switch {
		case !x && y:
			return -1
		case x && !y:
			return 1
		}
	}
	return 0
}

// c10Compare is the independent comparator: direction applies to values, the
// null placement is absolute (nulls first or last as declared).
func c10Compare(a, b *c10Row, keys []sortKey) int {
	for _, k := range keys {
		an, av := c10KeyOf(a, k.col)
		bn, bv := c10KeyOf(b, k.col)
		switch {
		case an && bn:
			continue
		case an:
			if k.nullsFirst {
				return -1
			}
			return 1
		case bn:
			if k.nullsFirst {
				return 1
			}
			return -1
		}
		c := cmpAny(av, bv)
		if k.desc {
			c = -c
		}
		if c != 0 {
			return c
		}
	}
	return 0
}

// c10RepeatedKey: the case sorts on the repeated column p (set by runC10 before any row is generated).
var c10RepeatedKey bool

func c10GenRows(r *gen.Rand, n, idBase int) []c10Row {
	rows := make([]c10Row, n)
	nulls2, nullsOS, nulls3 := r.NullPattern(n), r.NullPattern(n), r.NullPattern(n)
	dupHeavy := r.Bool()
	for i := range rows {
		row := &rows[i]
		row.ID = int64(idBase + i)
		if dupHeavy {
			row.K1 = int64(r.Intn(6)) - 2
		} else {
			row.K1 = r.Int64()
		}
		if nulls2[i] {
			v := int64(r.Intn(9)) - 4
			if r.P(20) {
				v = r.Int64()
			}
			row.K2 = &v
		}
		row.S = gen.Pick(r, []string{"", "a", "aa", "b", "\xff", "zz", "prefix/1", "prefix/2"})
		if nullsOS[i] {
			s := gen.Pick(r, []string{"", "x", "y", "yy", "\xff\xff"})
			row.OS = &s
		}
		row.F = r.F64(false)
		row.B = r.Bool()
		if c10RepeatedKey {
			// the repeated column is the sort key: short non-empty lists over three values, so that rows share prefixes
			row.P = make([]int64, 1+r.Intn(3))
			for j := range row.P {
				row.P[j] = int64(1 + r.Intn(3))
			}
		} else if r.P(60) {
			row.P = make([]int64, r.Intn(4))
			for j := range row.P {
				row.P[j] = int64(row.ID*10 + int64(j))
			}
		}
		row.V = fmt.Sprintf("payload-%d", row.ID)
		if nulls3[i] {
			row.O3 = int32(1 + r.Intn(5))
		}
		if r.P(70) {
			row.P0 = make([]int64, r.Intn(4))
			for j := range row.P0 {
				row.P0[j] = -row.ID*10 - int64(j)
			}
		}
		switch r.Intn(4) {
		case 0: // group absent
		case 1:
			row.G = &c10Group{Y: "leaf-null"}
		default:
			x := int64(r.Intn(7)) - 3
			row.G = &c10Group{X: &x, Y: "set"}
		}
	}
	return rows
}

func c10PickKeys(r *gen.Rand) []sortKey {
	cols := []string{"k1", "k2", "s", "os", "f", "b", "o3", "g.x"}
	n := 1 + r.Intn(2)
	var keys []sortKey
	used := map[string]bool{}
	for len(keys) < n {
		col := gen.Pick(r, cols)
		if used[col] {
			continue
		}
		used[col] = true
		keys = append(keys, sortKey{col: col, desc: r.Bool(), nullsFirst: r.Bool()})
	}
	return keys
}

// c10NaNKeys: a float sort key that holds NaN. No order is demanded (NaN has none that every sorter agrees on), but no
// row may be lost: without duplicate dropping the output is a permutation of the input; with it, one row per distinct
// key remains, where NaN is a key of its own.
func c10NaNKeys(c *Ctx, r *gen.Rand) {
	n := gen.Pick(r, []int{4, 30, 300})
	dedup := r.Bool()
	rows := make([]c10Row, n)
	distinct := map[uint64]bool{}
	hasNaN := false
	for i := range rows {
		f := float64(r.Intn(12)) / 2
		if r.P(25) {
			f = math.NaN()
		}
		rows[i] = c10Row{ID: int64(i), F: f, S: "s", V: "v"}
	}
	if r.Bool() {
		rows[0].F = math.NaN() // NaN first: every later row is compared with it
	}
	for i := range rows {
		if rows[i].F != rows[i].F {
			hasNaN = true
		} else {
			distinct[math.Float64bits(rows[i].F)] = true
		}
	}
	c.D("nan_keys", true)
	c.D("rows", n)
	c.D("dedup", dedup)
	k := map[string]any{"target": "SortingWriter", "nan_keys": true, "dedup": dedup}
	sopts := []parquet.SortingOption{parquet.SortingColumns(gen.Pick(r, []parquet.SortingColumn{parquet.Ascending("f"), parquet.Descending("f")}))}
	if dedup {
		sopts = append(sopts, parquet.DropDuplicatedRows(true))
	}
	var buf bytes.Buffer
	var out []c10Row
	var err error
	if c.guard("c10.panic", k, func() {
		w := parquet.NewSortingWriter[c10Row](&buf, int64(gen.Pick(r, []int{1, 7, 100})), parquet.SortingWriterConfig(sopts...))
		if _, err = w.Write(rows); err != nil {
			return
		}
		if err = w.Close(); err != nil {
			return
		}
		out, err = parquet.Read[c10Row](bytes.NewReader(buf.Bytes()), int64(buf.Len()))
	}) {
		return
	}
	if err != nil {
		c.Fail("c10.error", k, "sorting writer with NaN keys: %v", err)
		return
	}
	want := n
	if dedup {
		want = len(distinct)
		if hasNaN {
			want++
		}
	}
	seenID := map[int64]bool{}
	gotKeys := map[uint64]int{}
	nans := 0
	for i := range out {
		if seenID[out[i].ID] {
			c.Fail("c10.duplicated_rows", k, "row id %d occurs twice in the output", out[i].ID)
			return
		}
		seenID[out[i].ID] = true
		if out[i].F != out[i].F {
			nans++
		} else {
			gotKeys[math.Float64bits(out[i].F)]++
		}
	}
	if len(out) != want {
		desc := ""
		for i := range out {
			if i < 40 {
				desc += fmt.Sprintf(" %d:%v", out[i].ID, out[i].F)
			}
		}
		if len(out) > want {
			// more rows than keys: duplicates of a key survived
			c.Fail("c10.dedup", k, "float sort key with NaN values: %d rows written with %d distinct non-NaN keys (NaN present: %v), %d rows in the output although duplicates are dropped, expected %d (%d NaN rows); output (id:f)%s", n, len(distinct), hasNaN, len(out), want, nans, desc)
			return
		}
		c.Fail("c10.lost_rows", k, "float sort key with NaN values (dedup=%v): %d rows written with %d distinct non-NaN keys (NaN present: %v), %d rows in the output, expected %d; output (id:f)%s", dedup, n, len(distinct), hasNaN, len(out), want, desc)
		return
	}
	for b := range distinct {
		if gotKeys[b] == 0 || (dedup && gotKeys[b] != 1) {
			desc := ""
			for i := range out {
				if i < 40 {
					desc += fmt.Sprintf(" %d:%v", out[i].ID, out[i].F)
				}
			}
			in := ""
			for i := range rows {
				if i < 40 {
					in += fmt.Sprintf(" %d:%v", rows[i].ID, rows[i].F)
				}
			}
			c.Fail("c10.lost_rows", k, "key %v occurs %d times in the output (dedup=%v); input (id:f)%s; output%s", math.Float64frombits(b), gotKeys[b], dedup, in, desc)
			return
		}
	}
	c.Obs("nan_key_outputs_checked", 1)
}

func runC10(c *Ctx) {
	r := c.R
	if c.Case%9 == 4 {
		c10NaNKeys(c, r)
		return
	}
	te := typeByName("c10row")
	schema := te.ops.Schema()
	keys := c10PickKeys(r)
	if r.P(10) {
		// a repeated column as the only key, ascending: rows compare element by element, a prefix comes first
		keys = []sortKey{{col: "p"}}
	}
	c10RepeatedKey = keys[0].col == "p"
	if c10RepeatedKey {
		c.Obs("repeated_sort_key", 1)
	}
	var scs []parquet.SortingColumn
	var kdesc []string
	for _, k := range keys {
		scs = append(scs, k.column())
		kdesc = append(kdesc, k.String())
		nullable := k.col == "k2" || k.col == "os" || k.col == "o3" || k.col == "g.x"
		if k.desc && nullable {
			c.Obs("desc_nullable_key", 1)
		}
		if k.nullsFirst && nullable {
			c.Obs("nulls_first_key", 1)
		}
	}
	if len(keys) == 2 {
		c.Obs("two_column_keys", 1)
	}
	target := []string{"GenericBuffer", "Buffer", "RowBuffer", "SortingWriter"}[c.Case%4]
	c.D("target", target)
	c.D("keys", strings.Join(kdesc, ", "))
	libCmp := schema.Comparator(scs...)
	kd := map[string]any{"target": target, "keys": strings.Join(kdesc, ", ")}
	for _, k := range keys {
		if k.desc && (k.col == "k2" || k.col == "os" || k.col == "o3" || k.col == "g.x") {
			kd["desc_nullable"] = true
		}
	}

	// check verifies one sorted output against the multiset of input rows
	check := func(phase string, out []c10Row, prows []parquet.Row, input map[int64]*c10Row, dedup bool) bool {
		k := map[string]any{"phase": phase}
		for a, b := range kd {
			k[a] = b
		}
		seen := map[int64]bool{}
		for i := range out {
			in, ok := input[out[i].ID]
			if !ok {
				c.Fail("c10.unknown_row", k, "%s: output row %d has id %d which was never written", phase, i, out[i].ID)
				return false
			}
			if seen[out[i].ID] {
				c.Fail("c10.duplicated_row", k, "%s: id %d appears twice in the output", phase, out[i].ID)
				return false
			}
			seen[out[i].ID] = true
			if ok2, diff := eqNorm(reflect.ValueOf(in).Elem(), reflect.ValueOf(&out[i]).Elem(), ""); !ok2 {
				c.Fail("c10.torn_row", k, "%s: output row with id %d is not the row that was written (columns mixed between rows?): %s", phase, out[i].ID, diff)
				return false
			}
		}
		if !dedup && len(out) != len(input) {
			c.Fail("c10.lost_rows", k, "%s: %d rows written, %d in the sorted output", phase, len(input), len(out))
			return false
		}
		for i := 1; i < len(out); i++ {
			cm := c10Compare(&out[i-1], &out[i], keys)
			if cm > 0 {
				k["order"] = "model"
				c.Fail("c10.unordered", k, "%s: rows %d and %d are out of order for [%s]: ids %d, %d (keys %v | %v)", phase, i-1, i, strings.Join(kdesc, ", "), out[i-1].ID, out[i].ID, c10Keys(&out[i-1], keys), c10Keys(&out[i], keys))
				return false
			}
			if dedup && cm == 0 {
				c.Fail("c10.dedup", k, "%s: rows %d and %d have the same sort key although duplicates are dropped (ids %d, %d)", phase, i-1, i, out[i-1].ID, out[i].ID)
				return false
			}
			if prows != nil {
				c.Obs("library_comparator_checks", 1)
				if libCmp(prows[i-1], prows[i]) > 0 {
					k["order"] = "library"
					c.Fail("c10.unordered", k, "%s: Schema.Comparator says rows %d and %d are out of order although the model accepts them: ids %d, %d (keys %v | %v)", phase, i-1, i, out[i-1].ID, out[i].ID, c10Keys(&out[i-1], keys), c10Keys(&out[i], keys))
					return false
				}
			}
		}
		if dedup {
			// every distinct key of the input must survive exactly once
			all := make([]*c10Row, 0, len(input))
			for _, in := range input {
				all = append(all, in)
			}
			sort.Slice(all, func(i, j int) bool { return c10Compare(all[i], all[j], keys) < 0 })
			distinct := 0
			for i := range all {
				if i == 0 || c10Compare(all[i-1], all[i], keys) != 0 {
					distinct++
				}
			}
			if distinct != len(out) {
				c.Fail("c10.dedup", k, "%s: input has %d distinct keys, output has %d rows", phase, distinct, len(out))
				return false
			}
		}
		c.Obs("sorted_outputs_checked", 1)
		return true
	}

	readBack := func(rg parquet.RowGroup) ([]c10Row, []parquet.Row, error) {
		prows, err := rowGroupRows(rg, gen.Pick(r, []int{1, 7, 64, 1000}))
		if err != nil {
			return nil, nil, err
		}
		out := make([]c10Row, len(prows))
		for i, pr := range prows {
			if err := schema.Reconstruct(&out[i], pr); err != nil {
				return nil, nil, err
			}
		}
		return out, prows, nil
	}
	account := func(rows []c10Row, input map[int64]*c10Row) {
		seenKeys := map[string]bool{}
		for i := range rows {
			input[rows[i].ID] = &rows[i]
			ks := fmt.Sprint(c10Keys(&rows[i], keys))
			if seenKeys[ks] {
				c.Obs("rows_with_duplicate_keys", 1)
			}
			seenKeys[ks] = true
			for _, k := range keys {
				if n, _ := c10KeyOf(&rows[i], k.col); n {
					c.Obs("rows_with_null_keys", 1)
					break
				}
			}
		}
	}

	c.guard("c10.panic", kd, func() {
		switch target {
		case "SortingWriter":
			n := gen.Pick(r, []int{1, 10, 100, 300})
			rows := c10GenRows(r, n, 0)
			run := gen.Pick(r, []int64{1, 2, 7, 100})
			dedup := r.P(40)
			c.D("rows", n)
			c.D("run", run)
			c.D("dedup", dedup)
			sopts := []parquet.SortingOption{parquet.SortingColumns(scs...)}
			if dedup {
				sopts = append(sopts, parquet.DropDuplicatedRows(true))
				c.Obs("dedup_runs", 1)
			}
			// where the sorted runs are spilled: default memory buffers, chunked memory, or temporary files
			switch r.Intn(4) {
			case 1:
				sopts = append(sopts, parquet.SortingBuffers(parquet.NewChunkBufferPool(gen.Pick(r, []int{16, 64, 4096}))))
				c.Obs("sorting_buffers_chunked", 1)
			case 2:
				sopts = append(sopts, parquet.SortingBuffers(parquet.NewFileBufferPool("", "verif-c10.*")))
				c.Obs("sorting_buffers_file", 1)
			}
			var buf bytes.Buffer
			w := parquet.NewSortingWriter[c10Row](&buf, run, parquet.SortingWriterConfig(sopts...), parquet.PageBufferSize(gen.Pick(r, []int{64, 1024, 65536})))
			for lo := 0; lo < n; {
				hi := lo + 1 + r.Intn(40)
				if hi > n {
					hi = n
				}
				if _, err := w.Write(rows[lo:hi]); err != nil {
					c.Fail("c10.write_error", kd, "SortingWriter.Write: %v", err)
					return
				}
				lo = hi
			}
			if err := w.Close(); err != nil {
				c.Fail("c10.write_error", kd, "SortingWriter.Close: %v", err)
				return
			}
			f, err := openBytes(buf.Bytes())
			if err != nil {
				c.Fail("c10.read_error", kd, "open: %v", err)
				return
			}
			input := map[int64]*c10Row{}
			account(rows, input)
			var out []c10Row
			var prows []parquet.Row
			for _, rg := range f.RowGroups() {
				o, p, err := readBack(rg)
				if err != nil {
					c.Fail("c10.read_error", kd, "read: %v", err)
					return
				}
				out, prows = append(out, o...), append(prows, p...)
				// sorting metadata equals the configuration
				c.Obs("sorting_metadata_checks", 1)
				got := rg.SortingColumns()
				if len(got) != len(scs) {
					c.Fail("c10.sorting_metadata", kd, "file declares %d sorting columns, configured %d", len(got), len(scs))
					return
				}
				for i := range got {
					if strings.Join(got[i].Path(), ".") != keys[i].col || got[i].Descending() != keys[i].desc || got[i].NullsFirst() != keys[i].nullsFirst {
						c.Fail("c10.sorting_metadata", kd, "sorting column %d in the file is (%v desc=%v nullsFirst=%v), configured %s", i, got[i].Path(), got[i].Descending(), got[i].NullsFirst(), keys[i])
						return
					}
				}
			}
			check("sorting-writer", out, prows, input, dedup)
		default:
			// buffers: history write, sort, read, write more, sort again, reset, reuse
			cfg := parquet.SortingRowGroupConfig(parquet.SortingColumns(scs...))
			var write func(rows []c10Row) error
			var buf interface {
				parquet.RowGroup
				sort.Interface
				Reset()
			}
			switch target {
			case "GenericBuffer":
				b := parquet.NewGenericBuffer[c10Row](cfg)
				buf = b
				write = func(rows []c10Row) error { _, err := b.Write(rows); return err }
			case "Buffer":
				b := parquet.NewBuffer(schema, cfg)
				buf = b
				write = func(rows []c10Row) error {
					for i := range rows {
						if err := b.Write(&rows[i]); err != nil {
							return err
						}
					}
					return nil
				}
			default:
				b := parquet.NewRowBuffer[c10Row](cfg)
				buf = b
				write = func(rows []c10Row) error { _, err := b.Write(rows); return err }
			}
			input := map[int64]*c10Row{}
			next := 0
			rounds := 1 + r.Intn(3)
			c.D("rounds", rounds)
			for round := 0; round < rounds; round++ {
				n := gen.Pick(r, []int{1, 5, 9, 40, 130})
				rows := c10GenRows(r, n, next)
				next += n
				for lo := 0; lo < n; {
					hi := lo + gen.Pick(r, []int{1, 3, 8, 9, 64, 200})
					if hi > n {
						hi = n
					}
					if err := write(rows[lo:hi]); err != nil {
						c.Fail("c10.write_error", kd, "Write: %v", err)
						return
					}
					lo = hi
				}
				account(rows, input)
				sort.Sort(buf)
				out, prows, err := readBack(buf)
				if err != nil {
					c.Fail("c10.read_error", kd, "reading the sorted buffer: %v", err)
					return
				}
				phase := "sort#" + fmt.Sprint(round+1)
				if round > 0 {
					c.Obs("resort_histories", 1)
				}
				if !check(phase, out, prows, input, false) {
					return
				}
				if r.P(25) && round+1 < rounds {
					buf.Reset()
					input = map[int64]*c10Row{}
					c.Obs("reset_reuse_histories", 1)
				}
			}
		}
		c.Obs("target_"+target, 1)
	})
}

func c10Keys(row *c10Row, keys []sortKey) []any {
	var out []any
	for _, k := range keys {
		n, v := c10KeyOf(row, k.col)
		if n {
			out = append(out, "null")
		} else {
			out = append(out, v)
		}
	}
	return out
}
