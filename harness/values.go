package main

import (
	"bytes"
	"fmt"
	"math"
	"reflect"
	"strconv"
	"strings"
	"time"

	"verif/gen"
)

var timeType = reflect.TypeOf(time.Time{})

type genOpts struct {
	NoNaN           bool // no NaN anywhere (sort keys)
	SmallLists      bool // lists of at most 5 elements, no long byte strings
	NoHuge          bool // no 70 KiB strings / 1025-element lists
	SingleEntryMaps bool // maps hold at most one entry (stream-level comparisons)
}

type fieldPlan struct {
	mode    int // 0 boundary mix, 1 small alphabet, 2 ramp, 3 constant, 4 random
	pattern []bool
	base    int64
	step    int64
}

type rowGen struct {
	r     *gen.Rand
	n     int
	plans map[string]*fieldPlan
	o     genOpts
}

func (g *rowGen) plan(path string) *fieldPlan {
	top := path
	if i := strings.Index(path, "."); i >= 0 {
		top = path[:i]
	}
	if i := strings.Index(top, "["); i >= 0 {
		top = top[:i]
	}
	p := g.plans[top]
	if p == nil {
		p = &fieldPlan{mode: g.r.Intn(5), pattern: g.r.NullPattern(g.n), base: g.r.Int64() % 1000000, step: int64(g.r.Intn(7)) - 2}
		if g.r.Intn(12) == 0 {
			// all present / all null columns
			all := g.r.Bool()
			for i := range p.pattern {
				p.pattern[i] = all
			}
		}
		g.plans[top] = p
	}
	return p
}

// genRows fills n rows of the catalogue type. Row i has ID == idBase+i.
func genRows(r *gen.Rand, te *typeEntry, n int, o genOpts) reflect.Value {
	rows := te.ops.NewRows(n)
	g := &rowGen{r: r, n: n, plans: map[string]*fieldPlan{}, o: o}
	for i := 0; i < n; i++ {
		g.fill(rows.Index(i), "", "", i, 0, true)
	}
	return rows
}

func hasOpt(tag, opt string) bool {
	parts := strings.Split(tag, ",")
	for _, p := range parts[1:] {
		if p == opt || strings.HasPrefix(p, opt+"(") {
			return true
		}
	}
	return false
}

func tagArg(tag, opt string) string {
	parts := strings.Split(tag, ",")
	for _, p := range parts[1:] {
		if strings.HasPrefix(p, opt+"(") {
			return strings.TrimSuffix(p[len(opt)+1:], ")")
		}
	}
	return ""
}

func (g *rowGen) present(path string, row int, top bool) bool {
	if top {
		return g.plan(path).pattern[row]
	}
	return g.r.P(70)
}

// fill sets v (addressable) to a generated value. tag is the parquet struct tag of
// the field holding v ("" for elements). top is true for direct fields of the row.
func (g *rowGen) fill(v reflect.Value, tag, path string, row, depth int, top bool) {
	r := g.r
	t := v.Type()
	if t == timeType {
		if hasOpt(tag, "optional") && !g.present(path, row, top) {
			v.Set(reflect.Zero(t)) // the zero time is the null of an optional non-pointer time.Time
			return
		}
		v.Set(reflect.ValueOf(g.genTime(tag, path, row)))
		return
	}
	switch t.Kind() {
	case reflect.Struct:
		for i := 0; i < t.NumField(); i++ {
			f := t.Field(i)
			if !f.IsExported() {
				continue
			}
			ptag := f.Tag.Get("parquet")
			if ptag == "-" {
				continue
			}
			if f.Anonymous && f.Type.Kind() == reflect.Struct {
				g.fill(v.Field(i), "", path, row, depth, top)
				continue
			}
			name := f.Name
			if p := strings.Split(ptag, ",")[0]; p != "" {
				name = p
			}
			fp := name
			if path != "" {
				fp = path + "." + name
			}
			if depth == 0 && f.Name == "ID" {
				v.Field(i).SetInt(int64(row))
				continue
			}
			ftag := ptag
			if et := f.Tag.Get("parquet-element"); et != "" {
				ftag += "|elem:" + et
			}
			g.fill(v.Field(i), ftag, fp, row, depth+1, depth == 0)
		}
	case reflect.Ptr:
		if !g.present(path, row, top) {
			v.Set(reflect.Zero(t))
			return
		}
		p := reflect.New(t.Elem())
		g.fill(p.Elem(), stripOptional(tag), path, row, depth, false)
		v.Set(p)
	case reflect.Slice:
		if t.Elem().Kind() == reflect.Uint8 {
			if hasOpt(tag, "optional") && !g.present(path, row, top) {
				v.Set(reflect.Zero(t))
				return
			}
			b := g.genBytes(tag, path, row)
			if hasOpt(tag, "optional") && len(b) == 0 {
				b = []byte{'x'}
			}
			v.SetBytes(b)
			return
		}
		if !g.present(path, row, top) {
			if r.Bool() {
				v.Set(reflect.Zero(t))
			} else {
				v.Set(reflect.MakeSlice(t, 0, 0))
			}
			return
		}
		n := g.listLen()
		s := reflect.MakeSlice(t, n, n)
		for i := 0; i < n; i++ {
			g.fill(s.Index(i), "", fmt.Sprintf("%s[]", path), row, depth+1, false)
		}
		v.Set(s)
	case reflect.Map:
		if !g.present(path, row, top) {
			if r.Bool() {
				v.Set(reflect.Zero(t))
			} else {
				v.Set(reflect.MakeMap(t))
			}
			return
		}
		n := gen.Pick(r, []int{1, 1, 2, 3, 4, 8})
		if g.o.SingleEntryMaps {
			n = 1
		}
		m := reflect.MakeMapWithSize(t, n)
		for i := 0; i < n; i++ {
			k := reflect.New(t.Key()).Elem()
			g.fill(k, "", path+".key", row, depth+1, false)
			e := reflect.New(t.Elem()).Elem()
			g.fill(e, "", path+".value", row, depth+1, false)
			m.SetMapIndex(k, e)
		}
		v.Set(m)
	case reflect.Array:
		switch t.Elem().Kind() {
		case reflect.Uint8:
			b := g.genFixed(t.Len(), path, row)
			reflect.Copy(v, reflect.ValueOf(b))
		default:
			for i := 0; i < t.Len(); i++ {
				v.Index(i).SetUint(uint64(uint32(r.Int64())))
			}
		}
	default:
		opt := hasOpt(tag, "optional")
		if opt && !g.present(path, row, top) {
			v.Set(reflect.Zero(t))
			return
		}
		for try := 0; ; try++ {
			g.scalar(v, tag, path, row)
			if !opt || !v.IsZero() || try > 8 {
				break
			}
		}
		if opt && v.IsZero() {
			g.forceNonZero(v)
		}
		// -0.0 equals the zero value: in an optional non-pointer float field it stands for null like +0.0
		if opt && (t.Kind() == reflect.Float32 || t.Kind() == reflect.Float64) && r.P(4) {
			v.SetFloat(math.Copysign(0, -1))
		}
	}
}

func stripOptional(tag string) string { return strings.ReplaceAll(tag, ",optional", "") }

func (g *rowGen) forceNonZero(v reflect.Value) {
	switch v.Kind() {
	case reflect.Bool:
		v.SetBool(true)
	case reflect.Int, reflect.Int8, reflect.Int16, reflect.Int32, reflect.Int64:
		v.SetInt(1)
	case reflect.Uint, reflect.Uint8, reflect.Uint16, reflect.Uint32, reflect.Uint64:
		v.SetUint(1)
	case reflect.Float32, reflect.Float64:
		v.SetFloat(1.5)
	case reflect.String:
		v.SetString("x")
	}
}

func (g *rowGen) listLen() int {
	r := g.r
	if g.o.SmallLists {
		return 1 + r.Intn(5)
	}
	switch r.Intn(20) {
	case 0:
		return 37 + r.Intn(11)
	case 1:
		if !g.o.NoHuge && r.Intn(6) == 0 {
			return 1025 + r.Intn(40)
		}
		return 8
	default:
		return 1 + r.Intn(4)
	}
}

func (g *rowGen) genTime(tag, path string, row int) time.Time {
	r := g.r
	unit := int64(time.Millisecond)
	switch {
	case strings.Contains(tag, "timestamp(micro"):
		unit = int64(time.Microsecond)
	case strings.Contains(tag, "timestamp(nano"):
		unit = 1
	case hasOpt(tag, "date"):
		unit = int64(24 * time.Hour)
	}
	p := g.plan(path)
	var ns int64
	switch p.mode {
	case 2:
		ns = (p.base + int64(row)*p.step) * unit
		if unit == int64(24*time.Hour) {
			ns = (p.base + int64(row)*p.step) % 100000 * unit // days: keep the product within int64
		}
	case 3:
		ns = p.base * unit
		if unit == int64(24*time.Hour) {
			ns = p.base % 100000 * unit
		}
	default:
		if (strings.Contains(tag, "timestamp(milli") || strings.Contains(tag, "timestamp(micro")) && r.Intn(4) == 0 {
			// millisecond and microsecond columns reach beyond what int64 nanoseconds hold: years 1..9999,
			// and the zero time.Time, which is a value like any other in a required field
			if r.Intn(4) == 0 {
				return time.Time{}
			}
			secs := int64(r.U64()%uint64(253402300799+62135596800)) - 62135596800
			frac := int64(r.Intn(1000)) * int64(time.Millisecond)
			if unit == int64(time.Microsecond) {
				frac = int64(r.Intn(1000000)) * int64(time.Microsecond)
			}
			return time.Unix(secs, frac).UTC()
		}
		// within ±200 years of the epoch (fits every unit in int64 nanoseconds)
		ns = (int64(r.U64()>>1) % (6e18)) - 3e18
		ns -= ns % unit
		if r.Intn(8) == 0 {
			ns = 0
		}
	}
	return time.Unix(0, ns).UTC()
}

func (g *rowGen) genBytes(tag, path string, row int) []byte {
	r := g.r
	p := g.plan(path)
	if hasOpt(tag, "json") {
		return []byte(fmt.Sprintf(`{"k":%d,"s":"%c"}`, r.Intn(1000), 'a'+rune(r.Intn(26))))
	}
	switch p.mode {
	case 1:
		return []byte(gen.Pick(r, []string{"a", "b", "c", "dd", "", "eee", "prefix/a", "prefix/b"}))
	case 2:
		return []byte(fmt.Sprintf("k%08d", p.base+int64(row)*p.step))
	case 3:
		return []byte(fmt.Sprintf("const%d", p.base%7))
	}
	b := r.ByteString()
	if (g.o.NoHuge || g.o.SmallLists) && len(b) > 300 {
		b = b[:300]
	}
	return b
}

func (g *rowGen) genFixed(n int, path string, row int) []byte {
	r := g.r
	p := g.plan(path)
	b := make([]byte, n)
	switch p.mode {
	case 1:
		// few distinct values that differ in ONE byte; which one depends on the column (the last one, byte 9 or 8 -
		// the halves of a 16-byte value are compared separately by some kernels -, the first, any)
		pos := []int{n - 1, 9 % n, 8 % n, 0, int(uint64(p.base) % uint64(n))}[uint64(p.base)%5]
		b[pos] = byte(r.Intn(4))
	case 2:
		x := uint64(p.base + int64(row)*p.step)
		for i := 0; i < n && i < 8; i++ {
			b[n-1-i] = byte(x >> (8 * i))
		}
	case 3:
		b[0] = byte(p.base)
	default:
		switch r.Intn(5) {
		case 0:
			for i := range b {
				b[i] = 0xFF
			}
		case 1: // zeros
		case 2:
			b[0] = 0x80 // negative big-endian decimals
			b[n-1] = byte(r.Intn(256))
		default:
			copy(b, r.Bytes(n))
		}
	}
	return b
}

func (g *rowGen) scalar(v reflect.Value, tag, path string, row int) {
	r := g.r
	p := g.plan(path)
	switch v.Kind() {
	case reflect.Bool:
		switch p.mode {
		case 3:
			v.SetBool(p.base&1 == 0)
		case 2:
			v.SetBool((row/gen.RunLens[int(uint64(p.base)%uint64(len(gen.RunLens)))])%2 == 0)
		default:
			v.SetBool(r.Bool())
		}
	case reflect.Int, reflect.Int8, reflect.Int16, reflect.Int32, reflect.Int64:
		if v.Type() == reflect.TypeOf(time.Duration(0)) && strings.Contains(tag, "time(") {
			// a time of day at the granularity of the column's unit
			unit := int64(time.Millisecond)
			if strings.Contains(tag, "time(micro") {
				unit = int64(time.Microsecond)
			} else if strings.Contains(tag, "time(nano") {
				unit = 1
			}
			x := int64(r.U64()%uint64(24*time.Hour)) / unit * unit
			if r.Intn(6) == 0 {
				x = gen.Pick(r, []int64{0, unit, int64(24*time.Hour) - unit, int64(5*time.Hour + 3*time.Second + 7*time.Millisecond)})
			}
			v.SetInt(x)
			return
		}
		var x int64
		switch p.mode {
		case 1:
			x = int64(r.Intn(6)) - 2
		case 2:
			x = p.base + int64(row)*p.step
		case 3:
			x = p.base
		default:
			if v.Kind() == reflect.Int32 {
				x = int64(r.Int32())
			} else {
				x = r.Int64()
			}
		}
		bits := v.Type().Bits()
		if w := tagArg(tag, "int"); w != "" {
			// a wider Go integer mapped to a narrower column: values stay within the column's range
			if n, err := strconv.Atoi(w); err == nil && n < bits {
				bits = n
			}
		}
		if bits < 64 {
			x = x << (64 - bits) >> (64 - bits)
		}
		v.SetInt(x)
	case reflect.Uint, reflect.Uint8, reflect.Uint16, reflect.Uint32, reflect.Uint64:
		var x uint64
		switch p.mode {
		case 1:
			x = uint64(r.Intn(6))
		case 2:
			x = uint64(p.base + int64(row)*p.step)
		case 3:
			x = uint64(p.base)
		default:
			x = uint64(r.Int64())
		}
		bits := v.Type().Bits()
		if bits < 64 {
			x &= (1 << bits) - 1
		}
		v.SetUint(x)
	case reflect.Float32:
		switch p.mode {
		case 1:
			v.SetFloat(float64(float32(r.Intn(5)) / 2))
		case 2:
			v.SetFloat(float64(float32(p.base+int64(row)*p.step) / 4))
		default:
			v.SetFloat(float64(r.F32(!g.o.NoNaN)))
		}
	case reflect.Float64:
		switch p.mode {
		case 1:
			v.SetFloat(float64(r.Intn(5)) / 2)
		case 2:
			v.SetFloat(float64(p.base+int64(row)*p.step) / 4)
		default:
			v.SetFloat(r.F64(!g.o.NoNaN))
		}
	case reflect.String:
		if hasOpt(tag, "uuid") {
			// the canonical text form, which is what the reader returns
			b := g.genFixed(16, path, row)
			v.SetString(fmt.Sprintf("%x-%x-%x-%x-%x", b[0:4], b[4:6], b[6:8], b[8:10], b[10:16]))
			return
		}
		if hasOpt(tag, "enum") {
			v.SetString(gen.Pick(r, []string{"RED", "GREEN", "BLUE", "A", ""}))
			return
		}
		sv := string(g.genBytes(tag, path, row))
		if sv == "" && row%2 == 1 {
			// an empty string that is a slice of a longer one: length zero, data pointer not nil
			base := fmt.Sprintf("row%d", row)
			sv = base[len(base):]
		}
		v.SetString(sv)
	default:
		panic("values: unsupported kind " + v.Kind().String())
	}
}

// eqNorm compares two Go values under the documented equivalences of C01:
// nil and empty slices/maps are equal, floats compare by bit pattern, times by
// instant. It returns the path of the first difference.
func eqNorm(a, b reflect.Value, path string) (bool, string) {
	if a.Type() != b.Type() {
		return false, path + ": type"
	}
	t := a.Type()
	if t == timeType {
		ta, tb := a.Interface().(time.Time), b.Interface().(time.Time)
		if !ta.Equal(tb) {
			return false, fmt.Sprintf("%s: time %v != %v", path, ta.UTC(), tb.UTC())
		}
		return true, ""
	}
	switch t.Kind() {
	case reflect.Float32, reflect.Float64:
		if t.Kind() == reflect.Float32 {
			if math.Float32bits(float32(a.Float())) != math.Float32bits(float32(b.Float())) {
				return false, fmt.Sprintf("%s: float32 bits %#x != %#x", path, math.Float32bits(float32(a.Float())), math.Float32bits(float32(b.Float())))
			}
			return true, ""
		}
		if math.Float64bits(a.Float()) != math.Float64bits(b.Float()) {
			return false, fmt.Sprintf("%s: float64 bits %#x != %#x", path, math.Float64bits(a.Float()), math.Float64bits(b.Float()))
		}
		return true, ""
	case reflect.Struct:
		for i := 0; i < t.NumField(); i++ {
			if !t.Field(i).IsExported() || t.Field(i).Tag.Get("parquet") == "-" {
				continue
			}
			if k := t.Field(i).Type.Kind(); (k == reflect.Float32 || k == reflect.Float64) && hasOpt(t.Field(i).Tag.Get("parquet"), "optional") && a.Field(i).Float() == 0 && b.Field(i).Float() == 0 {
				continue // both zeros of an optional non-pointer float are the null
			}
			if ok, p := eqNorm(a.Field(i), b.Field(i), path+"."+t.Field(i).Name); !ok {
				return false, p
			}
		}
		return true, ""
	case reflect.Ptr:
		if a.IsNil() != b.IsNil() {
			return false, fmt.Sprintf("%s: nil %v != %v", path, a.IsNil(), b.IsNil())
		}
		if a.IsNil() {
			return true, ""
		}
		return eqNorm(a.Elem(), b.Elem(), path+"*")
	case reflect.Slice:
		if a.Len() != b.Len() {
			return false, fmt.Sprintf("%s: len %d != %d", path, a.Len(), b.Len())
		}
		if t.Elem().Kind() == reflect.Uint8 {
			if !bytes.Equal(a.Bytes(), b.Bytes()) {
				return false, fmt.Sprintf("%s: bytes %s != %s", path, short(a.Bytes()), short(b.Bytes()))
			}
			return true, ""
		}
		for i := 0; i < a.Len(); i++ {
			if ok, p := eqNorm(a.Index(i), b.Index(i), fmt.Sprintf("%s[%d]", path, i)); !ok {
				return false, p
			}
		}
		return true, ""
	case reflect.Array:
		for i := 0; i < a.Len(); i++ {
			if ok, p := eqNorm(a.Index(i), b.Index(i), fmt.Sprintf("%s[%d]", path, i)); !ok {
				return false, p
			}
		}
		return true, ""
	case reflect.Map:
		if a.Len() != b.Len() {
			return false, fmt.Sprintf("%s: map len %d != %d", path, a.Len(), b.Len())
		}
		it := a.MapRange()
		for it.Next() {
			bv := b.MapIndex(it.Key())
			if !bv.IsValid() {
				return false, fmt.Sprintf("%s: key %v missing", path, it.Key())
			}
			if ok, p := eqNorm(it.Value(), bv, fmt.Sprintf("%s[%v]", path, it.Key())); !ok {
				return false, p
			}
		}
		return true, ""
	case reflect.String:
		if a.String() != b.String() {
			return false, fmt.Sprintf("%s: string %s != %s", path, short([]byte(a.String())), short([]byte(b.String())))
		}
		return true, ""
	default:
		if a.Interface() != b.Interface() {
			return false, fmt.Sprintf("%s: %v != %v", path, a.Interface(), b.Interface())
		}
		return true, ""
	}
}

func short(b []byte) string {
	if len(b) > 24 {
		return fmt.Sprintf("%x…(len %d)", b[:24], len(b))
	}
	return fmt.Sprintf("%x", b)
}

// eqRows compares two []T; returns index of first differing row.
func eqRows(a, b reflect.Value) (bool, string) {
	if a.Len() != b.Len() {
		return false, fmt.Sprintf("row count %d != %d", a.Len(), b.Len())
	}
	for i := 0; i < a.Len(); i++ {
		if ok, p := eqNorm(a.Index(i), b.Index(i), ""); !ok {
			return false, fmt.Sprintf("row %d%s", i, p)
		}
	}
	return true, ""
}

// deepCopy clones a Go value (used for "the library never modifies what the caller passes").
func deepCopy(v reflect.Value) reflect.Value {
	t := v.Type()
	out := reflect.New(t).Elem()
	switch t.Kind() {
	case reflect.Ptr:
		if !v.IsNil() {
			p := reflect.New(t.Elem())
			p.Elem().Set(deepCopy(v.Elem()))
			out.Set(p)
		}
	case reflect.Slice:
		if !v.IsNil() {
			s := reflect.MakeSlice(t, v.Len(), v.Len())
			for i := 0; i < v.Len(); i++ {
				s.Index(i).Set(deepCopy(v.Index(i)))
			}
			out.Set(s)
		}
	case reflect.Map:
		if !v.IsNil() {
			m := reflect.MakeMapWithSize(t, v.Len())
			it := v.MapRange()
			for it.Next() {
				m.SetMapIndex(deepCopy(it.Key()), deepCopy(it.Value()))
			}
			out.Set(m)
		}
	case reflect.Struct:
		if t == timeType {
			out.Set(v)
			break
		}
		out.Set(v)
		for i := 0; i < t.NumField(); i++ {
			if t.Field(i).IsExported() {
				out.Field(i).Set(deepCopy(v.Field(i)))
			}
		}
	case reflect.Array:
		for i := 0; i < v.Len(); i++ {
			out.Index(i).Set(deepCopy(v.Index(i)))
		}
	default:
		out.Set(v)
	}
	return out
}
