package main

import (
	"bytes"
	"encoding/binary"
	"fmt"
	"math"
	os2 "os"

	"github.com/parquet-go/parquet-go"
	"github.com/parquet-go/parquet-go/deprecated"
	"github.com/parquet-go/parquet-go/encoding"
	"github.com/parquet-go/parquet-go/encoding/bitpacked"
	"github.com/parquet-go/parquet-go/encoding/rle"

	"verif/gen"
	"verif/specreader"
)

// C04: page encodings are lossless, agree with an independent decoder, and
// do not depend on the CPU-specific implementation nor on dst history.

func init() {
	register(&PropDef{
		ID:    "C04",
		Level: "exploration",
		Cases: func(t string) int {
			if t == "thorough" {
				return 800000
			}
			return 60000
		},
		Batch:  func(t string) int { return 600 },
		Floors: []string{"roundtrips", "independent_decodes", "xvariant_digests_joined", "pair_PLAIN/BOOLEAN", "pair_RLE/INT32", "pair_RLE/LEVELS", "pair_RLE/BOOLEAN", "pair_RLE_DICTIONARY/INT32", "pair_DELTA_BINARY_PACKED/INT32", "pair_DELTA_BINARY_PACKED/INT64", "pair_DELTA_LENGTH_BYTE_ARRAY/BYTE_ARRAY", "pair_DELTA_BYTE_ARRAY/BYTE_ARRAY", "pair_DELTA_BYTE_ARRAY/FIXED_LEN_BYTE_ARRAY", "pair_BYTE_STREAM_SPLIT/FLOAT", "pair_BYTE_STREAM_SPLIT/DOUBLE", "pair_BIT_PACKED/LEVELS", "dst_reused_dirty"},
		Rule: "case = (encoding incl. bit width, value kind, sequence length from {0,1,2,7,8,9,31,32,33,127,128,129,255,256,257,1025}±PRNG, sequence shape: constant/alternating/ramp/extremes/runs/shared prefixes/random, dst capacity class pre-filled with 0xAA and reused across cases); " +
			"encoded bytes are decoded by the library and by specreader and digests of encoded and decoded bytes are joined across std/purego/noavx. Distinct = descriptor hash; non-trivial = length > 0",
		Assumptions: []string{"specreader's decoders are written from the format specification (validated on the parquet-testing files under /repo/testdata)", "an RLE run value wider than the bit width is masked (counted as a leniency)"},
		Run:         runC04,
	})
}

var seqLens = []int{0, 1, 2, 7, 8, 9, 31, 32, 33, 127, 128, 129, 255, 256, 257, 1025}

func seqLen(r *gen.Rand) int {
	n := gen.Pick(r, seqLens)
	switch r.Intn(6) {
	case 0:
		n += r.Intn(5)
	case 1:
		n = r.Intn(600)
	case 2:
		if r.Intn(10) == 0 {
			n = 4096 + r.Intn(300)
		}
	}
	return n
}

// int sequences of a given bit budget (values are masked to `bits` when bits < 64)
func genInts(r *gen.Rand, n int, bits int) ([]int64, string) {
	out := make([]int64, n)
	mask := func(x int64) int64 {
		if bits >= 64 {
			return x
		}
		return x & (1<<uint(bits) - 1)
	}
	shape := r.Intn(9)
	name := ""
	switch shape {
	case 0:
		name = "constant"
		c := mask(r.Int64())
		for i := range out {
			out[i] = c
		}
	case 1:
		name = "alternating"
		a, b := mask(r.Int64()), mask(r.Int64())
		for i := range out {
			if i%2 == 0 {
				out[i] = a
			} else {
				out[i] = b
			}
		}
	case 2:
		name = "ramp"
		base, step := r.Int64()%1000, int64(r.Intn(9))-3
		for i := range out {
			out[i] = mask(base + int64(i)*step)
		}
	case 3:
		name = "extremes"
		ex := []int64{math.MinInt64, math.MaxInt64, 0, -1, 1, math.MinInt32, math.MaxInt32}
		for i := range out {
			out[i] = mask(ex[r.Intn(len(ex))])
		}
	case 4, 5:
		name = "runs"
		for i := 0; i < n; {
			l := gen.Pick(r, []int{1, 1, 2, 3, 7, 8, 9, 15, 16, 17, 24, 40, 64, 100})
			v := mask(int64(r.Intn(8)))
			if r.Bool() {
				v = mask(r.Int64())
			}
			for k := 0; k < l && i < n; k++ {
				out[i] = v
				i++
			}
		}
	case 6:
		name = "small"
		for i := range out {
			out[i] = mask(int64(r.Intn(4)))
		}
	case 7:
		name = "sorted-gaps"
		cur := r.Int64() % 100
		for i := range out {
			cur += int64(r.Intn(1 << uint(r.Intn(20))))
			out[i] = mask(cur)
		}
	default:
		name = "random"
		for i := range out {
			out[i] = mask(int64(r.U64()))
		}
	}
	return out, name
}

func genByteArrays(r *gen.Rand, n int, fixed int) ([][]byte, string) {
	out := make([][]byte, n)
	shape := r.Intn(6)
	name := []string{"random", "shared-prefix", "empty-mix", "constant", "sorted", "long"}[shape]
	var prev []byte
	for i := range out {
		var b []byte
		switch shape {
		case 0:
			b = r.Bytes(r.Intn(20))
		case 1:
			if len(prev) > 0 && r.P(80) {
				k := r.Intn(len(prev) + 1)
				b = append(append([]byte{}, prev[:k]...), r.Bytes(r.Intn(6))...)
			} else {
				b = r.Bytes(1 + r.Intn(30))
			}
		case 2:
			if r.Bool() {
				b = []byte{}
			} else {
				b = r.Bytes(r.Intn(4))
			}
		case 3:
			b = []byte("constant-value")
		case 4:
			b = []byte(fmt.Sprintf("key-%08d", i*3+r.Intn(3)))
		default:
			b = r.Bytes(gen.Pick(r, []int{0, 1, 63, 64, 65, 200, 1000}))
		}
		if fixed > 0 {
			f := make([]byte, fixed)
			copy(f, b)
			if shape == 1 && len(prev) == fixed && r.P(70) {
				k := r.Intn(fixed + 1)
				copy(f, prev[:k])
			}
			b = f
		}
		out[i] = b
		prev = b
	}
	return out, name
}

// dirtyDst returns a dst buffer of a PRNG capacity class filled with 0xAA.
func dirtyBytes(r *gen.Rand, want int) []byte {
	var d []byte
	switch r.Intn(5) {
	case 0:
		return nil
	case 1:
		d = make([]byte, want)
	case 2:
		d = make([]byte, want+1)
	case 3:
		d = make([]byte, 4*want+16)
	default:
		d = make([]byte, want/2)
	}
	for i := range d {
		d[i] = 0xAA
	}
	if r.Bool() {
		return d[:0]
	}
	return d
}

type c04case struct {
	encName, kindName string
	encoded           []byte
	decoded           []byte // canonical bytes of the library-decoded values
	input             []byte // canonical bytes of the input
	indep             []byte // canonical bytes of specreader-decoded values
	indepErr          error
}

func canonI64(xs []int64) []byte {
	b := make([]byte, 8*len(xs))
	for i, x := range xs {
		binary.LittleEndian.PutUint64(b[8*i:], uint64(x))
	}
	return b
}

func canonBA(xs [][]byte) []byte {
	var b bytes.Buffer
	for _, x := range xs {
		var l [4]byte
		binary.LittleEndian.PutUint32(l[:], uint32(len(x)))
		b.Write(l[:])
		b.Write(x)
	}
	return b.Bytes()
}

func valsCanon(v *specreader.Vals) []byte {
	if v == nil {
		return nil
	}
	if v.B != nil || v.Kind == specreader.TByteArr || v.Kind == specreader.TFixed || v.Kind == specreader.TInt96 {
		return canonBA(v.B)
	}
	return canonI64(v.I)
}

func flatten(xs [][]byte) ([]byte, []uint32) {
	var data []byte
	offs := make([]uint32, 0, len(xs)+1)
	offs = append(offs, 0)
	for _, x := range xs {
		data = append(data, x...)
		offs = append(offs, uint32(len(data)))
	}
	return data, offs
}

// flattenBased is flatten with, half of the time, unrelated bytes before and after the values, so that
// offsets[0] > 0: the shape the offsets of a sliced byte array page have (full buffer, sub-sliced offsets).
func flattenBased(r *gen.Rand, c *Ctx, xs [][]byte) ([]byte, []uint32) {
	data, offs := flatten(xs)
	if !r.Bool() {
		return data, offs
	}
	pre := r.Bytes(1 + r.Intn(40))
	out := append(append(append([]byte{}, pre...), data...), r.Bytes(r.Intn(9))...)
	for i := range offs {
		offs[i] += uint32(len(pre))
	}
	c.Obs("byte_array_offsets_not_from_zero", 1)
	return out, offs
}

func runC04(c *Ctx) {
	r := c.R
	n := seqLen(r)
	which := c.Case % 17
	var k c04case
	var err error
	lenc := specreader.Leniencies{}
	fail := func(det string, format string, a ...any) {
		c.Fail(det, map[string]any{"enc": k.encName, "kind": k.kindName}, format, a...)
	}
	shape := ""
	panicked := c.guard("c04.panic", nil, func() {
		switch which {
		case 0: // PLAIN boolean (bit-packed)
			k.encName, k.kindName = "PLAIN", "BOOLEAN"
			src := r.Bytes((n + 7) / 8)
			k.input = append([]byte{}, src...)
			k.encoded, err = parquet.Plain.EncodeBoolean(dirtyBytes(r, len(src)), src)
			if err != nil {
				return
			}
			var dec []byte
			dec, err = parquet.Plain.DecodeBoolean(dirtyBytes(r, len(src)), k.encoded)
			k.decoded = dec
			v, e := specreader.DecodePlain(specreader.TBoolean, 0, k.encoded, len(src)*8)
			k.indepErr = e
			if e == nil {
				k.indep = packBits(v.I)
			}
		case 1, 2: // PLAIN int32 / int64
			if which == 1 {
				k.encName, k.kindName = "PLAIN", "INT32"
				xs, sh := genInts(r, n, 64)
				shape = sh
				src := make([]int32, n)
				for i := range src {
					src[i] = int32(xs[i])
					xs[i] = int64(src[i])
				}
				k.input = canonI64(xs)
				k.encoded, err = parquet.Plain.EncodeInt32(dirtyBytes(r, 4*n), src)
				if err != nil {
					return
				}
				var dec []int32
				dec, err = parquet.Plain.DecodeInt32(dirtyI32(r, n), k.encoded)
				k.decoded = canonI32(dec)
				v, e := specreader.DecodePlain(specreader.TInt32, 0, k.encoded, n)
				k.indepErr, k.indep = e, valsCanon(v)
			} else {
				k.encName, k.kindName = "PLAIN", "INT64"
				xs, sh := genInts(r, n, 64)
				shape = sh
				k.input = canonI64(xs)
				k.encoded, err = parquet.Plain.EncodeInt64(dirtyBytes(r, 8*n), xs)
				if err != nil {
					return
				}
				var dec []int64
				dec, err = parquet.Plain.DecodeInt64(dirtyI64(r, n), k.encoded)
				k.decoded = canonI64(dec)
				v, e := specreader.DecodePlain(specreader.TInt64, 0, k.encoded, n)
				k.indepErr, k.indep = e, valsCanon(v)
			}
		case 3: // PLAIN byte array / flba / int96 / float / double
			switch r.Intn(5) {
			case 0:
				k.encName, k.kindName = "PLAIN", "BYTE_ARRAY"
				xs, sh := genByteArrays(r, n, 0)
				shape = sh
				k.input = canonBA(xs)
				data, offs := flattenBased(r, c, xs)
				k.encoded, err = parquet.Plain.EncodeByteArray(dirtyBytes(r, len(data)+4*n), data, offs)
				if err != nil {
					return
				}
				d, o, e := parquet.Plain.DecodeByteArray(dirtyBytes(r, len(data)), k.encoded, dirtyU32(r, n+1))
				err = e
				k.decoded = canonOffsets(d, o)
				v, e2 := specreader.DecodePlain(specreader.TByteArr, 0, k.encoded, n)
				k.indepErr, k.indep = e2, valsCanon(v)
			case 1:
				size := gen.Pick(r, []int{1, 2, 5, 12, 16, 17, 32})
				k.encName, k.kindName = "PLAIN", "FIXED_LEN_BYTE_ARRAY"
				xs, sh := genByteArrays(r, n, size)
				shape = sh
				k.input = canonBA(xs)
				data, _ := flatten(xs)
				k.encoded, err = parquet.Plain.EncodeFixedLenByteArray(dirtyBytes(r, len(data)), data, size)
				if err != nil {
					return
				}
				var d []byte
				d, err = parquet.Plain.DecodeFixedLenByteArray(dirtyBytes(r, len(data)), k.encoded, size)
				k.decoded = canonFixed(d, size)
				v, e2 := specreader.DecodePlain(specreader.TFixed, size, k.encoded, n)
				k.indepErr, k.indep = e2, valsCanon(v)
			case 2:
				k.encName, k.kindName = "PLAIN", "INT96"
				src := make([]deprecated.Int96, n)
				var xs [][]byte
				for i := range src {
					src[i] = deprecated.Int96{uint32(r.U64()), uint32(r.U64()), uint32(r.U64())}
					b := make([]byte, 12)
					binary.LittleEndian.PutUint32(b[0:], src[i][0])
					binary.LittleEndian.PutUint32(b[4:], src[i][1])
					binary.LittleEndian.PutUint32(b[8:], src[i][2])
					xs = append(xs, b)
				}
				k.input = canonBA(xs)
				k.encoded, err = parquet.Plain.EncodeInt96(dirtyBytes(r, 12*n), src)
				if err != nil {
					return
				}
				var dec []deprecated.Int96
				dec, err = parquet.Plain.DecodeInt96(nil, k.encoded)
				var ds [][]byte
				for _, x := range dec {
					b := make([]byte, 12)
					binary.LittleEndian.PutUint32(b[0:], x[0])
					binary.LittleEndian.PutUint32(b[4:], x[1])
					binary.LittleEndian.PutUint32(b[8:], x[2])
					ds = append(ds, b)
				}
				k.decoded = canonBA(ds)
				v, e2 := specreader.DecodePlain(specreader.TInt96, 0, k.encoded, n)
				k.indepErr, k.indep = e2, valsCanon(v)
			case 3:
				k.encName, k.kindName = "PLAIN", "FLOAT"
				src := make([]float32, n)
				xs := make([]int64, n)
				for i := range src {
					src[i] = r.F32(true)
					xs[i] = int64(math.Float32bits(src[i]))
				}
				k.input = canonI64(xs)
				k.encoded, err = parquet.Plain.EncodeFloat(dirtyBytes(r, 4*n), src)
				if err != nil {
					return
				}
				var dec []float32
				dec, err = parquet.Plain.DecodeFloat(nil, k.encoded)
				ds := make([]int64, len(dec))
				for i := range dec {
					ds[i] = int64(math.Float32bits(dec[i]))
				}
				k.decoded = canonI64(ds)
				v, e2 := specreader.DecodePlain(specreader.TFloat, 0, k.encoded, n)
				k.indepErr, k.indep = e2, valsCanon(v)
			default:
				k.encName, k.kindName = "PLAIN", "DOUBLE"
				src := make([]float64, n)
				xs := make([]int64, n)
				for i := range src {
					src[i] = r.F64(true)
					xs[i] = int64(math.Float64bits(src[i]))
				}
				k.input = canonI64(xs)
				k.encoded, err = parquet.Plain.EncodeDouble(dirtyBytes(r, 8*n), src)
				if err != nil {
					return
				}
				var dec []float64
				dec, err = parquet.Plain.DecodeDouble(nil, k.encoded)
				ds := make([]int64, len(dec))
				for i := range dec {
					ds[i] = int64(math.Float64bits(dec[i]))
				}
				k.decoded = canonI64(ds)
				v, e2 := specreader.DecodePlain(specreader.TDouble, 0, k.encoded, n)
				k.indepErr, k.indep = e2, valsCanon(v)
			}
		case 4, 5: // RLE int32 at every bit width
			w := 1 + r.Intn(32)
			if which == 5 {
				w = 1 + r.Intn(8)
			}
			k.encName, k.kindName = "RLE", "INT32"
			xs, sh := genInts(r, n, w)
			shape = fmt.Sprintf("%s/w%d", sh, w)
			src := make([]int32, n)
			for i := range src {
				src[i] = int32(uint32(xs[i]))
				xs[i] = int64(uint32(xs[i]))
			}
			k.input = canonI64(xs)
			e := &rle.Encoding{BitWidth: w}
			k.encoded, err = e.EncodeInt32(dirtyBytes(r, 4*n), src)
			if err != nil {
				return
			}
			var dec []int32
			dec, err = e.DecodeInt32(dirtyI32(r, n), k.encoded)
			ds := make([]int64, len(dec))
			for i := range dec {
				ds[i] = int64(uint32(dec[i]))
			}
			k.decoded = canonI64(ds)
			u, e2 := specreader.DecodeHybrid(k.encoded, w, n, lenc)
			k.indepErr = e2
			k.indep = canonU32(u)
		case 6: // RLE levels
			w := 1 + r.Intn(8)
			k.encName, k.kindName = "RLE", "LEVELS"
			xs, sh := genInts(r, n, w)
			shape = fmt.Sprintf("%s/w%d", sh, w)
			src := make([]byte, n)
			for i := range src {
				src[i] = byte(xs[i])
				xs[i] = int64(src[i])
			}
			k.input = canonI64(xs)
			e := &rle.Encoding{BitWidth: w}
			k.encoded, err = e.EncodeLevels(dirtyBytes(r, n), src)
			if err != nil {
				return
			}
			var dec []byte
			dec, err = e.DecodeLevels(dirtyBytes(r, n), k.encoded)
			ds := make([]int64, len(dec))
			for i := range dec {
				ds[i] = int64(dec[i])
			}
			k.decoded = canonI64(ds)
			u, e2 := specreader.DecodeHybrid(k.encoded, w, n, lenc)
			k.indepErr, k.indep = e2, canonU32(u)
		case 7: // RLE boolean
			k.encName, k.kindName = "RLE", "BOOLEAN"
			nb := (n + 7) / 8
			src := make([]byte, nb)
			// run-structured bits
			xs, sh := genInts(r, nb*8, 1)
			shape = sh
			for i, x := range xs {
				if x != 0 {
					src[i/8] |= 1 << uint(i%8)
				}
			}
			k.input = append([]byte{}, src...)
			k.encoded, err = parquet.RLE.EncodeBoolean(dirtyBytes(r, nb), src)
			if err != nil {
				return
			}
			var dec []byte
			dec, err = parquet.RLE.DecodeBoolean(dirtyBytes(r, nb), k.encoded)
			k.decoded = dec
			v, e2 := specreader.DecodeValues(specreader.ERLE, specreader.TBoolean, 0, k.encoded, nb*8, lenc)
			k.indepErr = e2
			if e2 == nil {
				k.indep = packBits(v.I)
			}
		case 8: // dictionary indexes
			k.encName, k.kindName = "RLE_DICTIONARY", "INT32"
			w := 1 + r.Intn(20)
			xs, sh := genInts(r, n, w)
			shape = fmt.Sprintf("%s/w%d", sh, w)
			src := make([]int32, n)
			for i := range src {
				src[i] = int32(xs[i])
			}
			k.input = canonI64(xs)
			var e encoding.Encoding = &parquet.RLEDictionary
			k.encoded, err = e.EncodeInt32(dirtyBytes(r, 4*n), src)
			if err != nil {
				return
			}
			var dec []int32
			dec, err = e.DecodeInt32(dirtyI32(r, n), k.encoded)
			k.decoded = canonI32(dec)
			u, e2 := specreader.DecodeDictIndexes(k.encoded, n, lenc)
			k.indepErr, k.indep = e2, canonU32(u)
		case 9: // delta int32
			k.encName, k.kindName = "DELTA_BINARY_PACKED", "INT32"
			xs, sh := genInts(r, n, 64)
			shape = sh
			src := make([]int32, n)
			for i := range src {
				src[i] = int32(xs[i])
				xs[i] = int64(src[i])
			}
			k.input = canonI64(xs)
			k.encoded, err = parquet.DeltaBinaryPacked.EncodeInt32(dirtyBytes(r, 4*n), src)
			if err != nil {
				return
			}
			var dec []int32
			dec, err = parquet.DeltaBinaryPacked.DecodeInt32(dirtyI32(r, n), k.encoded)
			k.decoded = canonI32(dec)
			v, e2 := specreader.DecodeValues(specreader.EDeltaBinaryPacked, specreader.TInt32, 0, k.encoded, n, lenc)
			k.indepErr, k.indep = e2, valsCanon(v)
		case 10: // delta int64
			k.encName, k.kindName = "DELTA_BINARY_PACKED", "INT64"
			xs, sh := genInts(r, n, 64)
			shape = sh
			k.input = canonI64(xs)
			k.encoded, err = parquet.DeltaBinaryPacked.EncodeInt64(dirtyBytes(r, 8*n), xs)
			if err != nil {
				return
			}
			var dec []int64
			dec, err = parquet.DeltaBinaryPacked.DecodeInt64(dirtyI64(r, n), k.encoded)
			k.decoded = canonI64(dec)
			v, e2 := specreader.DecodeValues(specreader.EDeltaBinaryPacked, specreader.TInt64, 0, k.encoded, n, lenc)
			k.indepErr, k.indep = e2, valsCanon(v)
		case 11, 12: // delta length byte array / delta byte array
			xs, sh := genByteArrays(r, n, 0)
			shape = sh
			k.input = canonBA(xs)
			data, offs := flatten(xs)
			var e encoding.Encoding = &parquet.DeltaLengthByteArray
			enum := specreader.EDeltaLengthByteArray
			k.encName = "DELTA_LENGTH_BYTE_ARRAY"
			if which == 12 {
				e, enum, k.encName = &parquet.DeltaByteArray, specreader.EDeltaByteArray, "DELTA_BYTE_ARRAY"
			}
			k.kindName = "BYTE_ARRAY"
			data, offs = flattenBased(r, c, xs)
			k.encoded, err = e.EncodeByteArray(dirtyBytes(r, len(data)), data, offs)
			if err != nil {
				return
			}
			d, o, e1 := e.DecodeByteArray(dirtyBytes(r, len(data)), k.encoded, dirtyU32(r, n+1))
			err = e1
			k.decoded = canonOffsets(d, o)
			v, e2 := specreader.DecodeValues(enum, specreader.TByteArr, 0, k.encoded, n, lenc)
			k.indepErr, k.indep = e2, valsCanon(v)
		case 13: // delta byte array on flba
			size := gen.Pick(r, []int{1, 4, 8, 16, 20, 24, 33})
			k.encName, k.kindName = "DELTA_BYTE_ARRAY", "FIXED_LEN_BYTE_ARRAY"
			xs, sh := genByteArrays(r, n, size)
			shape = fmt.Sprintf("%s/size%d", sh, size)
			k.input = canonBA(xs)
			data, _ := flatten(xs)
			k.encoded, err = parquet.DeltaByteArray.EncodeFixedLenByteArray(dirtyBytes(r, len(data)), data, size)
			if err != nil {
				return
			}
			var d []byte
			d, err = parquet.DeltaByteArray.DecodeFixedLenByteArray(dirtyBytes(r, len(data)), k.encoded, size)
			k.decoded = canonFixed(d, size)
			v, e2 := specreader.DecodeValues(specreader.EDeltaByteArray, specreader.TFixed, size, k.encoded, n, lenc)
			k.indepErr, k.indep = e2, valsCanon(v)
		case 14: // byte stream split float
			k.encName, k.kindName = "BYTE_STREAM_SPLIT", "FLOAT"
			src := make([]float32, n)
			xs := make([]int64, n)
			for i := range src {
				src[i] = r.F32(true)
				xs[i] = int64(math.Float32bits(src[i]))
			}
			k.input = canonI64(xs)
			k.encoded, err = parquet.ByteStreamSplit.EncodeFloat(dirtyBytes(r, 4*n), src)
			if err != nil {
				return
			}
			var dec []float32
			dec, err = parquet.ByteStreamSplit.DecodeFloat(nil, k.encoded)
			ds := make([]int64, len(dec))
			for i := range dec {
				ds[i] = int64(math.Float32bits(dec[i]))
			}
			k.decoded = canonI64(ds)
			v, e2 := specreader.DecodeValues(specreader.EByteStreamSplit, specreader.TFloat, 0, k.encoded, n, lenc)
			k.indepErr, k.indep = e2, valsCanon(v)
		case 15: // byte stream split double / int32 / int64
			switch r.Intn(3) {
			case 0:
				k.encName, k.kindName = "BYTE_STREAM_SPLIT", "DOUBLE"
				src := make([]float64, n)
				xs := make([]int64, n)
				for i := range src {
					src[i] = r.F64(true)
					xs[i] = int64(math.Float64bits(src[i]))
				}
				k.input = canonI64(xs)
				k.encoded, err = parquet.ByteStreamSplit.EncodeDouble(dirtyBytes(r, 8*n), src)
				if err != nil {
					return
				}
				var dec []float64
				dec, err = parquet.ByteStreamSplit.DecodeDouble(nil, k.encoded)
				ds := make([]int64, len(dec))
				for i := range dec {
					ds[i] = int64(math.Float64bits(dec[i]))
				}
				k.decoded = canonI64(ds)
				v, e2 := specreader.DecodeValues(specreader.EByteStreamSplit, specreader.TDouble, 0, k.encoded, n, lenc)
				k.indepErr, k.indep = e2, valsCanon(v)
			case 1:
				k.encName, k.kindName = "BYTE_STREAM_SPLIT", "INT32"
				xs, _ := genInts(r, n, 64)
				src := make([]int32, n)
				for i := range src {
					src[i] = int32(xs[i])
					xs[i] = int64(src[i])
				}
				k.input = canonI64(xs)
				k.encoded, err = parquet.ByteStreamSplit.EncodeInt32(dirtyBytes(r, 4*n), src)
				if err != nil {
					return
				}
				var dec []int32
				dec, err = parquet.ByteStreamSplit.DecodeInt32(dirtyI32(r, n), k.encoded)
				k.decoded = canonI32(dec)
				v, e2 := specreader.DecodeValues(specreader.EByteStreamSplit, specreader.TInt32, 0, k.encoded, n, lenc)
				k.indepErr, k.indep = e2, valsCanon(v)
			default:
				k.encName, k.kindName = "BYTE_STREAM_SPLIT", "INT64"
				xs, _ := genInts(r, n, 64)
				k.input = canonI64(xs)
				k.encoded, err = parquet.ByteStreamSplit.EncodeInt64(dirtyBytes(r, 8*n), xs)
				if err != nil {
					return
				}
				var dec []int64
				dec, err = parquet.ByteStreamSplit.DecodeInt64(dirtyI64(r, n), k.encoded)
				k.decoded = canonI64(dec)
				v, e2 := specreader.DecodeValues(specreader.EByteStreamSplit, specreader.TInt64, 0, k.encoded, n, lenc)
				k.indepErr, k.indep = e2, valsCanon(v)
			}
		default: // BIT_PACKED levels (deprecated)
			w := 1 + r.Intn(8)
			k.encName, k.kindName = "BIT_PACKED", "LEVELS"
			xs, sh := genInts(r, n, w)
			shape = fmt.Sprintf("%s/w%d", sh, w)
			src := make([]byte, n)
			for i := range src {
				src[i] = byte(xs[i])
				xs[i] = int64(src[i])
			}
			k.input = canonI64(xs)
			e := &bitpacked.Encoding{BitWidth: w}
			k.encoded, err = e.EncodeLevels(dirtyBytes(r, n), src)
			if err != nil {
				return
			}
			var dec []byte
			dec, err = e.DecodeLevels(dirtyBytes(r, n), k.encoded)
			if len(dec) > n && len(dec) <= n+8 {
				dec = dec[:n] // padding of the last byte
			}
			ds := make([]int64, len(dec))
			for i := range dec {
				ds[i] = int64(dec[i])
			}
			k.decoded = canonI64(ds)
			u, e2 := specreader.DecodeBitPackedLevels(k.encoded, w, n)
			k.indepErr, k.indep = e2, canonU32(u)
		}
	})
	c.D("enc", k.encName)
	c.D("kind", k.kindName)
	c.D("n", n)
	c.D("shape", shape)
	c.D("vseed", r.U64()%1000000)
	if n == 0 {
		c.Trivial()
	}
	if panicked {
		return
	}
	c.Obs("dst_reused_dirty", 1)
	if err != nil {
		fail("c04.codec_error", "encode/decode of a valid %s sequence (n=%d, %s) failed: %v", k.kindName, n, shape, err)
		return
	}
	if !bytes.Equal(k.input, k.decoded) {
		fail("c04.roundtrip", "Decode(Encode(x)) != x for n=%d %s: first difference at canonical byte %d (lens %d/%d)", n, shape, firstDiffOffset(k.input, k.decoded), len(k.input), len(k.decoded))
		return
	}
	c.Obs("roundtrips", 1)
	if k.indepErr != nil {
		fail("c04.independent", "independent decoder rejects the encoded bytes (n=%d %s, %d bytes): %v", n, shape, len(k.encoded), k.indepErr)
		return
	}
	if !bytes.Equal(k.input, k.indep) {
		fail("c04.independent", "independent decoder reads a different sequence (n=%d %s): first difference at canonical byte %d (lens %d/%d)", n, shape, firstDiffOffset(k.input, k.indep), len(k.input), len(k.indep))
		return
	}
	c.Obs("independent_decodes", 1)
	c.Obs("pair_"+k.encName+"/"+k.kindName, 1)
	for name, cnt := range lenc {
		c.Obs("leniency_"+name, cnt)
	}
	if d := os2.Getenv("VERIF_DUMP_DIR"); d != "" {
		os2.WriteFile(fmt.Sprintf("%s/c04-%d-%s.txt", d, c.Case, c.Variant), []byte(fmt.Sprintf("input %x\nencoded %x\n", k.input, k.encoded)), 0o644)
	}
	c.Digest("encoded", k.encoded)
	c.Digest("decoded", k.decoded)
}

func packBits(xs []int64) []byte {
	b := make([]byte, (len(xs)+7)/8)
	for i, x := range xs {
		if x != 0 {
			b[i/8] |= 1 << uint(i%8)
		}
	}
	return b
}

func canonI32(xs []int32) []byte {
	ys := make([]int64, len(xs))
	for i, x := range xs {
		ys[i] = int64(x)
	}
	return canonI64(ys)
}

func canonU32(xs []uint32) []byte {
	ys := make([]int64, len(xs))
	for i, x := range xs {
		ys[i] = int64(x)
	}
	return canonI64(ys)
}

func canonOffsets(data []byte, offs []uint32) []byte {
	var xs [][]byte
	for i := 0; i+1 < len(offs); i++ {
		if offs[i] > offs[i+1] || int(offs[i+1]) > len(data) {
			return []byte(fmt.Sprintf("bad offsets %d..%d of %d", offs[i], offs[i+1], len(data)))
		}
		xs = append(xs, data[offs[i]:offs[i+1]])
	}
	return canonBA(xs)
}

func canonFixed(data []byte, size int) []byte {
	var xs [][]byte
	for i := 0; i+size <= len(data); i += size {
		xs = append(xs, data[i:i+size])
	}
	if len(data)%size != 0 {
		xs = append(xs, []byte("trailing"))
	}
	return canonBA(xs)
}

func dirtyI32(r *gen.Rand, want int) []int32 {
	if r.Intn(4) == 0 {
		return nil
	}
	d := make([]int32, gen.Pick(r, []int{0, want, want + 1, 4 * want, want / 2}))
	for i := range d {
		d[i] = -0x55555556
	}
	if r.Bool() {
		return d[:0]
	}
	return d
}

func dirtyI64(r *gen.Rand, want int) []int64 {
	if r.Intn(4) == 0 {
		return nil
	}
	d := make([]int64, gen.Pick(r, []int{0, want, want + 1, 4 * want, want / 2}))
	for i := range d {
		d[i] = -0x5555555555555556
	}
	if r.Bool() {
		return d[:0]
	}
	return d
}

func dirtyU32(r *gen.Rand, want int) []uint32 {
	if r.Intn(4) == 0 {
		return nil
	}
	d := make([]uint32, gen.Pick(r, []int{0, want, want + 1, 4 * want, want / 2}))
	for i := range d {
		d[i] = 0xAAAAAAAA
	}
	if r.Bool() {
		return d[:0]
	}
	return d
}
