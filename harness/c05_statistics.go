package main

import (
	"strings"

	"github.com/parquet-go/parquet-go"

	"verif/gen"
	"verif/model"
	"verif/specreader"
)

// C05: statistics and page indexes bound the data they describe.

func init() {
	register(&PropDef{
		ID:    "C05",
		Level: "exploration",
		Cases: func(t string) int {
			if t == "thorough" {
				return 16000
			}
			return 1600
		},
		Batch: func(t string) int { return 40 },
		Floors: []string{"files_checked", "rule_page_stats.min", "rule_page_stats.max", "rule_chunk_stats.min", "rule_chunk_stats.null_count", "rule_column_index.null_pages", "rule_column_index.null_counts", "rule_column_index.min", "rule_column_index.max",
			"rule_column_index.boundary_order", "rule_column_index.definition_histograms", "null_pages_seen", "nan_values_seen", "truncated_bounds_seen", "copied_stats_files", "sorting_metadata_checks"},
		Rule: "case = (production mode incl. verbatim-copy WriteRowGroup so that copied statistics are covered; catalogue type with signed/unsigned ints, floats with NaN/-0/Inf, byte arrays with long 0xFF prefixes, binary/FLBA decimals, UUID/be128, " +
			"optional and repeated columns; null-run patterns producing all-null pages; ColumnIndexSizeLimit from {1,16,64}; page sizes from 1 value to one page). specreader recomputes per page and chunk the true min/max in the spec's sort order, null counts and level histograms, " +
			"and checks recorded page-header, chunk and column-index statistics, the boundary-order claim and the sorting metadata. Distinct = descriptor hash; non-trivial = >= 1 row",
		Assumptions: []string{"NaN bounds are treated as absent (readers must ignore them); INT96 order is undefined and its bounds are ignored", "sort orders implemented from the spec in specreader.Leaf.Compare"},
		Run:         runC05,
	})
}

func runC05(c *Ctx) {
	r := c.R
	te := pickType(r, c)
	n := gen.Pick(r, []int{1, 7, 64, 65, 130, 257, 300})
	rows := genRows(r, te, n, genOpts{NoHuge: true, SingleEntryMaps: true})
	schema := te.ops.Schema()
	// production modes that matter for statistics: row writers, buffers, copy path, sorting writer
	mode := []int{0, 1, 2, 3, 3, 4, 6, 7}[(c.Case/len(catalogue))%8]
	os := genOptions(r, optLimits{Leaves: leafPaths(schema)})
	defer os.Close()
	if os.SizeLimit == 0 && r.P(50) {
		os.SizeLimit = gen.Pick(r, []int{1, 16, 64})
		lim := os.SizeLimit
		os.Opts = append(os.Opts, parquet.ColumnIndexSizeLimit(func([]string) int { return lim }))
		os.Desc = append(os.Desc, "cisize+")
	}
	c.D("type", te.Name)
	c.D("rows", n)
	c.D("mode", productionModes[mode])
	c.D("opts", strings.Join(os.Desc, " "))
	want, err := model.Shred(schema, rows)
	if err != nil {
		c.Fail("harness.model", nil, "%v", err)
		return
	}
	keys := map[string]any{"mode": productionModes[mode], "type": te.Name}
	data, ex, err, panicked := produceFile(c, "c05.panic", keys, te, rows, want, mode, os)
	if panicked || (data == nil && err == nil) {
		return
	}
	if err != nil {
		c.Fail("c05.write_error", keys, "%s: %v", productionModes[mode], err)
		return
	}
	res := specreader.Validate(data, ex)
	if res.File == nil || hasDecodeProblem(res) {
		for _, p := range res.Problems {
			c.Fail("c05.unreadable."+p.Rule, keys, "%s", p.Msg)
		}
		return
	}
	nbefore := len(res.Problems)
	res.CheckStatistics()
	for rule, cnt := range res.Counts {
		c.Obs("rule_"+rule, cnt)
	}
	skip := append(append([][]string{}, os.SkipBounds...), lastSrcSkipBounds...)
	for _, p := range res.Problems[nbefore:] {
		k := map[string]any{"rule": p.Rule, "mode": productionModes[mode]}
		if p.Col >= 0 && p.Col < len(res.File.Leaves) {
			for _, sp := range skip {
				if strings.Join(sp, ".") == res.File.Leaves[p.Col].Name() {
					k["skip_page_bounds"] = true
				}
			}
		}
		c.Fail("c05."+p.Rule, k, "%s", p.Msg)
	}
	c.Obs("files_checked", 1)
	if !typeHasMap(te.Type) && mode != 7 {
		// the three build / CPU variants must produce the same bytes (statistics kernels included)
		c.Digest("file", data)
	}
	if mode == 3 {
		c.Obs("copied_stats_files", 1)
	}
	// what the run actually saw
	for gi := range res.Chunks {
		for _, cd := range res.Chunks[gi] {
			if cd.CI != nil {
				for i, np := range cd.CI.NullPages {
					if np {
						c.Obs("null_pages_seen", 1)
					} else if i < len(cd.CI.MaxValues) && cd.Leaf.Type == specreader.TByteArr && os.SizeLimit > 0 && len(cd.CI.MaxValues[i]) == os.SizeLimit {
						c.Obs("truncated_bounds_seen", 1)
					}
				}
			}
			if cd.Leaf.Type == specreader.TFloat || cd.Leaf.Type == specreader.TDouble {
				for _, dp := range cd.Data {
					for _, e := range dp.Entries {
						if !e.Null {
							if cd.Leaf.Type == specreader.TFloat && uint32(e.I)&0x7fffffff > 0x7f800000 || cd.Leaf.Type == specreader.TDouble && uint64(e.I)&0x7fffffffffffffff > 0x7ff0000000000000 {
								c.Obs("nan_values_seen", 1)
							}
						}
					}
				}
			}
		}
	}
	// sorting metadata is only what the caller declared
	c.Obs("sorting_metadata_checks", 1)
	for gi, rg := range res.File.RowGroups {
		switch {
		case mode == 4:
			idCol := int64(-1)
			for li, lf := range res.File.Leaves {
				if len(lf.Path) == 1 && lf.Path[0] == "id" {
					idCol = int64(li)
				}
			}
			for _, s := range rg.Sorting {
				if s[0] != idCol || s[1] != 0 || s[2] != 0 {
					c.Fail("c05.sorting_metadata", map[string]any{"mode": productionModes[mode]}, "row group %d declares sorting column %v, the caller declared Ascending(id) only", gi, s)
				}
			}
		default:
			if len(rg.Sorting) != 0 {
				c.Fail("c05.sorting_metadata", map[string]any{"mode": productionModes[mode]}, "row group %d declares sorting columns %v, the caller declared none", gi, rg.Sorting)
			}
		}
	}
}

func hasDecodeProblem(res *specreader.Result) bool {
	for _, p := range res.Problems {
		switch p.Rule {
		case "chunk.decode", "chunk.page_walk", "envelope", "rowgroup.columns", "chunk.meta":
			return true
		}
	}
	return false
}
