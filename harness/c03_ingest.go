package main

import (
	"bytes"
	"fmt"
	"reflect"
	"strings"

	"github.com/parquet-go/parquet-go"

	"verif/gen"
	"verif/model"
)

// C03: every ingestion path shreds a Go value into the same column streams.

func init() {
	register(&PropDef{
		ID:    "C03",
		Level: "exploration",
		Cases: func(t string) int {
			if t == "thorough" {
				return 16000
			}
			return 2100
		},
		Batch:  func(t string) int { return 35 },
		Floors: []string{"path_GenericWriter", "path_WriterWriteAny", "path_GenericWriterAny", "path_GenericBuffer", "path_Buffer", "path_RowBuffer", "path_WriteRowsDeconstruct", "path_ColumnWriters", "reconstruct_checks", "bitmap_runs_over_64"},
		Rule: "case = (catalogue type, rows whose optional fields follow null/non-null run patterns with lengths from {1,2,7,8,9,31,32,33,63,64,65,127,128,129} at every phase of a 64-bit word, Write batch sizes); " +
			"every entry point's stored (value,r,d) streams are compared with model.Shred and Reconstruct(Deconstruct(v)) with v. Distinct = descriptor hash; non-trivial = >=1 row and all 8 paths compared",
		Assumptions: []string{
			"maps are generated with at most one entry in this check (Go map iteration order would otherwise make the stream order legitimately path-dependent)",
			"the library's Node API is the schema report (trusted)",
		},
		Run: runC03,
	})
}

func buildValueRows(streams model.Streams) [][][]parquet.Value {
	// per column: per row: values
	out := make([][][]parquet.Value, len(streams))
	for c, col := range streams {
		for _, row := range model.SplitRows(col) {
			vs := make([]parquet.Value, len(row))
			for i, lv := range row {
				vs[i] = model.ToValue(lv, c)
			}
			out[c] = append(out[c], vs)
		}
	}
	return out
}

func runC03(c *Ctx) {
	r := c.R
	te := pickType(r, c)
	n := gen.Pick(r, []int{1, 5, 64, 65, 130, 200, 257, 300, 513, 700, 1100})
	if c.Thorough() && r.P(10) {
		n = 4096 + r.Intn(200)
	}
	rows := genRows(r, te, n, genOpts{NoHuge: true, SingleEntryMaps: true})
	schema := te.ops.Schema()
	ncols := numLeaves(schema)
	batch := gen.Pick(r, []int{1, 3, 64, 100, 200, 600, 4096, 4096})
	c.D("type", te.Name)
	c.D("rows", n)
	c.D("batch", batch)
	c.D("vseed", r.U64()%1000000)
	for _, p := range nullRunsOver64(rows) {
		_ = p
		c.Obs("bitmap_runs_over_64", 1)
	}

	if typeHasMap(te.Type) {
		// value-level re-assembly with multi-entry maps (stream order is path dependent there,
		// the reassembled value is not)
		mrows := genRows(r, te, 24, genOpts{NoHuge: true})
		c.guard("c03.panic", map[string]any{"path": "Reconstruct", "type": te.Name}, func() {
			for i := 0; i < mrows.Len(); i++ {
				row := schema.Deconstruct(nil, mrows.Index(i).Interface())
				out := reflect.New(te.Type)
				if err := schema.Reconstruct(out.Interface(), row); err != nil {
					c.Fail("c03.path_error", map[string]any{"path": "Reconstruct", "type": te.Name}, "Reconstruct: %v", err)
					return
				}
				if ok, diff := eqNorm(mrows.Index(i), out.Elem(), ""); !ok {
					c.Fail("c03.reconstruct_mismatch", map[string]any{"type": te.Name}, "Reconstruct(Deconstruct(row)) != row (multi-entry maps): %s", diff)
					return
				}
			}
			c.Obs("reconstruct_checks_multimap", mrows.Len())
		})
	}

	want, err := model.Shred(schema, rows)
	if err != nil {
		c.Fail("harness.model", nil, "%v", err)
		return
	}
	cmp := func(path string, got model.Streams, err error) {
		if err != nil {
			c.Fail("c03.path_error", map[string]any{"path": path, "type": te.Name}, "%s: %v", path, err)
			return
		}
		if d := model.DiffStreams(want, got); d != "" {
			c.Fail("c03.stream_mismatch", map[string]any{"path": path, "type": te.Name}, "%s stores a different stream than the Dremel model: %s", path, d)
			return
		}
		c.Obs("path_"+path, 1)
	}
	fileStreams := func(data []byte) (model.Streams, error) {
		f, err := openBytes(data)
		if err != nil {
			return nil, err
		}
		return streamsOfFile(f, 100)
	}
	inBatches := func(write func(lo, hi int) error) error {
		for lo := 0; lo < n; lo += batch {
			hi := lo + batch
			if hi > n {
				hi = n
			}
			if err := write(lo, hi); err != nil {
				return err
			}
		}
		return nil
	}
	run := func(path string, f func() (model.Streams, error)) {
		var s model.Streams
		var err error
		if c.guard("c03.panic", map[string]any{"path": path, "type": te.Name}, func() { s, err = f() }) {
			return
		}
		cmp(path, s, err)
	}

	// 1. GenericWriter[T].Write
	run("GenericWriter", func() (model.Streams, error) {
		var buf bytes.Buffer
		w := te.ops.NewWriter(&buf)
		if err := inBatches(func(lo, hi int) error { _, err := te.ops.Write(w, rows.Slice(lo, hi)); return err }); err != nil {
			return nil, err
		}
		if err := w.Close(); err != nil {
			return nil, err
		}
		return fileStreams(buf.Bytes())
	})
	// 2. Writer.Write(any)
	run("WriterWriteAny", func() (model.Streams, error) {
		var buf bytes.Buffer
		w := parquet.NewWriter(&buf, schema)
		for i := 0; i < n; i++ {
			if err := w.Write(rows.Index(i).Addr().Interface()); err != nil {
				return nil, err
			}
		}
		if err := w.Close(); err != nil {
			return nil, err
		}
		return fileStreams(buf.Bytes())
	})
	// 3. GenericWriter[any] with an explicit schema
	run("GenericWriterAny", func() (model.Streams, error) {
		var buf bytes.Buffer
		w := parquet.NewGenericWriter[any](&buf, schema)
		if err := inBatches(func(lo, hi int) error {
			anys := make([]any, 0, hi-lo)
			for i := lo; i < hi; i++ {
				anys = append(anys, rows.Index(i).Interface())
			}
			_, err := w.Write(anys)
			return err
		}); err != nil {
			return nil, err
		}
		if err := w.Close(); err != nil {
			return nil, err
		}
		return fileStreams(buf.Bytes())
	})
	// 4. GenericBuffer[T].Write
	run("GenericBuffer", func() (model.Streams, error) {
		b := te.ops.NewBuffer()
		if err := inBatches(func(lo, hi int) error { _, err := te.ops.BufferWrite(b, rows.Slice(lo, hi)); return err }); err != nil {
			return nil, err
		}
		rs, err := rowGroupRows(b, 64)
		return model.RowsToStreams(rs, ncols), err
	})
	// 5. Buffer.Write(any)
	run("Buffer", func() (model.Streams, error) {
		b := parquet.NewBuffer(schema)
		for i := 0; i < n; i++ {
			if err := b.Write(rows.Index(i).Interface()); err != nil {
				return nil, err
			}
		}
		rs, err := rowGroupRows(b, 64)
		return model.RowsToStreams(rs, ncols), err
	})
	// 6. RowBuffer[T].Write
	run("RowBuffer", func() (model.Streams, error) {
		b := te.ops.NewRowBuffer()
		if err := inBatches(func(lo, hi int) error { _, err := te.ops.RowBufferWrite(b, rows.Slice(lo, hi)); return err }); err != nil {
			return nil, err
		}
		rs, err := rowGroupRows(b, 64)
		return model.RowsToStreams(rs, ncols), err
	})
	// 7. WriteRows(Schema.Deconstruct(v)) + Reconstruct
	run("WriteRowsDeconstruct", func() (model.Streams, error) {
		var buf bytes.Buffer
		w := parquet.NewWriter(&buf, schema)
		prows := make([]parquet.Row, 0, n)
		for i := 0; i < n; i++ {
			prows = append(prows, schema.Deconstruct(nil, rows.Index(i).Interface()))
		}
		if d := model.DiffStreams(want, model.RowsToStreams(prows, ncols)); d != "" {
			return nil, fmt.Errorf("Schema.Deconstruct differs from the model: %s", d)
		}
		for i := 0; i < n; i++ {
			out := reflect.New(te.Type)
			if err := schema.Reconstruct(out.Interface(), prows[i]); err != nil {
				return nil, fmt.Errorf("Reconstruct row %d: %v", i, err)
			}
			if ok, diff := eqNorm(rows.Index(i), out.Elem(), ""); !ok {
				return nil, fmt.Errorf("Reconstruct(Deconstruct(row %d)) != row: %s", i, diff)
			}
		}
		c.Obs("reconstruct_checks", n)
		if err := inBatches(func(lo, hi int) error { _, err := w.WriteRows(prows[lo:hi]); return err }); err != nil {
			return nil, err
		}
		if err := w.Close(); err != nil {
			return nil, err
		}
		return fileStreams(buf.Bytes())
	})
	// 8. per-column writers fed with the model's own streams
	run("ColumnWriters", func() (model.Streams, error) {
		var buf bytes.Buffer
		w := te.ops.NewWriter(&buf)
		cols := buildValueRows(want)
		cws := w.ColumnWriters()
		if len(cws) != len(cols) {
			return nil, fmt.Errorf("%d column writers for %d leaves", len(cws), len(cols))
		}
		for ci, col := range cols {
			for lo := 0; lo < len(col); lo += batch {
				hi := lo + batch
				if hi > len(col) {
					hi = len(col)
				}
				var flat []parquet.Value
				for _, rv := range col[lo:hi] {
					flat = append(flat, rv...)
				}
				k, err := cws[ci].WriteRowValues(flat)
				if err != nil {
					return nil, err
				}
				if k != hi-lo {
					return nil, fmt.Errorf("column %d: WriteRowValues reported %d rows for %d", ci, k, hi-lo)
				}
			}
		}
		if err := w.Close(); err != nil {
			return nil, err
		}
		return fileStreams(buf.Bytes())
	})
	_ = strings.Join
}

// nullRunsOver64 reports top-level optional fields whose generated null
// pattern contains a run crossing a 64-row word (the bitmap scanner's hard case).
func nullRunsOver64(rows reflect.Value) []string {
	var out []string
	if rows.Len() < 65 {
		return nil
	}
	t := rows.Type().Elem()
	for i := 0; i < t.NumField(); i++ {
		f := t.Field(i)
		if !hasOpt(f.Tag.Get("parquet"), "optional") || f.Type.Kind() == reflect.Slice || f.Type.Kind() == reflect.Map || f.Type.Kind() == reflect.Ptr {
			continue
		}
		// non-null run crossing a word boundary
		for r := 63; r+1 < rows.Len(); r += 64 {
			if !rows.Index(r).Field(i).IsZero() && !rows.Index(r+1).Field(i).IsZero() {
				out = append(out, f.Name)
				break
			}
		}
	}
	return out
}
