package main

import (
	"bytes"
	"errors"
	"fmt"
	"io"
	"reflect"
	"strings"

	"github.com/parquet-go/parquet-go"
	"github.com/parquet-go/parquet-go/format"

	"verif/gen"
	"verif/model"
)

// C01: write then read returns exactly the rows written.

func init() {
	register(&PropDef{
		ID:    "C01",
		Level: "exploration",
		Cases: func(t string) int {
			if t == "thorough" {
				return 24000
			}
			return 2000
		},
		Batch:  func(t string) int { return 40 },
		Floors: []string{"files_read_back", "pages_v1", "pages_v2", "multi_rowgroup_files", "dict_fallback_columns", "codec_SNAPPY", "codec_GZIP", "codec_ZSTD", "codec_BROTLI", "codec_LZ4_RAW", "stream_level_checks"},
		Rule: "case = (catalogue type, rows from boundary pools with run-structured nulls, option combination from the writer-option matrix, split into Write/Flush calls, write entry point); " +
			"distinct = descriptor hash (type, nrows, options, history, entry point); non-trivial = at least one row written and read back through >= 3 read APIs",
		Assumptions: []string{
			"reads use the library's own readers (symmetry is removed in C02 by the independent decoder)",
			"time.Time values are generated at the column's unit granularity, in UTC, within ±95 years of the epoch",
			"optional non-pointer fields are generated either zero (null) or non-zero, per the documented mapping",
		},
		Run: runC01,
	})
}

func pickType(r *gen.Rand, c *Ctx) *typeEntry {
	// the first pass over the case list visits every catalogue type in turn
	return catalogue[(c.Case+int(c.Seed))%len(catalogue)]
}

func rowCount(r *gen.Rand, thorough bool) int {
	switch r.Intn(10) {
	case 0:
		return gen.Pick(r, []int{0, 1, 2})
	case 1, 2:
		return gen.Pick(r, []int{63, 64, 65, 127, 128, 129})
	case 3:
		if thorough {
			return 1000 + r.Intn(4000)
		}
		return 250 + r.Intn(50)
	default:
		return 3 + r.Intn(200)
	}
}

// fileFacts records, from the library's view of the footer, what a file exercised.
func fileFacts(c *Ctx, f *parquet.File) {
	md := f.Metadata()
	if len(md.RowGroups) > 1 {
		c.Obs("multi_rowgroup_files", 1)
	}
	c.Obs("row_groups", len(md.RowGroups))
	for _, rg := range md.RowGroups {
		for _, col := range rg.Columns {
			m := col.MetaData
			c.Obs("codec_"+m.Codec.String(), 1)
			dictPages, plainData, dictData := 0, 0, 0
			for _, es := range m.EncodingStats {
				switch es.PageType {
				case format.DictionaryPage:
					dictPages += int(es.Count)
				case format.DataPage:
					c.Obs("pages_v1", int(es.Count))
				case format.DataPageV2:
					c.Obs("pages_v2", int(es.Count))
				}
				if es.PageType == format.DataPage || es.PageType == format.DataPageV2 {
					c.Obs("enc_"+es.Encoding.String(), int(es.Count))
					if es.Encoding == format.RLEDictionary || es.Encoding == format.PlainDictionary {
						dictData += int(es.Count)
					} else {
						plainData += int(es.Count)
					}
				}
			}
			if dictPages > 0 && plainData > 0 {
				c.Obs("dict_fallback_columns", 1)
			}
		}
	}
}

// c01NilPointerElements: slices of pointers without the list tag are repeated columns with no level to express a nil
// element; every write entry point stores the zero value of the element for it, and the file must stay readable.
func c01NilPointerElements(c *Ctx, r *gen.Rand) {
	type row struct {
		ID    int64      `parquet:"id"`
		Tags  []*string  `parquet:"tags"`
		Items []*c16Item `parquet:"items"`
	}
	n := 1 + r.Intn(30)
	rows := make([]row, n)
	want := make([]row, n)
	// only through the typed writer: the reflection-based entry points do not accept slices of scalar pointers at all
	// (panic in makeValue) and mis-store nil struct elements through GenericWriter[any] (observation O8, not covered)
	entry := "GenericWriter.Write"
	nilTags := true
	for i := range rows {
		rows[i].ID, want[i].ID = int64(i), int64(i)
		for j := r.Intn(4); j > 0; j-- {
			if nilTags && r.P(40) {
				rows[i].Tags = append(rows[i].Tags, nil)
				want[i].Tags = append(want[i].Tags, new(string))
			} else {
				s := fmt.Sprintf("t%d.%d", i, j)
				rows[i].Tags = append(rows[i].Tags, &s)
				want[i].Tags = append(want[i].Tags, &s)
			}
		}
		for j := r.Intn(4); j > 0; j-- {
			if r.P(40) {
				rows[i].Items = append(rows[i].Items, nil)
				want[i].Items = append(want[i].Items, &c16Item{})
			} else {
				it := &c16Item{A: int64(i*10 + j), B: "b"}
				rows[i].Items = append(rows[i].Items, it)
				want[i].Items = append(want[i].Items, it)
			}
		}
	}
	c.D("type", "nil_pointer_elements")
	c.D("rows", n)
	c.D("entry", entry)
	keys := map[string]any{"type": "nil_pointer_elements", "entry": entry}
	var buf bytes.Buffer
	var got []row
	var err error
	if c.guard("c01.write_panic", keys, func() {
		switch entry {
		case "GenericWriter.Write":
			w := parquet.NewGenericWriter[row](&buf)
			if _, err = w.Write(rows); err == nil {
				err = w.Close()
			}
		case "Writer.Write(any)":
			w := parquet.NewWriter(&buf, parquet.SchemaOf(row{}))
			for i := range rows {
				if err = w.Write(&rows[i]); err != nil {
					return
				}
			}
			err = w.Close()
		default:
			w := parquet.NewGenericWriter[any](&buf, parquet.SchemaOf(row{}))
			for i := range rows {
				if _, err = w.Write([]any{rows[i]}); err != nil {
					return
				}
			}
			err = w.Close()
		}
		if err == nil {
			got, err = parquet.Read[row](bytes.NewReader(buf.Bytes()), int64(buf.Len()))
		}
	}) {
		return
	}
	if err != nil {
		c.Fail("c01.read_error", keys, "rows with nil pointer elements written through %s: %v", entry, err)
		return
	}
	if ok, diff := eqNorm(reflect.ValueOf(want), reflect.ValueOf(got), "rows"); !ok {
		c.Fail("c01.mismatch", keys, "rows with nil pointer elements written through %s read back differently (%d rows written, %d read): %s", entry, n, len(got), diff)
		return
	}
	c.Obs("nil_pointer_element_files", 1)
	c.Obs("files_read_back", 1)
}

func runC01(c *Ctx) {
	r := c.R
	if c.Case%40 == 23 {
		c01NilPointerElements(c, r)
		return
	}
	te := pickType(r, c)
	n := rowCount(r, c.Thorough())
	rows := genRows(r, te, n, genOpts{NoHuge: !c.Thorough() && n > 100})
	schema := te.ops.Schema()
	os := genOptions(r, optLimits{Leaves: leafPaths(schema)})
	defer os.Close()
	ops := genWriteHist(r, n)
	entry := r.Intn(3)
	c.D("type", te.Name)
	c.D("rows", n)
	c.D("opts", strings.Join(os.Desc, " "))
	c.D("hist", histDesc(ops))
	c.D("entry", []string{"GenericWriter.Write", "Writer.Write(any)", "parquet.Write"}[entry])
	if n == 0 {
		c.Trivial()
	}

	var data []byte
	var err error
	keys := map[string]any{"type": te.Name, "version": os.Version}
	if c.guard("c01.write_panic", keys, func() {
		switch entry {
		case 0:
			data, err = writeTyped(te, rows, ops, os.Opts)
		case 1:
			data, err = writeReflect(te, rows, ops, os.Opts)
		default:
			var buf bytes.Buffer
			err = te.ops.WriteAll(&buf, rows, os.Opts...)
			data = buf.Bytes()
		}
	}) {
		return
	}
	if err != nil {
		c.Fail("c01.write_error", keys, "writing %d valid rows failed: %v", n, err)
		return
	}

	// ---- read back
	check := func(api string, got reflect.Value, err error) bool {
		if err != nil {
			c.Fail("c01.read_error", map[string]any{"api": api, "type": te.Name, "version": os.Version, "codec": os.Codec.String()}, "%s: %v", api, err)
			return false
		}
		if ok, diff := eqRows(rows, got); !ok {
			c.Fail("c01.mismatch", map[string]any{"api": api, "type": te.Name, "codec": os.Codec.String()}, "%s: %s", api, diff)
			return false
		}
		c.Obs("api_"+api, 1)
		return true
	}
	var f *parquet.File
	if c.guard("c01.read_panic", keys, func() {
		f, err = openBytes(data)
	}) {
		return
	}
	if err != nil {
		c.Fail("c01.open_error", keys, "OpenFile on a successfully closed file: %v", err)
		return
	}
	if f.NumRows() != int64(n) {
		c.Fail("c01.mismatch", map[string]any{"api": "NumRows", "type": te.Name}, "NumRows=%d, wrote %d", f.NumRows(), n)
		return
	}
	fileFacts(c, f)

	c.guard("c01.read_panic", keys, func() {
		// (a) parquet.Read[T]
		got, err := te.ops.ReadAll(bytes.NewReader(data), int64(len(data)))
		if !check("Read[T]", got, err) {
			return
		}
		// (b) GenericReader[T].Read with PRNG batches, varying file options
		var fopts []parquet.FileOption
		fdesc := ""
		if r.P(30) {
			fopts = append(fopts, parquet.SkipPageIndex(true))
			fdesc += "skipindex "
		}
		if r.P(30) {
			fopts = append(fopts, parquet.FileReadMode(parquet.ReadModeAsync))
			fdesc += "async "
		}
		if r.P(30) {
			fopts = append(fopts, parquet.ReadBufferSize(gen.Pick(r, []int{16, 4096})))
			fdesc += "rbuf "
		}
		if r.P(20) {
			fopts = append(fopts, parquet.SkipBloomFilters(true))
		}
		if r.P(25) {
			fopts = append(fopts, parquet.OptimisticRead(true))
			fdesc += "optimistic "
			if r.Bool() {
				fopts = append(fopts, parquet.PrefetchBloomFilters(true))
				fdesc += "prefetchbloom "
			}
			c.Obs("open_optimistic", 1)
		}
		f2, err := openBytes(data, fopts...)
		if err != nil {
			c.Fail("c01.open_error", keys, "OpenFile(%s): %v", fdesc, err)
			return
		}
		gr := te.ops.NewReader(f2)
		out := te.ops.NewRows(n)
		got2, err := readTypedAll(te, gr, out, r)
		gr.Close()
		if !check("GenericReader.Read", got2, err) {
			return
		}
		// (c) Reader.Read(any), first rows only
		rd := parquet.NewReader(bytes.NewReader(data))
		k := n
		if k > 40 {
			k = 40
		}
		out3 := te.ops.NewRows(k)
		for i := 0; i < k; i++ {
			if err := rd.Read(out3.Index(i).Addr().Interface()); err != nil {
				c.Fail("c01.read_error", map[string]any{"api": "Reader.Read", "type": te.Name}, "Reader.Read row %d: %v", i, err)
				rd.Close()
				return
			}
		}
		rd.Close()
		if ok, diff := eqRows(rows.Slice(0, k), out3); !ok {
			c.Fail("c01.mismatch", map[string]any{"api": "Reader.Read", "type": te.Name}, "Reader.Read: %s", diff)
			return
		}
		c.Obs("api_Reader.Read", 1)
		// (d) (value, r, d) level against the model
		if !typeHasMap(te.Type) {
			want, err := model.Shred(schema, rows)
			if err != nil {
				c.Fail("harness.model", nil, "%v", err)
				return
			}
			got, err := streamsOfFile(f, gen.Pick(r, []int{1, 7, 64, 1000}))
			if err != nil {
				c.Fail("c01.read_error", map[string]any{"api": "Rows.ReadRows", "type": te.Name, "version": os.Version, "codec": os.Codec.String()}, "Rows().ReadRows: %v", err)
				return
			}
			if d := model.DiffStreams(want, got); d != "" {
				c.Fail("c01.mismatch", map[string]any{"api": "Rows.ReadRows", "type": te.Name, "codec": os.Codec.String()}, "model streams != file streams: %s", d)
				return
			}
			c.Obs("stream_level_checks", 1)
		}
		c.Obs("files_read_back", 1)
		c.Obs("rows_read_back", n)
	})
}

// readTypedAll reads every row through GenericReader[T].Read in PRNG batches.
func readTypedAll(te *typeEntry, gr greader, out reflect.Value, r *gen.Rand) (reflect.Value, error) {
	n := out.Len()
	pos := 0
	// half of the time the caller reads into one batch slice that it reuses (still holding the
	// previous rows) and keeps shallow copies of the rows, as applications do
	reuse := r.Bool()
	var batch reflect.Value
	if reuse {
		batch = te.ops.NewRows(100)
		if n > 100 {
			batch = te.ops.NewRows(n)
		}
	}
	for guard := 0; pos < n; guard++ {
		k := gen.Pick(r, []int{1, 2, 7, 64, 100, n})
		if pos+k > n {
			k = n - pos
		}
		var m int
		var err error
		if reuse {
			m, err = te.ops.Read(gr, batch.Slice(0, k))
			for i := 0; i < m; i++ {
				out.Index(pos + i).Set(batch.Index(i))
			}
		} else {
			m, err = te.ops.Read(gr, out.Slice(pos, pos+k))
		}
		pos += m
		if err != nil {
			if errors.Is(err, io.EOF) {
				break
			}
			return out.Slice(0, pos), err
		}
		if m == 0 && guard > 100000 {
			return out.Slice(0, pos), fmt.Errorf("Read made no progress at row %d", pos)
		}
	}
	if pos == n {
		// must now report EOF
		extra := te.ops.NewRows(1)
		m, err := te.ops.Read(gr, extra)
		if m != 0 || !errors.Is(err, io.EOF) {
			return out.Slice(0, pos), fmt.Errorf("read past the end returned n=%d err=%v", m, err)
		}
	}
	return out.Slice(0, pos), nil
}
