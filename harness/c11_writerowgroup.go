package main

import (
	"bytes"
	"fmt"
	"io"
	"reflect"
	"strings"

	"github.com/parquet-go/parquet-go"
	"github.com/parquet-go/parquet-go/encoding"

	"verif/gen"
	"verif/model"
	"verif/specreader"
)

// C11: row-group copy and re-encode fast paths are indistinguishable from the row path.

func init() {
	register(&PropDef{
		ID:    "C11",
		Level: "exploration",
		Cases: func(t string) int {
			if t == "thorough" {
				return 18000
			}
			return 1800
		},
		Batch: func(t string) int { return 30 },
		Floors: []string{"comparisons", "path_verbatim_copy", "path_column_reencode", "path_row", "source_file", "source_buffer", "source_range_view", "source_multi", "source_merged", "source_dedup", "source_foreign_reversed", "source_converted", "source_merged_wrapped", "source_converted_values", "source_merged_converted_unsorted", "source_merged_converted_ranges", "value_conversions_checked", "wrapped_dedup_input", "wrapped_foreign_input", "pending_rows_before_write_rowgroup",
			"dst_same_config", "dst_other_codec", "dst_other_version", "dst_other_encoding", "dst_small_pages", "dst_maxrows", "dst_bloom", "dst_page_statistics", "dst_index_size_limit", "settings_checked"},
		Rule: "case = (source row group among: file row group, buffer, row-range view, MultiRowGroup, merged (overlapping or not), dedup wrapper, converted, and a foreign RowGroup implementation whose Rows() reverses the rows; source writer config from the option matrix; " +
			"destination config equal to the source or with one setting changed: codec, page version, default encoding, page size, MaxRowsPerRowGroup, bloom filters, DataPageStatistics, ColumnIndexSizeLimit). File A = dst.WriteRowGroup(src); the rows of A (library reader and independent decoder) must equal src.Rows() as read before, " +
			"and A must honour the destination codec / page version / encoding / bloom filters / row-group size / page statistics / column-index size limit. Hook counters record which path ran. Distinct = descriptor hash",
		Assumptions: []string{"page boundaries and row-group partitioning below the configured maximum may differ, as the statement allows", "path counters are read through verif-tagged accessors"},
		Run:         runC11,
	})
}

// reversedRowGroup is a foreign RowGroup implementation: same chunks, but its
// Rows() yields the rows in reverse order. A writer must not bypass Rows().
type reversedRowGroup struct {
	parquet.RowGroup
	rows []parquet.Row
}

func (r *reversedRowGroup) Rows() parquet.Rows { return &sliceRows{rows: r.rows, schema: r.Schema()} }

// everyOtherRowGroup: a foreign RowGroup over file-backed chunks whose Rows() keep every other row.
type everyOtherRowGroup struct{ reversedRowGroup }

func (g *everyOtherRowGroup) NumRows() int64 { return int64(len(g.rows)) }

type sliceRows struct {
	rows   []parquet.Row
	pos    int
	schema *parquet.Schema
}

func (s *sliceRows) ReadRows(dst []parquet.Row) (int, error) {
	n := 0
	for n < len(dst) && s.pos < len(s.rows) {
		dst[n] = append(dst[n][:0], s.rows[s.pos]...)
		n++
		s.pos++
	}
	if s.pos >= len(s.rows) {
		return n, io.EOF
	}
	return n, nil
}
func (s *sliceRows) SeekToRow(i int64) error { s.pos = int(i); return nil }
func (s *sliceRows) Close() error            { return nil }
func (s *sliceRows) Schema() *parquet.Schema { return s.schema }

func runC11(c *Ctx) {
	r := c.R
	if c.Case%10 == 9 {
		c11Converted(c, r, c11ConvertedKinds[(c.Case/10)%len(c11ConvertedKinds)])
		return
	}
	te := typeByName(gen.Pick(r, []string{"c10row", "strings", "lists", "deep", "dictall", "optscalar", "c07row", "repdict", "flat"}))
	schema := te.ops.Schema()
	n := gen.Pick(r, []int{30, 200, 600})
	rows := genRows(r, te, n, genOpts{NoHuge: true, SmallLists: r.P(60)})
	srcOpt := genOptions(r, optLimits{Leaves: leafPaths(schema), NoBloom: r.P(50)})
	defer srcOpt.Close()
	srcKind := []string{"file", "buffer", "range_view", "multi", "merged", "dedup", "foreign_reversed", "converted", "merged_wrapped"}[c.Case%9]
	c.D("type", te.Name)
	c.D("rows", n)
	c.D("source", srcKind)
	c.D("src_opts", strings.Join(srcOpt.Desc, " "))
	keys := map[string]any{"source": srcKind}

	// ---- destination config
	dstKind := gen.Pick(r, []string{"same_config", "same_config", "other_codec", "other_version", "other_encoding", "small_pages", "maxrows", "bloom", "page_statistics", "index_size_limit"})
	dstOpts := append([]parquet.WriterOption{}, srcOpt.Opts...)
	exp := struct {
		codec   int
		version int
		maxRows int64
		bloom   [][]string
		enc     map[parquet.Kind]encoding.Encoding
		// statistics settings: page headers carry min/max, column-index values are at most ciLimit bytes
		pageStats bool
		ciLimit   int
	}{codec: codecNum(srcOpt.Codec.String()), version: srcOpt.Version, maxRows: srcOpt.MaxRows, bloom: srcOpt.BloomPaths, enc: map[parquet.Kind]encoding.Encoding{}}
	switch dstKind {
	case "other_codec":
		codec := gen.Pick(r, allCodecs)
		dstOpts = append(dstOpts, parquet.Compression(codec))
		exp.codec = codecNum(codec.String())
	case "other_version":
		exp.version = 3 - srcOpt.Version
		dstOpts = append(dstOpts, parquet.DataPageVersion(exp.version))
	case "other_encoding":
		dstOpts = append(dstOpts, parquet.DefaultEncodingFor(parquet.Int64, &parquet.DeltaBinaryPacked), parquet.DefaultEncodingFor(parquet.ByteArray, &parquet.DeltaLengthByteArray))
		exp.enc[parquet.Int64] = &parquet.DeltaBinaryPacked
		exp.enc[parquet.ByteArray] = &parquet.DeltaLengthByteArray
	case "small_pages":
		dstOpts = append(dstOpts, parquet.PageBufferSize(gen.Pick(r, []int{64, 1024, 4096})))
	case "maxrows":
		exp.maxRows = int64(gen.Pick(r, []int{7, 50, 100}))
		dstOpts = append(dstOpts, parquet.MaxRowsPerRowGroup(exp.maxRows))
	case "page_statistics":
		exp.pageStats = true
		dstOpts = append(dstOpts, parquet.DataPageStatistics(true))
	case "index_size_limit":
		exp.ciLimit = gen.Pick(r, []int{1, 4, 8})
		lim := exp.ciLimit
		dstOpts = append(dstOpts, parquet.ColumnIndexSizeLimit(func([]string) int { return lim }))
	case "bloom":
		p := gen.Pick(r, leafPaths(schema))
		exp.bloom = [][]string{p}
		dstOpts = append(dstOpts, parquet.BloomFilters(parquet.SplitBlockFilter(10, p...)))
	}
	c.D("dst", dstKind)
	keys["dst"] = dstKind

	// ---- build the source
	var src parquet.RowGroup
	var err error
	mkFile := func(rows []parquet.Row, opts []parquet.WriterOption) (*parquet.File, error) {
		var buf bytes.Buffer
		w := parquet.NewWriter(&buf, append([]parquet.WriterOption{schema}, opts...)...)
		if _, err := w.WriteRows(rows); err != nil {
			return nil, err
		}
		if err := w.Close(); err != nil {
			return nil, err
		}
		return openBytes(buf.Bytes())
	}
	prows := make([]parquet.Row, n)
	for i := 0; i < n; i++ {
		prows[i] = schema.Deconstruct(nil, rows.Index(i).Interface())
	}
	failedBuild := c.guard("c11.panic", map[string]any{"source": srcKind, "phase": "build"}, func() {
		noSplit := append(append([]parquet.WriterOption{}, srcOpt.Opts...), parquet.MaxRowsPerRowGroup(1<<40))
		switch srcKind {
		case "file", "range_view", "foreign_reversed", "converted":
			var f *parquet.File
			if f, err = mkFile(prows, noSplit); err != nil {
				return
			}
			rg := f.RowGroups()[0]
			switch srcKind {
			case "file":
				src = rg
			case "range_view":
				off := int64(r.Intn(n))
				l := int64(1 + r.Intn(n-int(off)))
				if off == 0 && l == int64(n) {
					l--
					if l == 0 {
						l = 1
					}
				}
				src = parquet.VerifNewRowRangeRowGroup(rg, off, l)
				c.D("range", fmt.Sprintf("%d+%d", off, l))
			case "foreign_reversed":
				all, e := rowGroupRows(rg, 64)
				if e != nil {
					err = e
					return
				}
				rev := make([]parquet.Row, len(all))
				for i := range all {
					rev[len(all)-1-i] = all[i]
				}
				src = &reversedRowGroup{RowGroup: rg, rows: rev}
			case "converted":
				conv, e := parquet.Convert(schema, rg.Schema())
				if e != nil {
					err = e
					return
				}
				src = parquet.ConvertRowGroup(rg, conv)
			}
		case "buffer":
			b := parquet.NewBuffer(schema)
			if _, err = b.WriteRows(prows); err != nil {
				return
			}
			src = b
		case "multi":
			var f *parquet.File
			if f, err = mkFile(prows, append(append([]parquet.WriterOption{}, srcOpt.Opts...), parquet.MaxRowsPerRowGroup(int64(n/3+1)))); err != nil {
				return
			}
			src = parquet.MultiRowGroup(f.RowGroups()...)
		case "merged_wrapped":
			// a sorted merge of two NON-overlapping inputs, so that the planner emits them as segments: a plain
			// file row group next to a wrapper over file-backed chunks whose Rows() differ from what the
			// chunks hold (a foreign RowGroup keeping every other row, or the library's own duplicate-dropping merge)
			sorting := parquet.SortingColumns(parquet.Ascending("id"))
			half := n / 2
			a, b := prows[:half], prows[half:]
			dedupInner := r.Bool()
			if dedupInner {
				var out []parquet.Row
				for _, row := range b {
					out = append(out, row, row.Clone())
				}
				b = out
			}
			so := append(append([]parquet.WriterOption{}, noSplit...), parquet.SortingWriterConfig(sorting))
			var fa, fb *parquet.File
			if fa, err = mkFile(a, so); err != nil {
				return
			}
			if fb, err = mkFile(b, so); err != nil {
				return
			}
			if len(fa.RowGroups()) != 1 || len(fb.RowGroups()) != 1 {
				err = fmt.Errorf("expected one row group per input")
				return
			}
			var wrapped parquet.RowGroup
			if dedupInner {
				c.Obs("wrapped_dedup_input", 1)
				if wrapped, err = parquet.MergeRowGroups(fb.RowGroups(), schema, parquet.SortingRowGroupConfig(sorting, parquet.DropDuplicatedRows(true))); err != nil {
					return
				}
			} else {
				c.Obs("wrapped_foreign_input", 1)
				var kept []parquet.Row
				for i, row := range b {
					if i%2 == 0 {
						kept = append(kept, row)
					}
				}
				wrapped = &everyOtherRowGroup{reversedRowGroup{RowGroup: fb.RowGroups()[0], rows: kept}}
			}
			src, err = parquet.MergeRowGroups([]parquet.RowGroup{fa.RowGroups()[0], wrapped}, schema, parquet.SortingRowGroupConfig(sorting))
			dstOpts = append(dstOpts, parquet.SortingWriterConfig(sorting))
		case "merged", "dedup":
			// two inputs sorted by id; merged overlaps or not
			sorting := parquet.SortingColumns(parquet.Ascending("id"))
			half := n / 2
			var a, b []parquet.Row
			if r.Bool() {
				a, b = prows[:half], prows[half:] // disjoint ranges
			} else {
				for i, row := range prows { // interleaved ranges
					if i%2 == 0 {
						a = append(a, row)
					} else {
						b = append(b, row)
					}
				}
			}
			if srcKind == "dedup" {
				// duplicate keys WITHIN each input (every third row repeated) and, half of the
				// time, ACROSS inputs as well
				dupWithin := func(in []parquet.Row) []parquet.Row {
					var out []parquet.Row
					for i, row := range in {
						out = append(out, row)
						if i%3 == 0 {
							out = append(out, row.Clone())
						}
					}
					return out
				}
				a, b = dupWithin(a), dupWithin(b)
				if r.Bool() && len(a) > 1 {
					b = append(append([]parquet.Row{}, b...), a[:len(a)/2]...)
					sortRowsByID(b)
				}
			}
			so := append(append([]parquet.WriterOption{}, noSplit...), parquet.SortingWriterConfig(sorting))
			var fa, fb *parquet.File
			if fa, err = mkFile(a, so); err != nil {
				return
			}
			if fb, err = mkFile(b, so); err != nil {
				return
			}
			var rgs []parquet.RowGroup
			rgs = append(rgs, fa.RowGroups()...)
			rgs = append(rgs, fb.RowGroups()...)
			sopts := []parquet.SortingOption{sorting}
			if srcKind == "dedup" {
				sopts = append(sopts, parquet.DropDuplicatedRows(true))
			}
			src, err = parquet.MergeRowGroups(rgs, schema, parquet.SortingRowGroupConfig(sopts...))
			dstOpts = append(dstOpts, parquet.SortingWriterConfig(sorting))
		}
	})
	if failedBuild {
		return
	}
	if err != nil {
		c.Fail("harness.source", keys, "building the %s source: %v", srcKind, err)
		return
	}
	// what the source says its rows are, read BEFORE the write
	expected, err := rowGroupRows(src, gen.Pick(r, []int{7, 64, 1000}))
	if err != nil {
		c.Fail("harness.source", keys, "reading the %s source rows: %v", srcKind, err)
		return
	}
	// a quarter of the time the destination writer still buffers rows of earlier Write calls:
	// they come first in the file, the row group follows
	var pending []parquet.Row
	if r.P(25) {
		k := 1 + r.Intn(30)
		if k > n {
			k = n
		}
		for i := 0; i < k; i++ {
			pending = append(pending, schema.Deconstruct(nil, rows.Index(i).Interface()))
		}
		if (srcKind == "multi" || srcKind == "merged" || srcKind == "merged_wrapped") && dstKind != "maxrows" && len(expected) > 0 && int64(len(expected)) < exp.maxRows {
			// a row-group limit that the source's segments fit under exactly: the buffered rows must not end up in the same row group
			exp.maxRows = int64(len(expected))
			dstOpts = append(dstOpts, parquet.MaxRowsPerRowGroup(exp.maxRows))
			c.Obs("pending_rows_with_tight_rowgroup_limit", 1)
		}
		expected = append(append([]parquet.Row{}, pending...), expected...)
		c.D("pending_rows", k)
		c.Obs("pending_rows_before_write_rowgroup", 1)
	}
	want := model.RowsToStreams(expected, numLeaves(schema))

	// ---- A: WriteRowGroup
	copied0, reenc0 := parquet.VerifPathCounters()
	var bufA bytes.Buffer
	var werr error
	if c.guard("c11.panic", keys, func() {
		w := parquet.NewWriter(&bufA, append([]parquet.WriterOption{schema}, dstOpts...)...)
		if len(pending) > 0 {
			if _, werr = w.WriteRows(pending); werr != nil {
				return
			}
		}
		if _, werr = w.WriteRowGroup(src); werr != nil {
			return
		}
		werr = w.Close()
	}) {
		return
	}
	if werr != nil {
		c.Fail("c11.write_error", keys, "WriteRowGroup(%s source) into a %s destination: %v", srcKind, dstKind, werr)
		return
	}
	copied1, reenc1 := parquet.VerifPathCounters()
	path := "row"
	if copied1 > copied0 {
		path = "verbatim_copy"
	} else if reenc1 > reenc0 {
		path = "column_reencode"
	}
	c.Obs("path_"+path, 1)
	c.Obs("source_"+srcKind, 1)
	c.Obs("dst_"+dstKind, 1)
	c.D("path", path)
	keys["path"] = path

	// rows of A through the library
	fA, err := openBytes(bufA.Bytes())
	if err != nil {
		c.Fail("c11.unreadable", keys, "the file produced by WriteRowGroup cannot be opened: %v", err)
		return
	}
	gotRows, err := fileRows(fA, 64)
	if err != nil {
		c.Fail("c11.unreadable", keys, "the file produced by WriteRowGroup cannot be read: %v", err)
		return
	}
	if d := model.DiffStreams(normStreams(want), normStreams(model.RowsToStreams(gotRows, numLeaves(schema)))); d != "" {
		c.Fail("c11.rows_differ", keys, "rows of the file written through WriteRowGroup (%s path) differ from src.Rows(): %s (source %d rows, file %d rows)", path, d, len(expected), len(gotRows))
		return
	}
	// independent decode + settings
	res := checkFileAgainstModel(c, "c11.wellformed", keys, bufA.Bytes(), specreader.Expect{Codec: -1, PageVersion: exp.version}, want)
	if c.Failed() || res.File == nil {
		return
	}
	c.Obs("comparisons", 1)
	for gi := range res.Chunks {
		if exp.maxRows > 0 && res.File.RowGroups[gi].NumRows > exp.maxRows {
			c.Fail("c11.setting_ignored", map[string]any{"setting": "max_rows", "path": path, "source": srcKind}, "row group %d has %d rows, destination MaxRowsPerRowGroup=%d (%s path)", gi, res.File.RowGroups[gi].NumRows, exp.maxRows, path)
			return
		}
		for ci, cd := range res.Chunks[gi] {
			c.Obs("settings_checked", 1)
			if cd.Chunk.Codec != exp.codec && !hasTagCodec(te, ci) {
				c.Fail("c11.setting_ignored", map[string]any{"setting": "codec", "path": path, "source": srcKind}, "column %s is compressed with codec %d, destination configured %d (%s path)", cd.Leaf.Name(), cd.Chunk.Codec, exp.codec, path)
				return
			}
			for _, bp := range exp.bloom {
				if strings.Join(bp, ".") == cd.Leaf.Name() && cd.Chunk.NumValues > 0 && !cd.Chunk.HasBloomOffset {
					nonNull := 0
					for _, dp := range cd.Data {
						nonNull += dp.NonNull
					}
					if nonNull > 0 {
						c.Fail("c11.setting_ignored", map[string]any{"setting": "bloom", "path": path, "source": srcKind}, "column %s has no bloom filter although the destination configures one (%s path)", cd.Leaf.Name(), path)
						return
					}
				}
			}
			if exp.pageStats && !pathIn(srcOpt.SkipStats, cd.Leaf.Path) {
				switch kindOfLeaf(cd.Leaf.Type) {
				case parquet.Float, parquet.Double, parquet.Int96:
					// pages holding only NaN have no bounds; Int96 has no order
				default:
					for pi, dp := range cd.Data {
						if dp.NonNull > 0 && !(dp.Info.Stats.HasMinValue && dp.Info.Stats.HasMaxValue) {
							c.Fail("c11.setting_ignored", map[string]any{"setting": "page_statistics", "path": path, "source": srcKind}, "column %s data page %d has %d non-null values and no min/max in its header although the destination sets DataPageStatistics(true) (%s path)", cd.Leaf.Name(), pi, dp.NonNull, path)
							return
						}
					}
				}
			}
			if exp.ciLimit > 0 && cd.CI != nil && kindOfLeaf(cd.Leaf.Type) == parquet.ByteArray { // 16-byte fixed-length values (uuid) are indexed whole
				for pi := range cd.CI.MinValues {
					mn, mx := cd.CI.MinValues[pi], cd.CI.MaxValues[pi]
					// the upper bound of a value whose first ciLimit bytes are all 0xFF cannot be shortened
					allFF := len(mx) > exp.ciLimit
					for _, b := range mx[:min(len(mx), exp.ciLimit)] {
						allFF = allFF && b == 0xFF
					}
					if len(mn) > exp.ciLimit || (len(mx) > exp.ciLimit && !allFF) {
						c.Fail("c11.setting_ignored", map[string]any{"setting": "index_size_limit", "path": path, "source": srcKind}, "column %s page %d: column-index min/max are %d/%d bytes long, destination ColumnIndexSizeLimit=%d (%s path)", cd.Leaf.Name(), pi, len(mn), len(mx), exp.ciLimit, path)
						return
					}
				}
			}
			if e, ok := exp.enc[kindOfLeaf(cd.Leaf.Type)]; ok && !hasTagEncoding(te, ci) {
				want := int(e.Encoding())
				for _, p := range cd.Pages {
					if p.Type != specreader.PageDictionary && p.Encoding != want {
						c.Fail("c11.setting_ignored", map[string]any{"setting": "encoding", "path": path, "source": srcKind}, "column %s has a page with encoding %d, destination default encoding for its kind is %d (%s path)", cd.Leaf.Name(), p.Encoding, want, path)
						return
					}
				}
			}
		}
	}
}

func kindOfLeaf(t int) parquet.Kind { return parquet.Kind(t) }

func pathIn(paths [][]string, p []string) bool {
	for _, q := range paths {
		if strings.Join(q, "\x00") == strings.Join(p, "\x00") {
			return true
		}
	}
	return false
}

// struct tags may pin a codec / encoding on a column, which then wins over writer defaults.
func tagOfLeaf(te *typeEntry, ci int) string {
	paths := te.ops.Schema().Columns()
	if ci >= len(paths) {
		return ""
	}
	t := te.Type
	tag := ""
	for _, name := range paths[ci] {
		found := false
		for t.Kind() == reflect.Ptr || t.Kind() == reflect.Slice || t.Kind() == reflect.Map {
			t = t.Elem()
		}
		if t.Kind() != reflect.Struct {
			break
		}
		for i := 0; i < t.NumField(); i++ {
			f := t.Field(i)
			ptag := f.Tag.Get("parquet")
			fname := strings.Split(ptag, ",")[0]
			if fname == "" {
				fname = f.Name
			}
			if fname == name {
				tag = ptag + "," + f.Tag.Get("parquet-element") + "," + f.Tag.Get("parquet-value")
				t = f.Type
				found = true
				break
			}
		}
		if !found {
			break
		}
	}
	return tag
}

func hasTagCodec(te *typeEntry, ci int) bool {
	tag := tagOfLeaf(te, ci)
	for _, x := range []string{"snappy", "gzip", "brotli", "lz4", "zstd", "uncompressed"} {
		if hasOpt(","+tag, x) || strings.Contains(tag, ","+x) {
			return true
		}
	}
	return false
}

func hasTagEncoding(te *typeEntry, ci int) bool {
	tag := tagOfLeaf(te, ci)
	for _, x := range []string{"dict", "delta", "split", "plain"} {
		if strings.Contains(tag, ","+x) {
			return true
		}
	}
	return false
}

func sortRowsByID(rows []parquet.Row) {
	// id is the first leaf of every catalogue type used here, except c10row where it is second
	idOf := func(r parquet.Row) int64 {
		for _, v := range r {
			if v.Kind() == parquet.Int64 && !v.IsNull() && v.RepetitionLevel() == 0 && v.DefinitionLevel() == 0 {
				return v.Int64()
			}
		}
		return 0
	}
	for i := 1; i < len(rows); i++ {
		for j := i; j > 0 && idOf(rows[j-1]) > idOf(rows[j]); j-- {
			rows[j-1], rows[j] = rows[j], rows[j-1]
		}
	}
}
