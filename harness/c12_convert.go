package main

import (
	"bytes"
	"errors"
	"fmt"
	"io"
	os2 "os"
	"reflect"
	"strings"

	"github.com/parquet-go/parquet-go"

	"verif/gen"
)

// C12: reading through a different but compatible schema only adds or drops columns.

func init() {
	register(&PropDef{
		ID:    "C12",
		Level: "exploration",
		Cases: func(t string) int {
			if t == "thorough" {
				return 18000
			}
			return 2100
		},
		Batch: func(t string) int { return 30 },
		Floors: []string{"via_typed_read", "via_typed_generic_reader", "projections_checked", "via_reader_with_schema", "via_convert_rowgroup_rows", "via_convert_row_reader", "via_copy_rows", "via_merge_with_schema", "via_convert_rowgroup_chunks", "via_sorted_merge_with_schema", "edit_delete", "edit_permute", "edit_add_optional",
			"edit_add_required", "edit_inside_list", "edit_inside_group", "edit_inside_map_value", "incompatible_probed"},
		Rule: "case = (source catalogue type with nested groups, lists of groups and maps; target struct type derived at run time (reflect.StructOf) by <= 4 edits at any depth: delete a field, permute fields, add an optional (pointer) field, add a required field, incl. inside list elements, nested groups and map values; " +
			"rows with null patterns at every ancestor). The rows are read through NewReader(file, targetSchema), ConvertRowGroup (rows and column chunks), ConvertRowReader, CopyRows and MergeRowGroups(schema). Oracle: a reflection-based projection of the source value - common fields identical, added fields nil/zero, " +
			"row count and order unchanged. Incompatible targets (leaf <-> group, scalar <-> repeated) must yield an error. Distinct = descriptor hash",
		Assumptions: []string{"target types keep the Go type of every common leaf (type-changing conversions are outside the statement)", "field matching is by column name, as documented for Convert"},
		Run:         runC12,
	})
}

type c12edits struct {
	r      *gen.Rand
	budget int
	log    []string
	obs    map[string]bool
	depth  int // number of list / map-value ancestors of the struct being derived
	adds   []c12add
}

// c12add describes where a column was added: inside how many repeated ancestors, and whether the
// group it was added to keeps a scalar leaf of its own (a sibling at the same repetition level).
type c12add struct {
	where    string
	depth    int
	sibling  bool
	optional bool
}

// derive builds the target type of t by applying edits; where describes the nesting context.
func (e *c12edits) derive(t reflect.Type, where string) reflect.Type {
	switch t.Kind() {
	case reflect.Ptr:
		return reflect.PointerTo(e.derive(t.Elem(), where))
	case reflect.Slice:
		if t.Elem().Kind() == reflect.Uint8 {
			return t
		}
		e.depth++
		defer func() { e.depth-- }()
		return reflect.SliceOf(e.derive(t.Elem(), "list"))
	case reflect.Map:
		e.depth++
		defer func() { e.depth-- }()
		return reflect.MapOf(t.Key(), e.derive(t.Elem(), "map_value"))
	case reflect.Struct:
		if t == timeType {
			return t
		}
	default:
		return t
	}
	var fields []reflect.StructField
	for i := 0; i < t.NumField(); i++ {
		f := t.Field(i)
		if !f.IsExported() {
			continue
		}
		if f.Anonymous {
			// flatten embedded structs into their fields (keeps column names)
			for j := 0; j < f.Type.NumField(); j++ {
				fields = append(fields, f.Type.Field(j))
			}
			continue
		}
		fields = append(fields, f)
	}
	out := make([]reflect.StructField, 0, len(fields)+2)
	for fi, f := range fields {
		name := strings.Split(f.Tag.Get("parquet"), ",")[0]
		// a group must keep at least one of its original fields
		if name != "id" && e.budget > 0 && e.r.P(18) && len(out)+(len(fields)-fi-1) >= 1 {
			e.budget--
			e.log = append(e.log, "delete "+where+"."+name)
			e.obs["edit_delete"] = true
			e.obs["edit_inside_"+where] = true
			continue
		}
		nf := reflect.StructField{Name: f.Name, Tag: f.Tag}
		nf.Type = e.derive(f.Type, map[bool]string{true: "group", false: where}[f.Type.Kind() == reflect.Struct || (f.Type.Kind() == reflect.Ptr && f.Type.Elem().Kind() == reflect.Struct)])
		if f.Type.Kind() == reflect.Slice && f.Type.Elem().Kind() != reflect.Uint8 {
			e.depth++
			nf.Type = reflect.SliceOf(e.derive(f.Type.Elem(), "list"))
			e.depth--
		}
		if f.Type.Kind() == reflect.Map {
			e.depth++
			nf.Type = reflect.MapOf(f.Type.Key(), e.derive(f.Type.Elem(), "map_value"))
			e.depth--
		}
		out = append(out, nf)
	}
	if e.budget > 0 && e.r.P(30) {
		e.budget--
		k := len(e.log)
		sibling := false
		for _, kf := range out {
			kt := kf.Type
			if kt.Kind() == reflect.Ptr {
				kt = kt.Elem()
			}
			switch kt.Kind() {
			case reflect.Struct:
				if kt == timeType {
					sibling = true
				}
			case reflect.Map:
			case reflect.Slice:
				if kt.Elem().Kind() == reflect.Uint8 {
					sibling = true
				}
			default:
				sibling = true
			}
		}
		e.adds = append(e.adds, c12add{where: where, depth: e.depth, sibling: sibling})
		if e.r.Bool() {
			out = append(out, reflect.StructField{Name: fmt.Sprintf("AddedOpt%d", k), Type: reflect.TypeOf((*int64)(nil)), Tag: reflect.StructTag(fmt.Sprintf(`parquet:"added_opt_%d"`, k))})
			e.log = append(e.log, "add optional in "+where)
			e.adds[len(e.adds)-1].optional = true
			e.obs["edit_add_optional"] = true
		} else {
			typ := gen.Pick(e.r, []reflect.Type{reflect.TypeOf(int64(0)), reflect.TypeOf(""), reflect.TypeOf(float64(0)), reflect.TypeOf(false)})
			out = append(out, reflect.StructField{Name: fmt.Sprintf("AddedReq%d", k), Type: typ, Tag: reflect.StructTag(fmt.Sprintf(`parquet:"added_req_%d"`, k))})
			e.log = append(e.log, "add required "+typ.String()+" in "+where)
			e.obs["edit_add_required"] = true
		}
		e.obs["edit_inside_"+where] = true
	}
	if e.budget > 0 && e.r.P(25) && len(out) > 2 {
		e.budget--
		// permute, keeping a possible leading field in place is not required: any order is legal
		for i := len(out) - 1; i > 0; i-- {
			j := e.r.Intn(i + 1)
			out[i], out[j] = out[j], out[i]
		}
		e.log = append(e.log, "permute "+where)
		e.obs["edit_permute"] = true
		e.obs["edit_inside_"+where] = true
	}
	return reflect.StructOf(out)
}

func pqName(f reflect.StructField) string {
	n := strings.Split(f.Tag.Get("parquet"), ",")[0]
	if n == "" {
		n = f.Name
	}
	return n
}

// flatFields returns the exported fields of a struct type with anonymous structs flattened.
func flatFieldValues(v reflect.Value) map[string]reflect.Value {
	out := map[string]reflect.Value{}
	t := v.Type()
	for i := 0; i < t.NumField(); i++ {
		f := t.Field(i)
		if !f.IsExported() {
			continue
		}
		if f.Anonymous && f.Type.Kind() == reflect.Struct {
			for k, x := range flatFieldValues(v.Field(i)) {
				out[k] = x
			}
			continue
		}
		out[pqName(f)] = v.Field(i)
	}
	return out
}

// project computes what reading src through type dst must return.
func project(src reflect.Value, dst reflect.Type) reflect.Value {
	out := reflect.New(dst).Elem()
	switch dst.Kind() {
	case reflect.Ptr:
		if src.Kind() != reflect.Ptr || src.IsNil() {
			return out
		}
		p := reflect.New(dst.Elem())
		p.Elem().Set(project(src.Elem(), dst.Elem()))
		out.Set(p)
	case reflect.Slice:
		if dst.Elem().Kind() == reflect.Uint8 {
			out.Set(src)
			return out
		}
		if src.IsNil() {
			return out
		}
		s := reflect.MakeSlice(dst, src.Len(), src.Len())
		for i := 0; i < src.Len(); i++ {
			s.Index(i).Set(project(src.Index(i), dst.Elem()))
		}
		out.Set(s)
	case reflect.Map:
		if src.IsNil() {
			return out
		}
		m := reflect.MakeMapWithSize(dst, src.Len())
		it := src.MapRange()
		for it.Next() {
			m.SetMapIndex(it.Key(), project(it.Value(), dst.Elem()))
		}
		out.Set(m)
	case reflect.Struct:
		if dst == timeType {
			out.Set(src)
			return out
		}
		sf := flatFieldValues(src)
		for i := 0; i < dst.NumField(); i++ {
			if sv, ok := sf[pqName(dst.Field(i))]; ok {
				out.Field(i).Set(project(sv, dst.Field(i).Type))
			}
		}
	default:
		out.Set(src)
	}
	return out
}

func runC12(c *Ctx) {
	if c.Case%8 == 7 && (c.Case/8)%3 == 2 {
		c12Typed(c)
		return
	}
	r := c.R
	te := typeByName(gen.Pick(r, []string{"nested", "deep", "maps", "optgroups", "strings", "lists", "embedded2", "c10row", "flat", "ptr", "repdict", "mapofmaps"}))
	n := gen.Pick(r, []int{1, 20, 120})
	rows := genRows(r, te, n, genOpts{NoHuge: true, SmallLists: true})
	ed := &c12edits{r: r, budget: 1 + r.Intn(4), obs: map[string]bool{}}
	dstType := ed.derive(te.Type, "group")
	via := []string{"reader_with_schema", "convert_rowgroup_rows", "convert_row_reader", "copy_rows", "merge_with_schema", "convert_rowgroup_chunks", "sorted_merge_with_schema", "copy_rows_implicit"}[c.Case%8]
	if via == "sorted_merge_with_schema" {
		// two sorted files that overlap only partially, with long lone stretches and small
		// misaligned pages: the merge planner slices row-range views of converted row groups
		n = gen.Pick(r, []int{2400, 3600})
		rows = genRows(r, te, n, genOpts{NoHuge: true, SmallLists: true})
	}
	c.D("type", te.Name)
	c.D("rows", n)
	c.D("edits", strings.Join(ed.log, "; "))
	c.D("via", via)
	keys := map[string]any{"via": via, "type": te.Name}
	for _, l := range ed.log {
		if strings.HasPrefix(l, "add ") && (strings.HasSuffix(l, " in list") || strings.HasSuffix(l, " in map_value")) {
			keys["added_in_repeated"] = true
		}
	}
	// finer witness keys for the known findings on missing-column materialisation: the deepest
	// repeated nesting a column was added at, and whether some added column has no scalar sibling
	maxDepth, lone := 0, false
	for _, a := range ed.adds {
		if a.depth > maxDepth {
			maxDepth = a.depth
		}
		if a.depth > 0 && !a.sibling {
			lone = true
		}
	}
	if maxDepth > 0 {
		keys["added_rep_depth"] = maxDepth
		keys["added_without_sibling"] = lone
	}
	if len(ed.log) == 0 {
		c.Trivial()
	}
	for k := range ed.obs {
		c.Obs(k, 1)
	}
	var sortedParts [][]byte
	if via == "sorted_merge_with_schema" {
		// file A holds ids [0, 0.6n), file B ids [0.4n, n): rows carry ID == index
		sorting := parquet.SortingWriterConfig(parquet.SortingColumns(parquet.Ascending("id")))
		for _, span := range [][2]int{{0, n * 6 / 10}, {n * 4 / 10, n}} {
			part := rows.Slice(span[0], span[1])
			var ops []wop
			for lo := 0; lo < part.Len(); lo += 7 {
				ops = append(ops, wop{Lo: lo, Hi: min(part.Len(), lo+7)})
			}
			b, err := writeTyped(te, part, ops, []parquet.WriterOption{sorting, parquet.PageBufferSize(512)})
			if err != nil {
				c.Fail("harness.write", nil, "%v", err)
				return
			}
			sortedParts = append(sortedParts, b)
		}
	}
	data, err := writeTyped(te, rows, genWriteHist(r, n), []parquet.WriterOption{parquet.PageBufferSize(gen.Pick(r, []int{256, 65536})), parquet.MaxRowsPerRowGroup(int64(gen.Pick(r, []int{7, 1000})))})
	if err != nil {
		c.Fail("harness.write", nil, "%v", err)
		return
	}
	var dstSchema *parquet.Schema
	if c.guard("c12.panic", map[string]any{"phase": "schema"}, func() { dstSchema = parquet.SchemaOf(reflect.New(dstType).Interface()) }) {
		return
	}
	got := reflect.MakeSlice(reflect.SliceOf(dstType), 0, n)
	var rerr error
	if c.guard("c12.panic", keys, func() {
		f, err := openBytes(data)
		if err != nil {
			rerr = err
			return
		}
		reconstruct := func(prows []parquet.Row) {
			for _, pr := range prows {
				p := reflect.New(dstType)
				if err := dstSchema.Reconstruct(p.Interface(), pr); err != nil {
					rerr = fmt.Errorf("Reconstruct: %w", err)
					return
				}
				got = reflect.Append(got, p.Elem())
			}
		}
		switch via {
		case "reader_with_schema":
			rd := parquet.NewReader(f, dstSchema)
			defer rd.Close()
			for {
				p := reflect.New(dstType)
				err := rd.Read(p.Interface())
				if err != nil {
					if !errors.Is(err, io.EOF) {
						rerr = err
					}
					return
				}
				got = reflect.Append(got, p.Elem())
			}
		case "convert_rowgroup_rows", "convert_rowgroup_chunks":
			conv, err := parquet.Convert(dstSchema, f.Schema())
			if err != nil {
				rerr = err
				return
			}
			for _, rg := range f.RowGroups() {
				crg := parquet.ConvertRowGroup(rg, conv)
				var prows []parquet.Row
				if via == "convert_rowgroup_rows" {
					prows, err = rowGroupRows(crg, gen.Pick(r, []int{1, 64}))
				} else {
					// through the column chunks the converted row group publishes (ColumnChunks(), not Rows())
					// the first k rows with one reader, the rest with a second one after SeekToRow(k)
					k := r.Intn(int(crg.NumRows()) + 1)
					rr := parquet.NewRowGroupRowReader(crg)
					for len(prows) < k && err == nil {
						buf := make([]parquet.Row, min(64, k-len(prows)))
						var m int
						m, err = rr.ReadRows(buf)
						for _, row := range buf[:m] {
							prows = append(prows, row.Clone())
						}
						if m == 0 && err == nil {
							err = fmt.Errorf("ReadRows made no progress at row %d", len(prows))
						}
					}
					rr.Close()
					if err == nil || (errors.Is(err, io.EOF) && len(prows) == k) {
						rr2 := parquet.NewRowGroupRowReader(crg)
						var tail []parquet.Row
						if err = rr2.SeekToRow(int64(k)); err == nil {
							tail, err = readRowsAll(rr2, 64)
						}
						rr2.Close()
						prows = append(prows, tail...)
					}
				}
				if err != nil {
					rerr = err
					return
				}
				reconstruct(prows)
			}
		case "copy_rows_implicit":
			// CopyRows is handed a reader and a writer that both know their schema and has to insert the conversion itself
			for _, rg := range f.RowGroups() {
				rr := rg.Rows()
				b := parquet.NewBuffer(dstSchema)
				_, err := parquet.CopyRows(b, rr)
				rr.Close()
				if err != nil {
					rerr = err
					return
				}
				prows, err := rowGroupRows(b, 64)
				if err != nil {
					rerr = err
					return
				}
				reconstruct(prows)
			}
		case "convert_row_reader", "copy_rows":
			conv, err := parquet.Convert(dstSchema, f.Schema())
			if err != nil {
				rerr = err
				return
			}
			for _, rg := range f.RowGroups() {
				rr := rg.Rows()
				cr := parquet.ConvertRowReader(rr, conv)
				var prows []parquet.Row
				if via == "convert_row_reader" {
					prows, err = readRowsAll(cr, gen.Pick(r, []int{1, 7, 64}))
				} else {
					b := parquet.NewBuffer(dstSchema)
					if _, err = parquet.CopyRows(b, cr); err == nil {
						prows, err = rowGroupRows(b, 64)
					}
				}
				rr.Close()
				if err != nil {
					rerr = err
					return
				}
				reconstruct(prows)
			}
		case "sorted_merge_with_schema":
			var rgs []parquet.RowGroup
			for _, b := range sortedParts {
				pf, err := openBytes(b)
				if err != nil {
					rerr = err
					return
				}
				rgs = append(rgs, pf.RowGroups()...)
			}
			if os2.Getenv("VERIF_NOREFINE") != "" {
				parquet.VerifDisableMergeRefinement(true)
			}
			m, err := parquet.MergeRowGroups(rgs, dstSchema, parquet.SortingRowGroupConfig(parquet.SortingColumns(parquet.Ascending("id"))))
			if err != nil {
				rerr = err
				return
			}
			prows, err := rowGroupRows(m, gen.Pick(r, []int{7, 64, 1000}))
			if err != nil {
				rerr = err
				return
			}
			// the overlap [0.4n, 0.6n) is present in both inputs: drop the second copy of each id
			p0 := reflect.New(dstType)
			var last int64 = -1
			for _, pr := range prows {
				if err := dstSchema.Reconstruct(p0.Interface(), pr); err != nil {
					rerr = fmt.Errorf("Reconstruct: %w", err)
					return
				}
				id := flatFieldValues(p0.Elem())["id"].Int()
				if id == last {
					continue
				}
				if id < last {
					rerr = fmt.Errorf("merge output not sorted by id: %d after %d", id, last)
					return
				}
				last = id
				cp := reflect.New(dstType)
				if err := dstSchema.Reconstruct(cp.Interface(), pr); err != nil {
					rerr = err
					return
				}
				got = reflect.Append(got, cp.Elem())
			}
		case "merge_with_schema":
			m, err := parquet.MergeRowGroups(f.RowGroups(), dstSchema)
			if err != nil {
				rerr = err
				return
			}
			prows, err := rowGroupRows(m, 64)
			if err != nil {
				rerr = err
				return
			}
			reconstruct(prows)
		}
	}) {
		return
	}
	if rerr != nil {
		c.Fail("c12.compatible_rejected", keys, "reading through a compatible target schema (edits: %s) failed: %v", strings.Join(ed.log, "; "), rerr)
		return
	}
	if got.Len() != n {
		c.Fail("c12.row_count", keys, "%d rows written, %d read through the target schema (edits: %s)", n, got.Len(), strings.Join(ed.log, "; "))
		return
	}
	for i := 0; i < n; i++ {
		want := project(rows.Index(i), dstType)
		if ok, diff := eqNorm(want, got.Index(i), ""); !ok {
			keys["added_column"] = ed.obs["edit_add_required"] || ed.obs["edit_add_optional"]
			// where the first difference is: at an added column itself, at the nullness of an
			// enclosing group or list, at a list's length, or at the value of an original column
			path := diff
			if i := strings.Index(diff, ": "); i >= 0 {
				path = diff[:i]
			}
			last := path
			if i := strings.LastIndex(path, "."); i >= 0 {
				last = path[i+1:]
			}
			switch {
			case strings.HasPrefix(last, "Added"):
				keys["diff_kind"] = "added_value"
			case strings.Contains(diff, ": nil "):
				keys["diff_kind"] = "group_nullness"
			case strings.Contains(diff, ": len "):
				keys["diff_kind"] = "list_length"
			default:
				keys["diff_kind"] = "value"
			}
			c.Fail("c12.projection_mismatch", keys, "row %d read through the target schema differs from the projection of the source row (edits: %s): %s", i, strings.Join(ed.log, "; "), diff)
			return
		}
	}
	c.Obs("projections_checked", n)
	c.Obs("via_"+via, 1)

	// an incompatible target must be rejected: a repeated source column declared as a scalar in
	// the target cannot hold rows with several elements
	if c.Case%4 == 0 {
		bad, col := c12RepeatedToScalar(te.Type)
		if bad != nil {
			multi := false
			for i := 0; i < n && !multi; i++ {
				if f := flatFieldValues(rows.Index(i))[col]; f.IsValid() && f.Kind() == reflect.Slice && f.Len() > 1 {
					multi = true
				}
			}
			if multi {
				var ierr error
				var rowsRead int
				c.guard("c12.panic", map[string]any{"phase": "incompatible"}, func() {
					bs := parquet.SchemaOf(reflect.New(bad).Interface())
					f, _ := openBytes(data)
					conv, err := parquet.Convert(bs, f.Schema())
					if err != nil {
						ierr = err
						return
					}
					for _, rg := range f.RowGroups() {
						prows, err := rowGroupRows(parquet.ConvertRowGroup(rg, conv), 64)
						rowsRead += len(prows)
						if err != nil {
							ierr = err
							return
						}
					}
				})
				if c.Failed() {
					return
				}
				c.Obs("incompatible_probed", 1)
				if ierr == nil {
					c.Fail("c12.incompatible_accepted", map[string]any{"kind": "repeated_to_scalar"}, "target declares column %q as a scalar while the source holds lists of several elements: accepted without error, %d rows produced (elements after the first are dropped)", col, rowsRead)
					return
				}
				c.Obs("incompatible_rejected", 1)
			}
		}
	}
	_ = bytes.NewReader
}

// c12RepeatedToScalar turns the first top-level []scalar field into a scalar field.
func c12RepeatedToScalar(t reflect.Type) (reflect.Type, string) {
	var fields []reflect.StructField
	col := ""
	for i := 0; i < t.NumField(); i++ {
		f := t.Field(i)
		if !f.IsExported() || f.Anonymous {
			return nil, ""
		}
		nf := reflect.StructField{Name: f.Name, Tag: f.Tag, Type: f.Type}
		if col == "" && f.Type.Kind() == reflect.Slice && !strings.Contains(string(f.Tag), "list") {
			switch f.Type.Elem().Kind() {
			case reflect.Int64, reflect.String, reflect.Float64, reflect.Int32, reflect.Bool:
				nf.Type = f.Type.Elem()
				nf.Tag = reflect.StructTag(fmt.Sprintf(`parquet:"%s"`, pqName(f)))
				col = pqName(f)
			}
		}
		fields = append(fields, nf)
	}
	if col == "" {
		return nil, ""
	}
	return reflect.StructOf(fields), col
}
