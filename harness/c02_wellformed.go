package main

import (
	"bytes"
	"fmt"
	"reflect"
	"sort"
	"strings"

	"github.com/parquet-go/parquet-go"

	"verif/gen"
	"verif/model"
	"verif/specreader"
)

// C02: every written file is well-formed Parquet that an independent decoder agrees on.

func init() {
	register(&PropDef{
		ID:    "C02",
		Level: "exploration",
		Cases: func(t string) int {
			if t == "thorough" {
				return 24000
			}
			return 2400
		},
		Batch: func(t string) int { return 40 },
		Floors: []string{"files_validated", "stream_checks", "mode_generic_writer", "mode_writer_any", "mode_write_rowgroup_buffer", "mode_write_rowgroup_file", "mode_sorting_writer", "mode_column_writers", "mode_reset_reuse", "mode_concurrent_rowgroups",
			"rule_page.crc", "rule_page.starts_on_row", "rule_offset_index.location", "rule_column_index.lengths", "rule_chunk.encoding_stats", "rule_chunk.total_uncompressed_size", "rule_size_stats.definition_histogram", "rule_chunk.bloom_filter", "rule_page.v2_num_rows", "rule_chunk.dictionary_page_offset"},
		Rule: "case = (production mode among 8 writer entry points incl. WriteRowGroup copy/re-encode, SortingWriter, ColumnWriters, Reset reuse, concurrent row groups; catalogue type; rows; option combination); " +
			"the bytes are checked by specreader.Validate (every structural invariant of DESIGN §4 C02) and its decoded (value,r,d) streams are compared with the Dremel model of the input. Distinct = descriptor hash; non-trivial = >= 1 row",
		Assumptions: []string{"specreader is written from the format specification and validated on the parquet-testing corpus under /repo/testdata (all files decode identically to the library)",
			"maps hold at most one entry (stream order otherwise depends on Go map iteration)"},
		Run: runC02,
	})
}

func entriesToLV(leaf *specreader.Leaf, es []specreader.Entry) []model.LV {
	out := make([]model.LV, len(es))
	for i, e := range es {
		lv := model.LV{Null: e.Null, R: e.R, D: e.D}
		if !e.Null {
			lv.Kind = int8(leaf.Type)
			lv.I = e.I
			if e.B != nil {
				lv.B = e.B
			} else if leaf.Type == specreader.TByteArr || leaf.Type == specreader.TFixed {
				lv.B = []byte{}
			}
		}
		out[i] = lv
	}
	return out
}

// normLV makes nil and empty byte slices equal.
func normStreams(s model.Streams) model.Streams {
	for c := range s {
		for i := range s[c] {
			if !s[c][i].Null && s[c][i].B == nil && (s[c][i].Kind == model.KByteArray || s[c][i].Kind == model.KFixed) {
				s[c][i].B = []byte{}
			}
		}
	}
	return s
}

// checkFileAgainstModel validates bytes with specreader and compares the streams.
func checkFileAgainstModel(c *Ctx, det string, keys map[string]any, data []byte, ex specreader.Expect, want model.Streams) *specreader.Result {
	res := specreader.Validate(data, ex)
	for rule, n := range res.Counts {
		c.Obs("rule_"+rule, n)
	}
	if res.File != nil {
		for name, n := range res.File.Len {
			c.Obs("leniency_"+name, n)
		}
	}
	for _, p := range res.Problems {
		k := map[string]any{"rule": p.Rule}
		for a, b := range keys {
			k[a] = b
		}
		c.Fail(det+"."+p.Rule, k, "%s", p.Msg)
	}
	if len(res.Problems) > 0 || res.File == nil {
		return res
	}
	c.Obs("files_validated", 1)
	if want != nil {
		got := make(model.Streams, len(res.Streams))
		for i := range res.Streams {
			got[i] = entriesToLV(&res.File.Leaves[i], res.Streams[i])
		}
		if d := model.DiffStreams(normStreams(want), normStreams(got)); d != "" {
			c.Fail(det+".streams", keys, "independent decoder reads different column streams than the Dremel model of the input: %s", d)
			return res
		}
		c.Obs("stream_checks", 1)
	}
	return res
}

func codecNum(name string) int {
	switch name {
	case "UNCOMPRESSED":
		return specreader.CodecUncompressed
	case "SNAPPY":
		return specreader.CodecSnappy
	case "GZIP":
		return specreader.CodecGzip
	case "BROTLI":
		return specreader.CodecBrotli
	case "ZSTD":
		return specreader.CodecZstd
	case "LZ4_RAW":
		return specreader.CodecLZ4Raw
	}
	return -1
}

func runC02(c *Ctx) {
	r := c.R
	te := pickType(r, c)
	n := rowCount(r, c.Thorough())
	if n == 0 {
		n = 1
	}
	rows := genRows(r, te, n, genOpts{NoHuge: true, SingleEntryMaps: true})
	schema := te.ops.Schema()
	mode := (c.Case / len(catalogue)) % 8
	os := genOptions(r, optLimits{Leaves: leafPaths(schema)})
	defer os.Close()
	modes := productionModes
	c.D("type", te.Name)
	c.D("rows", n)
	c.D("mode", modes[mode])
	c.D("opts", strings.Join(os.Desc, " "))
	want, err := model.Shred(schema, rows)
	if err != nil {
		c.Fail("harness.model", nil, "%v", err)
		return
	}
	keys := map[string]any{"mode": modes[mode], "type": te.Name}
	data, ex, err, panicked := produceFile(c, "c02.panic", keys, te, rows, want, mode, os)
	if panicked || (data == nil && err == nil) {
		return
	}
	if err != nil {
		c.Fail("c02.write_error", keys, "%s: writing %d valid rows failed: %v", modes[mode], n, err)
		return
	}
	c.Obs("mode_"+modes[mode], 1)
	res := checkFileAgainstModel(c, "c02", keys, data, ex, want)
	if res.File != nil && len(res.Problems) == 0 {
		// the library's own view of the footer must agree with the independent one on counts
		f, err := openBytes(data)
		if err != nil {
			c.Fail("c02.library_open", keys, "the library cannot open its own file: %v", err)
			return
		}
		if int64(len(f.RowGroups())) != int64(len(res.File.RowGroups)) || f.NumRows() != res.File.NumRows {
			c.Fail("c02.footer_disagreement", keys, "library sees %d row groups / %d rows, independent decoder %d / %d", len(f.RowGroups()), f.NumRows(), len(res.File.RowGroups), res.File.NumRows)
		}
	}
	_ = reflect.TypeOf
	_ = sort.Ints
}

var productionModes = []string{"generic_writer", "writer_any", "write_rowgroup_buffer", "write_rowgroup_file", "sorting_writer", "column_writers", "reset_reuse", "concurrent_rowgroups"}

// SkipPageBounds columns of the source file of the last write_rowgroup_file production.
var lastSrcSkipBounds [][]string

// produceFile writes rows through one of the production modes.
func produceFile(c *Ctx, det string, keys map[string]any, te *typeEntry, rows reflect.Value, want model.Streams, mode int, os *optSet) (data []byte, ex specreader.Expect, err error, panicked bool) {
	ex = specreader.Expect{Codec: -1, PageVersion: os.Version}
	r := c.R
	n := rows.Len()
	schema := te.ops.Schema()
	lastSrcSkipBounds = nil
	panicked = c.guard(det, keys, func() {
		switch mode {
		case 0:
			ops := genWriteHist(r, n)
			c.D("hist", histDesc(ops))
			ex.MaxRowsPerRowGroup = os.MaxRows
			data, err = writeTyped(te, rows, ops, os.Opts)
		case 1:
			ops := genWriteHist(r, n)
			ex.MaxRowsPerRowGroup = os.MaxRows
			data, err = writeReflect(te, rows, ops, os.Opts)
		case 2:
			b := te.ops.NewBuffer()
			if _, err = te.ops.BufferWrite(b, rows); err != nil {
				return
			}
			var buf bytes.Buffer
			w := te.ops.NewWriter(&buf, os.Opts...)
			if r.Bool() && n > 3 {
				// some rows first, so that the row group is appended to pending state
				pre := n / 3
				b.Reset()
				te.ops.BufferWrite(b, rows.Slice(pre, n))
				if _, err = te.ops.Write(w, rows.Slice(0, pre)); err != nil {
					return
				}
				c.D("pre_rows", pre)
			}
			if _, err = w.WriteRowGroup(b); err != nil {
				return
			}
			err = w.Close()
			data = buf.Bytes()
		case 3:
			// source file with its own options, destination with os.Opts
			src := genOptions(r, optLimits{Leaves: leafPaths(schema)})
			lastSrcSkipBounds = src.SkipBounds
			defer src.Close()
			sameCfg := r.P(40)
			if sameCfg {
				src = os
			}
			c.D("src_opts", strings.Join(src.Desc, " "))
			var sdata []byte
			if sdata, err = writeTyped(te, rows, genWriteHist(r, n), src.Opts); err != nil {
				err = fmt.Errorf("source file: %w", err)
				return
			}
			var sf *parquet.File
			if sf, err = openBytes(sdata); err != nil {
				return
			}
			var buf bytes.Buffer
			w := te.ops.NewWriter(&buf, os.Opts...)
			for _, rg := range sf.RowGroups() {
				if _, err = w.WriteRowGroup(rg); err != nil {
					return
				}
			}
			err = w.Close()
			data = buf.Bytes()
		case 4:
			var buf bytes.Buffer
			opts := append([]parquet.WriterOption{parquet.SortingWriterConfig(parquet.SortingColumns(parquet.Ascending("id")))}, os.Opts...)
			w := te.ops.NewSortingWriter(&buf, gen.Pick(r, []int64{1, 7, 100, 1000}), opts...)
			// rows are written in a PRNG order; ids make the sorted order the generation order
			perm := make([]int, n)
			for i := range perm {
				perm[i] = i
			}
			for i := n - 1; i > 0; i-- {
				j := r.Intn(i + 1)
				perm[i], perm[j] = perm[j], perm[i]
			}
			shuffled := te.ops.NewRows(n)
			for i, p := range perm {
				shuffled.Index(i).Set(rows.Index(p))
			}
			for lo := 0; lo < n; {
				hi := lo + 1 + r.Intn(50)
				if hi > n {
					hi = n
				}
				if _, err = te.ops.SortingWrite(w, shuffled.Slice(lo, hi)); err != nil {
					return
				}
				lo = hi
			}
			err = w.Close()
			data = buf.Bytes()
		case 5:
			var buf bytes.Buffer
			w := te.ops.NewWriter(&buf, os.Opts...)
			cols := buildValueRows(want)
			for ci, col := range cols {
				for lo := 0; lo < len(col); {
					hi := lo + 1 + r.Intn(100)
					if hi > len(col) {
						hi = len(col)
					}
					var flat []parquet.Value
					for _, rv := range col[lo:hi] {
						flat = append(flat, rv...)
					}
					if _, err = w.ColumnWriters()[ci].WriteRowValues(flat); err != nil {
						return
					}
					lo = hi
				}
			}
			err = w.Close()
			data = buf.Bytes()
		case 6:
			other := genRows(r, te, 1+r.Intn(200), genOpts{NoHuge: true, SingleEntryMaps: true})
			var b1, b2 bytes.Buffer
			w := te.ops.NewWriter(&b1, os.Opts...)
			if _, err = te.ops.Write(w, other); err != nil {
				return
			}
			if r.Bool() {
				if err = w.Close(); err != nil {
					return
				}
			}
			w.Reset(&b2)
			ex.MaxRowsPerRowGroup = os.MaxRows
			if _, err = te.ops.Write(w, rows); err != nil {
				return
			}
			err = w.Close()
			data = b2.Bytes()
		case 7:
			var buf bytes.Buffer
			w := te.ops.NewWriter(&buf, os.Opts...)
			k := 1 + r.Intn(4)
			// a concurrent row group accepts at most MaxRowsPerRowGroup rows
			if per := int64((n + k - 1) / k); per > os.MaxRows {
				k = int((int64(n) + os.MaxRows - 1) / os.MaxRows)
			}
			if k > 400 {
				c.Trivial()
				c.Obs("mode_concurrent_rowgroups_skipped", 1)
				return
			}
			var rgs []*parquet.ConcurrentRowGroupWriter
			var parts [][2]int
			for i := 0; i < k; i++ {
				lo, hi := i*n/k, (i+1)*n/k
				if lo == hi {
					continue
				}
				rgs = append(rgs, w.BeginRowGroup())
				parts = append(parts, [2]int{lo, hi})
			}
			for i, rg := range rgs {
				prows := make([]parquet.Row, 0)
				for j := parts[i][0]; j < parts[i][1]; j++ {
					prows = append(prows, schema.Deconstruct(nil, rows.Index(j).Interface()))
				}
				if _, err = rg.WriteRows(prows); err != nil {
					return
				}
			}
			for _, rg := range rgs {
				if _, err = rg.Commit(); err != nil {
					return
				}
			}
			err = w.Close()
			data = buf.Bytes()
		}
	})
	return
}
