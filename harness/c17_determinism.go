package main

import (
	"bytes"
	"errors"
	"fmt"
	"io"
	"os"
	os2 "os"
	"reflect"
	"sort"
	"strings"

	"github.com/parquet-go/parquet-go"

	"verif/gen"
)

// C17: output bytes are a function of input and options only.

func init() {
	register(&PropDef{
		ID:    "C17",
		Level: "exploration",
		Cases: func(t string) int {
			if t == "thorough" {
				return 6000
			}
			return 500
		},
		Batch:  func(t string) int { return 25 },
		Floors: []string{"hist_fresh_twice", "hist_reset_after_close", "hist_reset_after_abandon", "hist_reset_after_failed_sink", "hist_other_goroutine", "hist_buffer_reuse", "hist_sorting_writer_reuse", "sorting_writer_abandoned_chunk", "sorting_writer_dedupe", "xvariant_digests_joined", "stride_multiple_page_counts"},
		Rule: "case = (catalogue type without maps, rows, option combination); the same (rows, options) are written by a fresh writer twice, after unrelated writes, by a writer reused through Reset after a completed / abandoned / failed " +
			"previous file with different content, from another goroutine, through reused GenericBuffer/RowBuffer/SortingWriter (with and without duplicate dropping, also after a sorted chunk given up before Reset); all digests must be equal, and the fresh digest is joined across the std, purego and noavx builds. " +
			"Distinct = descriptor hash; non-trivial = >= 1 row",
		Assumptions: []string{"Go map-typed columns and encryption are excluded as the statement says", "sha256 collisions are ignored"},
		Run:         runC17,
	})
}

type failAfter struct {
	n    int
	seen int
}

var errSink = errors.New("verif: injected sink failure")

func (f *failAfter) Write(p []byte) (int, error) {
	if f.seen+len(p) > f.n {
		k := f.n - f.seen
		if k < 0 {
			k = 0
		}
		f.seen += k
		return k, errSink
	}
	f.seen += len(p)
	return len(p), nil
}

func firstDiffOffset(a, b []byte) int {
	n := len(a)
	if len(b) < n {
		n = len(b)
	}
	for i := 0; i < n; i++ {
		if a[i] != b[i] {
			return i
		}
	}
	return n
}

func runC17(c *Ctx) {
	r := c.R
	// types without maps
	var te *typeEntry
	for k := 0; ; k++ {
		te = catalogue[(c.Case+int(c.Seed)+k)%len(catalogue)]
		if !typeHasMap(te.Type) {
			break
		}
	}
	n := gen.Pick(r, []int{1, 10, 100, 150, 300})
	rows := genRows(r, te, n, genOpts{NoHuge: true})
	other := genRows(r, te, gen.Pick(r, []int{1, 50, 333}), genOpts{NoHuge: true})
	schema := te.ops.Schema()
	os := genOptions(r, optLimits{Leaves: leafPaths(schema), NoFilePool: true})
	defer os.Close()
	ops := genWriteHist(r, n)
	if c.Case%10 == 7 {
		// one value per page and as many pages per chunk as the vector kernels over page bounds
		// step through in whole strides (7 and 15 pairs per 8- and 16-lane load: F46)
		n = gen.Pick(r, []int{56, 112, 168, 240, 280, 480})
		rows = genRows(r, te, n, genOpts{NoHuge: true})
		os.Opts = append(os.Opts, parquet.PageBufferSize(1), parquet.MaxRowsPerRowGroup(1<<40))
		os.Desc = append(os.Desc, "one-value-pages")
		ops = []wop{{Lo: 0, Hi: n}}
		c.Obs("stride_multiple_page_counts", 1)
	}
	c.D("type", te.Name)
	c.D("rows", n)
	c.D("other_rows", other.Len())
	c.D("opts", strings.Join(os.Desc, " "))
	c.D("hist", histDesc(ops))

	runHist := func(w gwriter, rows reflect.Value, ops []wop) error {
		for _, o := range ops {
			if o.Flush {
				if err := w.Flush(); err != nil {
					return err
				}
				continue
			}
			if _, err := te.ops.Write(w, rows.Slice(o.Lo, o.Hi)); err != nil {
				return err
			}
		}
		return w.Close()
	}
	fresh := func() ([]byte, error) {
		var buf bytes.Buffer
		w := te.ops.NewWriter(&buf, os.Opts...)
		err := runHist(w, rows, ops)
		return buf.Bytes(), err
	}
	var ref []byte
	var err error
	if c.guard("c17.panic", map[string]any{"hist": "fresh"}, func() { ref, err = fresh() }) {
		return
	}
	if err != nil {
		c.Fail("c17.write_error", map[string]any{"hist": "fresh"}, "fresh write failed: %v", err)
		return
	}
	c.Digest("fresh", ref)
	c17Dump(ref)
	if d := os2.Getenv("VERIF_DUMP_DIR"); d != "" {
		os2.WriteFile(d+"/fresh-"+c.Variant+".parquet", ref, 0o644)
	}
	cmp := func(hist string, got []byte, err error) {
		if err != nil {
			c.Fail("c17.write_error", map[string]any{"hist": hist}, "%s: %v", hist, err)
			return
		}
		if !bytes.Equal(ref, got) {
			off := firstDiffOffset(ref, got)
			if d := os2.Getenv("VERIF_DUMP_DIR"); d != "" {
				os2.WriteFile(d+"/ref.parquet", ref, 0o644)
				os2.WriteFile(d+"/"+hist+".parquet", got, 0o644)
			}
			c.Fail("c17.bytes_differ", map[string]any{"hist": hist}, "%s: output differs from a fresh writer's: len %d vs %d, first difference at offset %d (footer starts near %d)", hist, len(ref), len(got), off, len(ref)-8)
			return
		}
		c.Obs("hist_"+hist, 1)
	}
	otherOps := genWriteHist(r, other.Len())
	try := func(hist string, f func() ([]byte, error)) {
		var b []byte
		var err error
		if c.guard("c17.panic", map[string]any{"hist": hist}, func() { b, err = f() }) {
			return
		}
		cmp(hist, b, err)
	}

	try("fresh_twice", fresh)
	// after unrelated writes in the process
	try("after_unrelated", func() ([]byte, error) {
		for k := 0; k < 3; k++ {
			t2 := catalogue[r.Intn(len(catalogue))]
			rr := genRows(r, t2, 20, genOpts{NoHuge: true, SmallLists: true})
			var b bytes.Buffer
			w := t2.ops.NewWriter(&b, parquet.Compression(&parquet.Snappy))
			t2.ops.Write(w, rr)
			w.Close()
		}
		return fresh()
	})
	try("reset_after_close", func() ([]byte, error) {
		var b1, b2 bytes.Buffer
		w := te.ops.NewWriter(&b1, os.Opts...)
		if err := runHist(w, other, otherOps); err != nil {
			return nil, fmt.Errorf("first file: %w", err)
		}
		w.Reset(&b2)
		err := runHist(w, rows, ops)
		return b2.Bytes(), err
	})
	try("reset_after_abandon", func() ([]byte, error) {
		var b1, b2 bytes.Buffer
		w := te.ops.NewWriter(&b1, os.Opts...)
		if _, err := te.ops.Write(w, other); err != nil {
			return nil, err
		}
		if r.Bool() {
			w.Flush()
			if other.Len() > 1 {
				te.ops.Write(w, other.Slice(0, other.Len()/2))
			}
		}
		w.Reset(&b2) // never closed
		err := runHist(w, rows, ops)
		return b2.Bytes(), err
	})
	try("reset_after_failed_sink", func() ([]byte, error) {
		sink := &failAfter{n: r.Intn(len(ref) + 1)}
		var b2 bytes.Buffer
		w := te.ops.NewWriter(sink, os.Opts...)
		if err := runHist(w, other, otherOps); err == nil && sink.seen >= sink.n && sink.n < 4 {
			// a failing sink that never surfaced is C14's business
			c.Obs("failed_sink_unreported", 1)
		}
		w.Reset(&b2)
		err := runHist(w, rows, ops)
		return b2.Bytes(), err
	})
	try("other_goroutine", func() ([]byte, error) {
		type res struct {
			b   []byte
			err error
		}
		ch := make(chan res, 1)
		go func() {
			defer func() {
				if p := recover(); p != nil {
					ch <- res{nil, fmt.Errorf("panic: %v", p)}
				}
			}()
			b, err := fresh()
			ch <- res{b, err}
		}()
		x := <-ch
		return x.b, x.err
	})
	// buffers: fresh vs reused, written through WriteRowGroup
	bufFile := func(b parquet.RowGroup) ([]byte, error) {
		var out bytes.Buffer
		w := te.ops.NewWriter(&out, os.Opts...)
		if _, err := w.WriteRowGroup(b); err != nil {
			return nil, err
		}
		err := w.Close()
		return out.Bytes(), err
	}
	try("buffer_reuse", func() ([]byte, error) {
		b0 := te.ops.NewBuffer()
		if _, err := te.ops.BufferWrite(b0, rows); err != nil {
			return nil, err
		}
		want, err := bufFile(b0)
		if err != nil {
			return nil, err
		}
		b1 := te.ops.NewBuffer()
		te.ops.BufferWrite(b1, other)
		b1.Reset()
		if _, err := te.ops.BufferWrite(b1, rows); err != nil {
			return nil, err
		}
		got, err := bufFile(b1)
		if err != nil {
			return nil, err
		}
		rb := te.ops.NewRowBuffer()
		te.ops.RowBufferWrite(rb, other)
		rb.Reset()
		if _, err := te.ops.RowBufferWrite(rb, rows); err != nil {
			return nil, err
		}
		rb0 := te.ops.NewRowBuffer()
		te.ops.RowBufferWrite(rb0, rows)
		g1, err := bufFile(rb)
		if err != nil {
			return nil, err
		}
		g0, err := bufFile(rb0)
		if err != nil {
			return nil, err
		}
		if !bytes.Equal(g0, g1) {
			return nil, fmt.Errorf("RowBuffer reused through Reset produced different bytes (first difference at %d)", firstDiffOffset(g0, g1))
		}
		if !bytes.Equal(want, got) {
			return nil, fmt.Errorf("GenericBuffer reused through Reset produced different bytes (first difference at %d)", firstDiffOffset(want, got))
		}
		c.Digest("buffer", want)
		return ref, nil
	})
	try("sorting_writer_reuse", func() ([]byte, error) {
		// 1-2 sort keys among the non-repeated leaves, any direction and null placement (the key of F42 was not the first leaf)
		var keys []parquet.SortingColumn
		schema := te.ops.Schema()
		for _, p := range schema.Columns() {
			if lf, ok := schema.Lookup(p...); ok && lf.MaxRepetitionLevel == 0 && len(keys) < 2 && r.P(30) {
				k := parquet.Ascending(p...)
				if r.Bool() {
					k = parquet.Descending(p...)
				}
				if r.Bool() {
					k = parquet.NullsFirst(k)
				}
				keys = append(keys, k)
			}
		}
		if len(keys) == 0 {
			keys = append(keys, parquet.Ascending("id"))
		} else {
			c.Obs("sorting_writer_other_keys", 1)
		}
		sortCfg := []parquet.SortingOption{parquet.SortingColumns(keys...)}
		dedupe := r.Bool()
		if dedupe {
			sortCfg = append(sortCfg, parquet.DropDuplicatedRows(true))
			c.Obs("sorting_writer_dedupe", 1)
		}
		sortOpts := append([]parquet.WriterOption{parquet.SortingWriterConfig(sortCfg...)}, os.Opts...)
		run := gen.Pick(r, []int64{1, 7, 100})
		one := func(w gsortingwriter, rows reflect.Value) error {
			if _, err := te.ops.SortingWrite(w, rows); err != nil {
				return err
			}
			return w.Close()
		}
		var f0 bytes.Buffer
		w0 := te.ops.NewSortingWriter(&f0, run, sortOpts...)
		if err := one(w0, rows); err != nil {
			return nil, err
		}
		var f1, f2 bytes.Buffer
		w1 := te.ops.NewSortingWriter(&f1, run, sortOpts...)
		if err := one(w1, other); err != nil {
			return nil, err
		}
		w1.Reset(&f2)
		if err := one(w1, rows); err != nil {
			return nil, err
		}
		if !bytes.Equal(f0.Bytes(), f2.Bytes()) {
			return nil, fmt.Errorf("SortingWriter reused through Reset produced different bytes: len %d vs %d, first difference at %d", f0.Len(), f2.Len(), firstDiffOffset(f0.Bytes(), f2.Bytes()))
		}
		// a writer given up after a chunk was sorted (explicit Flush, no Close), whose largest row is the
		// smallest row of the file written next
		if f0rows, err := te.ops.ReadAll(bytes.NewReader(f0.Bytes()), int64(f0.Len())); err == nil && f0rows.Len() > 0 {
			var f3 bytes.Buffer
			w2 := te.ops.NewSortingWriter(io.Discard, run, sortOpts...)
			if _, err := te.ops.SortingWrite(w2, f0rows.Slice(0, 1)); err != nil {
				return nil, err
			}
			if r.Bool() {
				if err := w2.Flush(); err != nil {
					return nil, err
				}
			}
			w2.Reset(&f3)
			if err := one(w2, rows); err != nil {
				return nil, err
			}
			if !bytes.Equal(f0.Bytes(), f3.Bytes()) {
				return nil, fmt.Errorf("SortingWriter reused through Reset after an abandoned chunk (dedupe=%v) produced different bytes: len %d vs %d, first difference at %d", dedupe, f0.Len(), f3.Len(), firstDiffOffset(f0.Bytes(), f3.Bytes()))
			}
			c.Obs("sorting_writer_abandoned_chunk", 1)
		}
		c.Digest("sorting", f0.Bytes())
		return ref, nil
	})
	_ = io.EOF
	_ = sort.Ints
}

// c17Dump writes the fresh file to $VERIF_DUMP (debugging aid for cross-variant differences).
func c17Dump(b []byte) {
	if d := os.Getenv("VERIF_DUMP"); d != "" {
		os.WriteFile(d, b, 0o644)
	}
}
