package main

import (
	"bytes"
	"errors"
	"fmt"
	"io"
	"os"
	"reflect"
	"strings"

	"github.com/parquet-go/parquet-go"

	"verif/gen"
	"verif/specreader"
)

// C14: I/O failures and truncated files are always reported, never silently absorbed.

func init() {
	register(&PropDef{
		ID:    "C14",
		Level: "fault_enumeration",
		Cases: func(t string) int {
			if t == "thorough" {
				return 12000
			}
			return 900
		},
		Batch: func(t string) int { return 30 },
		Floors: []string{"sink_faults", "sink_exhaustive_files", "sink_mode_error", "sink_mode_short", "sink_mode_transient", "truncations", "truncation_exhaustive_files", "readat_faults", "readat_mode_error", "readat_mode_short_error", "readat_mode_early_eof", "readat_mode_persistent_short_eof", "copy_source_faults", "readat_faults_column_reads",
			"scenario_plain", "scenario_nobuf", "scenario_file_pages", "scenario_deferred_bloom", "scenario_sorting_writer", "scenario_concurrent_rowgroups", "scenario_copy_rowgroup", "scenario_chunk_pages", "scenario_auto_rowgroups", "scenario_row_wrappers", "scenario_encrypted"},
		Rule: "three fault families over 11 writer scenarios (default, WriteBufferSize 0/1, file- and chunk-backed page buffers, deferred bloom filters, SortingWriter, concurrent row groups, WriteRowGroup copy path, automatic row groups, RowWriter wrappers in front of the writer, encrypted files read with their keys): " +
			"(a) the sink fails at byte offset k (error / short write with error / one transient failure): EVERY offset for files <= 4 KiB, else every write-call boundary +-1 plus PRNG offsets; oracle: some Write/Flush/Close returns an error, no panic, and a nil Close means the sink holds exactly the clean bytes; " +
			"(b) every strict prefix (all lengths for files <= 4 KiB, else structural boundaries +-1 plus PRNG): OpenFile fails or the full read fails; (c) a fault at ReadAt call index i of open+full read (error / short read with error / early EOF): error or rows equal to the clean rows. " +
			"Distinct = (scenario, file, fault family); non-trivial = at least one fault injected",
		Assumptions: []string{"sinks and sources misbehave only within the io.Writer / io.ReaderAt contracts (n < len(p) always comes with a non-nil error)", "generated values never contain the magic PAR1/PARE", "syscall-level injection (strace) on real files is not part of the quick/thorough commands"},
		Run:         runC14,
	})
}

type c14Row struct {
	ID int64   `parquet:"id"`
	S  string  `parquet:"s"`
	O  *int64  `parquet:"o"`
	L  []int32 `parquet:"l"`
	D  string  `parquet:"d,dict"`
}

func init() { reg[c14Row]("c14row") }

var errInjected = errors.New("verif: injected I/O failure")

// faultSink accepts bytes until offset failAt.
type faultSink struct {
	buf    bytes.Buffer
	failAt int
	mode   int // 0 error (nothing accepted), 1 short write + error, 2 one transient failure
	fired  bool
	calls  []int // offset at the start of every Write call
	errs   int
}

func (s *faultSink) Write(p []byte) (int, error) {
	off := s.buf.Len()
	s.calls = append(s.calls, off)
	if s.failAt >= 0 && off+len(p) > s.failAt && (!s.fired || s.mode != 2) {
		s.fired = true
		s.errs++
		switch s.mode {
		case 1:
			k := s.failAt - off
			if k < 0 {
				k = 0
			}
			s.buf.Write(p[:k])
			if k > 0 {
				s.failAt = s.buf.Len() // later writes fail immediately
			}
			return k, errInjected
		default:
			return 0, errInjected
		}
	}
	return s.buf.Write(p)
}

var c14Scenarios = []string{"plain", "nobuf", "file_pages", "deferred_bloom", "sorting_writer", "concurrent_rowgroups", "copy_rowgroup", "chunk_pages", "auto_rowgroups", "row_wrappers", "encrypted"}

// the keys of scenario "encrypted"
var c14Key = []byte("0123456789abcdef")

type c14Keys struct{}

func (c14Keys) FooterKey([]byte) ([]byte, error)           { return c14Key, nil }
func (c14Keys) ColumnKey([]string, []byte) ([]byte, error) { return c14Key, nil }

// errC14ShortCount: a RowWriter accepted fewer rows than it was given and reported no error.
var errC14ShortCount = errors.New("short count without an error")

// c14Produce runs one writer scenario against a sink and returns the first error of any call.
func c14Produce(scenario string, te *typeEntry, rows reflect.Value, src *parquet.File, sink io.Writer, seed uint64) (err error) {
	n := rows.Len()
	base := []parquet.WriterOption{parquet.PageBufferSize(256)}
	rr := gen.New(seed)
	if scenario != "deferred_bloom" && rr.Bool() {
		base = append(base, parquet.BloomFilters(parquet.SplitBlockFilter(10, "id")))
	}
	var cleanup func()
	defer func() {
		if cleanup != nil {
			cleanup()
		}
	}()
	switch scenario {
	case "nobuf":
		base = append(base, parquet.WriteBufferSize(gen.Pick(rr, []int{0, 1})))
	case "file_pages":
		pool := parquet.NewFileBufferPool("", "verif-c14.*")
		base = append(base, parquet.ColumnPageBuffers(pool))
	case "chunk_pages":
		base = append(base, parquet.ColumnPageBuffers(parquet.NewChunkBufferPool(64)), parquet.WriteBufferSize(0))
	case "deferred_bloom":
		base = append(base, parquet.BloomFilters(parquet.SplitBlockFilter(10, "s"), parquet.SplitBlockFilter(10, "id")),
			parquet.DeferBloomFiltersWithBuffers(parquet.NewBufferPool()), parquet.WriteBufferSize(gen.Pick(rr, []int{0, 4096})))
	}
	switch scenario {
	case "sorting_writer":
		w := te.ops.NewSortingWriter(sink, 7, append(base, parquet.SortingWriterConfig(parquet.SortingColumns(parquet.Descending("id"))))...)
		if _, err := te.ops.SortingWrite(w, rows); err != nil {
			return err
		}
		return w.Close()
	case "concurrent_rowgroups":
		w := te.ops.NewWriter(sink, base...)
		schema := te.ops.Schema()
		half := n / 2
		rg1, rg2 := w.BeginRowGroup(), w.BeginRowGroup()
		for i := 0; i < n; i++ {
			rg := rg1
			if i >= half {
				rg = rg2
			}
			if _, err := rg.WriteRows([]parquet.Row{schema.Deconstruct(nil, rows.Index(i).Interface())}); err != nil {
				return err
			}
		}
		if half > 0 {
			if _, err := rg1.Commit(); err != nil {
				return err
			}
		}
		if n-half > 0 {
			if _, err := rg2.Commit(); err != nil {
				return err
			}
		}
		return w.Close()
	case "copy_rowgroup":
		w := te.ops.NewWriter(sink, base...)
		for _, rg := range src.RowGroups() {
			if _, err := w.WriteRowGroup(rg); err != nil {
				return err
			}
		}
		return w.Close()
	case "row_wrappers":
		// rows pass through the RowWriter wrappers in front of an unbuffered writer that flushes row groups
		// from inside WriteRows: an error of the sink has to travel back through every wrapper
		w := te.ops.NewWriter(sink, append(base, parquet.MaxRowsPerRowGroup(int64(gen.Pick(rr, []int{2, 7, 50}))), parquet.WriteBufferSize(0))...)
		schema := te.ops.Schema()
		var rw parquet.RowWriter = w
		switch rr.Intn(5) {
		case 0:
			rw = parquet.FilterRowWriter(rw, func(parquet.Row) bool { return true })
		case 1:
			rw = parquet.TransformRowWriter(rw, func(dst, src parquet.Row) (parquet.Row, error) { return append(dst, src...), nil })
		case 2:
			rw = parquet.DedupeRowWriter(rw, schema.Comparator(parquet.Ascending("id")))
		case 3:
			rw = parquet.MultiRowWriter(rw)
		default:
			rw = parquet.FilterRowWriter(parquet.TransformRowWriter(parquet.MultiRowWriter(rw), func(dst, src parquet.Row) (parquet.Row, error) { return append(dst, src...), nil }), func(parquet.Row) bool { return true })
		}
		step := gen.Pick(rr, []int{1, 5, 100})
		for lo := 0; lo < n; lo += step {
			var batch []parquet.Row
			for i := lo; i < min(n, lo+step); i++ {
				batch = append(batch, schema.Deconstruct(nil, rows.Index(i).Interface()))
			}
			if k, err := rw.WriteRows(batch); err != nil {
				return err
			} else if k != len(batch) {
				return fmt.Errorf("%w: WriteRows accepted %d of %d rows", errC14ShortCount, k, len(batch))
			}
		}
		return w.Close()
	case "encrypted":
		w := te.ops.NewWriter(sink, append(base, parquet.WithEncryption(&parquet.EncryptionConfig{FooterKey: c14Key, EncryptedFooter: rr.Bool()}), parquet.WriteBufferSize(gen.Pick(rr, []int{0, 4096})))...)
		for lo := 0; lo < n; lo += 30 {
			if _, err := te.ops.Write(w, rows.Slice(lo, min(n, lo+30))); err != nil {
				return err
			}
			if lo == 30 {
				if err := w.Flush(); err != nil {
					return err
				}
			}
		}
		return w.Close()
	case "auto_rowgroups":
		// single Write calls that cross several automatic row-group boundaries, unbuffered sink
		w := te.ops.NewWriter(sink, append(base, parquet.MaxRowsPerRowGroup(int64(gen.Pick(rr, []int{1, 3, 7}))), parquet.WriteBufferSize(0))...)
		step := gen.Pick(rr, []int{n, 20, 5})
		if step < 1 {
			step = 1
		}
		for lo := 0; lo < n; lo += step {
			if _, err := te.ops.Write(w, rows.Slice(lo, min(n, lo+step))); err != nil {
				return err
			}
		}
		return w.Close()
	default:
		w := te.ops.NewWriter(sink, base...)
		for lo := 0; lo < n; lo += 9 {
			if _, err := te.ops.Write(w, rows.Slice(lo, min(n, lo+9))); err != nil {
				return err
			}
			if lo == 18 {
				if err := w.Flush(); err != nil {
					return err
				}
			}
		}
		return w.Close()
	}
}

// countingReaderAt injects one fault at ReadAt call index failAt.
type faultReaderAt struct {
	data   []byte
	calls  int
	failAt int
	mode   int // 0 error, 1 short read + error, 2 early EOF (short, io.EOF), 3 (0, io.EOF), 4 every read from failAt on is (short, io.EOF)
}

func (f *faultReaderAt) ReadAt(p []byte, off int64) (int, error) {
	i := f.calls
	f.calls++
	if off >= int64(len(f.data)) {
		return 0, io.EOF
	}
	// what the source holds for this range; a faulty call delivers only part of it and the bytes
	// it did not deliver are NOT in p (they are overwritten, so that a caller ignoring n shows)
	avail := len(f.data) - int(off)
	if avail > len(p) {
		avail = len(p)
	}
	deliver := func(k int) int {
		copy(p[:k], f.data[off:])
		for j := k; j < len(p); j++ {
			p[j] = 0xDB
		}
		return k
	}
	if f.mode == 4 && f.failAt >= 0 && i >= f.failAt {
		// the source lost its tail: from this call on only the first half of every range arrives
		if avail > 1 {
			return deliver(avail / 2), io.EOF
		}
		return deliver(0), io.EOF
	}
	if i == f.failAt {
		switch f.mode {
		case 0:
			return deliver(0), errInjected
		case 1:
			return deliver(avail / 2), errInjected
		case 2:
			if avail > 1 {
				return deliver(avail / 2), io.EOF
			}
			return deliver(0), io.EOF
		default:
			return deliver(0), io.EOF
		}
	}
	n := copy(p, f.data[off:])
	var err error
	if n < len(p) {
		err = io.EOF
	}
	return n, err
}

// c14FileOpts is the file option profile of the case (set by runC14): nil reads through
// parquet.Read[T]; otherwise OpenFile with the options, then a typed reader.
var c14FileOpts []parquet.FileOption

// c14Encrypted: the file of the case is encrypted (scenario "encrypted"); it is opened with the keys.
var c14Encrypted bool

func c14ReadAll(te *typeEntry, r io.ReaderAt, size int64) (rows reflect.Value, err error) {
	defer func() {
		if p := recover(); p != nil {
			err = fmt.Errorf("PANIC: %v", p)
			panic(p)
		}
	}()
	c14BloomMisses = 0
	if c14FileOpts == nil && !c14Encrypted {
		return te.ops.ReadAll(r, size)
	}
	fopts := c14FileOpts
	if c14Encrypted {
		fopts = append(append([]parquet.FileOption{}, fopts...), parquet.WithDecryption(c14Keys{}))
	}
	f, err := parquet.OpenFile(r, size, fopts...)
	if err != nil {
		return reflect.Value{}, err
	}
	gr := te.ops.NewReader(f)
	defer gr.Close()
	out := te.ops.NewRows(0)
	batch := te.ops.NewRows(64)
	for {
		n, err := te.ops.Read(gr, batch)
		if os.Getenv("VERIF_DEBUG") != "" {
			fmt.Fprintf(os.Stderr, "c14ReadAll: Read -> %d, %v (NumRows %d)\n", n, err, gr.NumRows())
		}
		for i := 0; i < n; i++ {
			out = reflect.Append(out, deepCopy(batch.Index(i)))
		}
		if err != nil {
			if errors.Is(err, io.EOF) {
				break
			}
			return out, err
		}
		if n == 0 {
			return out, fmt.Errorf("Read made no progress")
		}
	}
	// the bloom filters are part of what a full read of the file touches: every id read from a row
	// group must be reported present by that row group's filter on the id column (column 0)
	c14BloomMisses = 0
	pos := 0
	for _, rg := range f.RowGroups() {
		n := int(rg.NumRows())
		if bf := rg.ColumnChunks()[0].BloomFilter(); bf != nil {
			for i := pos; i < pos+n && i < out.Len(); i++ {
				ok, err := bf.Check(parquet.Int64Value(out.Index(i).Field(0).Int()))
				if err != nil {
					return out, err
				}
				if !ok {
					c14BloomMisses++
				}
			}
		}
		pos += n
	}
	return out, nil
}

// c14ReadColumns reads the file column by column: for every column chunk the dictionary is loaded first through
// the documented FilePages.ReadDictionary, then every page is read. The values come back as strings.
func c14ReadColumns(r io.ReaderAt, size int64) (out []string, err error) {
	defer func() {
		if p := recover(); p != nil {
			err = fmt.Errorf("PANIC: %v", p)
			panic(p)
		}
	}()
	fopts := c14FileOpts
	if c14Encrypted {
		fopts = append(append([]parquet.FileOption{}, fopts...), parquet.WithDecryption(c14Keys{}))
	}
	f, err := parquet.OpenFile(r, size, fopts...)
	if err != nil {
		return nil, err
	}
	for _, rg := range f.RowGroups() {
		for _, chunk := range rg.ColumnChunks() {
			pages := chunk.Pages()
			if fp, ok := pages.(*parquet.FilePages); ok {
				if _, err := fp.ReadDictionary(); err != nil {
					pages.Close()
					return out, err
				}
			}
			for {
				p, err := pages.ReadPage()
				if err != nil {
					if errors.Is(err, io.EOF) {
						break
					}
					pages.Close()
					return out, err
				}
				vals := make([]parquet.Value, p.NumValues())
				n, err := p.Values().ReadValues(vals)
				if err != nil && !errors.Is(err, io.EOF) {
					parquet.Release(p)
					pages.Close()
					return out, err
				}
				for _, v := range vals[:n] {
					out = append(out, fmt.Sprintf("%d:%d:%d:%v", v.Column(), v.RepetitionLevel(), v.DefinitionLevel(), v))
				}
				parquet.Release(p)
			}
			pages.Close()
		}
	}
	return out, nil
}

// c14BloomMisses: ids that the last successful c14ReadAll read but whose bloom filter answered absent.
var c14BloomMisses int

func runC14(c *Ctx) {
	r := c.R
	te := typeByName("c14row")
	scenario := c14Scenarios[c.Case%len(c14Scenarios)]
	family := []string{"sink", "sink", "truncate", "readat"}[(c.Case/len(c14Scenarios))%4]
	small := c.Case%3 != 0
	n := gen.Pick(r, []int{40, 120, 400})
	if small {
		n = gen.Pick(r, []int{2, 5, 12})
	} else if scenario == "auto_rowgroups" || scenario == "row_wrappers" {
		n = gen.Pick(r, []int{20, 40, 60}) // one row group every 1..7 rows: the fault enumeration re-runs the whole production per write call
	}
	rows := genRows(r, te, n, genOpts{NoHuge: true, SmallLists: true})
	seed := r.U64()
	c14FileOpts = nil
	switch prof := (c.Case / 7) % 5; prof {
	case 4:
		c14FileOpts = []parquet.FileOption{parquet.ReadBufferSize(4096)} // OpenFile with defaults: filters are probed lazily through ReadAt
		c.D("file_options", "open_defaults")
		c.Obs("read_profile_open_defaults", 1)
	case 1:
		c14FileOpts = []parquet.FileOption{parquet.OptimisticRead(true)}
		c.D("file_options", "optimistic")
		c.Obs("read_profile_optimistic", 1)
	case 2:
		c14FileOpts = []parquet.FileOption{parquet.OptimisticRead(true), parquet.PrefetchBloomFilters(true), parquet.ReadBufferSize(64)}
		c.D("file_options", "optimistic+prefetch_bloom+rbuf64")
		c.Obs("read_profile_optimistic_prefetch", 1)
	case 3:
		c14FileOpts = []parquet.FileOption{parquet.SkipPageIndex(true), parquet.SkipBloomFilters(true), parquet.FileReadMode(parquet.ReadModeAsync)}
		c.D("file_options", "skipindex+skipbloom+async")
		c.Obs("read_profile_lazy_async", 1)
	default:
		c.Obs("read_profile_default", 1)
	}
	c14Encrypted = scenario == "encrypted"
	c.D("scenario", scenario)
	c.D("family", family)
	c.D("rows", n)
	keys := map[string]any{"scenario": scenario, "family": family}

	// the source file for the copy scenario
	var src *parquet.File
	if scenario == "copy_rowgroup" {
		sdata, err := writeTyped(te, rows, []wop{{Lo: 0, Hi: n}}, []parquet.WriterOption{parquet.PageBufferSize(256)})
		if err != nil {
			c.Fail("harness.write", nil, "%v", err)
			return
		}
		if src, err = openBytes(sdata); err != nil {
			c.Fail("harness.open", nil, "%v", err)
			return
		}
	}
	// copy scenario, source side: the faults hit the SOURCE file while WriteRowGroup copies its row groups
	// into a healthy sink. Either some call reports an error or the output holds exactly the source rows.
	if scenario == "copy_rowgroup" && family == "readat" {
		sdata, _ := writeTyped(te, rows, []wop{{Lo: 0, Hi: n}}, []parquet.WriterOption{parquet.PageBufferSize(256), parquet.MaxRowsPerRowGroup(int64(n/2 + 1))})
		copyThrough := func(ra io.ReaderAt) (out []byte, err error) {
			f, err := parquet.OpenFile(ra, int64(len(sdata)))
			if err != nil {
				return nil, err
			}
			var sink bytes.Buffer
			w := te.ops.NewWriter(&sink, parquet.PageBufferSize(256))
			for _, rg := range f.RowGroups() {
				if _, err := w.WriteRowGroup(rg); err != nil {
					return nil, err
				}
			}
			if err := w.Close(); err != nil {
				return nil, err
			}
			return sink.Bytes(), nil
		}
		cnt := &faultReaderAt{data: sdata, failAt: -1}
		if _, err := copyThrough(cnt); err != nil {
			c.Fail("harness.clean_copy", keys, "%v", err)
			return
		}
		calls := cnt.calls
		c.Obs("scenario_copy_rowgroup_source_faults", 1)
		for i := 0; i < calls && i < 80; i++ {
			for mode := 0; mode < 5; mode++ {
				mname := []string{"error", "short_error", "early_eof", "early_eof", "persistent_short_eof"}[mode]
				k2 := map[string]any{"scenario": "copy_rowgroup_source", "family": family, "mode": mname}
				var out []byte
				var err error
				if c.guard("c14.panic", k2, func() { out, err = copyThrough(&faultReaderAt{data: sdata, failAt: i, mode: mode}) }) {
					return
				}
				c.Obs("copy_source_faults", 1)
				if err != nil {
					continue
				}
				saved := c14FileOpts
				c14FileOpts = nil
				got, rerr := c14ReadAll(te, bytes.NewReader(out), int64(len(out)))
				c14FileOpts = saved
				if rerr != nil {
					c.Fail("c14.source_fault_absorbed", k2, "source ReadAt call #%d of %d returned %s, WriteRowGroup and Close reported no error, and the file written cannot be read: %v", i, calls, mname, rerr)
					return
				}
				if ok, diff := eqRows(rows, got); !ok {
					c.Fail("c14.source_fault_absorbed", k2, "source ReadAt call #%d of %d returned %s, WriteRowGroup and Close reported no error, and the file written holds other rows: %s", i, calls, mname, diff)
					return
				}
			}
		}
		return
	}
	// clean run
	clean := &faultSink{failAt: -1}
	if err := c14Produce(scenario, te, rows, src, clean, seed); err != nil {
		c.Fail("harness.clean_write", keys, "clean run failed: %v", err)
		return
	}
	data := append([]byte{}, clean.buf.Bytes()...)
	N := len(data)
	c.D("bytes", N)
	c.Obs("scenario_"+scenario, 1)

	switch family {
	case "sink":
		var offsets []int
		if N <= 4096 {
			for k := 0; k < N; k++ {
				offsets = append(offsets, k)
			}
			c.Obs("sink_exhaustive_files", 1)
		} else {
			seen := map[int]bool{}
			add := func(k int) {
				if k >= 0 && k < N && !seen[k] {
					seen[k] = true
					offsets = append(offsets, k)
				}
			}
			for _, b := range clean.calls {
				add(b - 1)
				add(b)
				add(b + 1)
			}
			add(N - 1)
			for i := 0; i < 64; i++ {
				add(r.Intn(N))
			}
		}
		c.D("offsets", len(offsets))
		for _, k := range offsets {
			mode := r.Intn(3)
			sink := &faultSink{failAt: k, mode: mode}
			var err error
			k2 := map[string]any{"scenario": scenario, "family": family, "mode": []string{"error", "short", "transient"}[mode]}
			if c.guard("c14.panic", k2, func() { err = c14Produce(scenario, te, rows, src, sink, seed) }) {
				c.Extra("fail_offset", k)
				return
			}
			c.Obs("sink_faults", 1)
			c.Obs("sink_mode_"+[]string{"error", "short", "transient"}[mode], 1)
			if sink.errs == 0 {
				// the scenario wrote fewer bytes than the clean run before reaching k: only legal if it reported an error
				// (the bytes of an encrypted file differ from run to run - nonces, file identifier -, its length does not)
				if err == nil && (sink.buf.Len() != len(data) || !c14Encrypted && !bytes.Equal(sink.buf.Bytes(), data)) {
					c.Fail("c14.sink_divergence", k2, "no failure was injected (offset %d never reached) yet the output differs from the clean run", k)
					return
				}
				continue
			}
			if errors.Is(err, errC14ShortCount) {
				c.Extra("fail_offset", k)
				c.Fail("c14.sink_error_swallowed", k2, "the sink failed at byte offset %d of %d (%s) and the call that hit it returned fewer rows than given with a nil error: %v", k, N, []string{"error", "short write", "one transient failure"}[mode], err)
				return
			}
			if err == nil {
				c.Extra("fail_offset", k)
				c.Fail("c14.sink_error_swallowed", k2, "the sink failed at byte offset %d of %d (%s) but Write/Flush/Close all returned nil; the sink holds %d bytes", k, N, []string{"error", "short write", "one transient failure"}[mode], sink.buf.Len())
				return
			}
		}
	case "truncate":
		var lens []int
		if N <= 4096 {
			for l := 0; l < N; l++ {
				lens = append(lens, l)
			}
			c.Obs("truncation_exhaustive_files", 1)
		} else {
			seen := map[int]bool{}
			add := func(l int) {
				if l >= 0 && l < N && !seen[l] {
					seen[l] = true
					lens = append(lens, l)
				}
			}
			// structural boundaries from the independent page walk
			if sf, err := specreader.Parse(data); err == nil {
				for gi := range sf.RowGroups {
					for ci := range sf.RowGroups[gi].Chunks {
						if ps, err := sf.WalkPages(&sf.RowGroups[gi].Chunks[ci]); err == nil {
							for _, p := range ps {
								for _, b := range []int{int(p.Offset), int(p.Offset) + p.HeaderLen, int(p.Offset) + p.HeaderLen + p.Compressed} {
									add(b - 1)
									add(b)
									add(b + 1)
								}
							}
						}
					}
				}
				add(sf.FooterPos - 1)
				add(sf.FooterPos)
				add(sf.FooterPos + 1)
			}
			for _, l := range []int{0, 1, 3, 4, 5, 8, 11, 12, N - 1, N - 4, N - 5, N - 8, N - 9} {
				add(l)
			}
			for i := 0; i < 64; i++ {
				add(r.Intn(N))
			}
		}
		c.D("lengths", len(lens))
		for _, l := range lens {
			var err error
			var got reflect.Value
			if c.guard("c14.panic", keys, func() { got, err = c14ReadAll(te, bytes.NewReader(data[:l]), int64(l)) }) {
				c.Extra("length", l)
				return
			}
			c.Obs("truncations", 1)
			if err == nil {
				c.Extra("length", l)
				c.Fail("c14.truncation_accepted", keys, "the first %d of %d bytes were opened and read without any error (%d rows returned)", l, N, got.Len())
				return
			}
		}
	case "readat":
		// clean read through a counting source
		cnt := &faultReaderAt{data: data, failAt: -1}
		want, err := c14ReadAll(te, cnt, int64(N))
		if err != nil {
			c.Fail("harness.clean_read", keys, "%v", err)
			return
		}
		calls := cnt.calls
		c.D("readat_calls", calls)
		idx := []int{}
		if calls <= 60 {
			for i := 0; i < calls; i++ {
				idx = append(idx, i)
			}
		} else {
			for i := 0; i < 60; i++ {
				idx = append(idx, r.Intn(calls))
			}
		}
		if c.Case%3 == 1 {
			// column-wise read with the dictionaries loaded up front
			cnt := &faultReaderAt{data: data, failAt: -1}
			wantCols, err := c14ReadColumns(cnt, int64(N))
			if err != nil {
				c.Fail("harness.clean_read", keys, "column-wise: %v", err)
				return
			}
			ccalls := cnt.calls
			for i := 0; i < ccalls && i < 80; i++ {
				for mode := 0; mode < 5; mode++ {
					src := &faultReaderAt{data: data, failAt: i, mode: mode}
					mname := []string{"error", "short_error", "early_eof", "early_eof", "persistent_short_eof"}[mode]
					k2 := map[string]any{"scenario": scenario, "family": family, "mode": mname, "reader": "columns_after_read_dictionary"}
					var gotCols []string
					var err error
					if c.guard("c14.panic", k2, func() { gotCols, err = c14ReadColumns(src, int64(N)) }) {
						c.Extra("readat_call", i)
						return
					}
					c.Obs("readat_faults_column_reads", 1)
					if err == nil && !reflect.DeepEqual(wantCols, gotCols) {
						c.Extra("readat_call", i)
						c.Fail("c14.source_fault_absorbed", k2, "ReadAt call #%d of %d returned %s and reading the columns (ReadDictionary, then every page) succeeded with %d values that differ from the %d clean ones", i, ccalls, mname, len(gotCols), len(wantCols))
						return
					}
				}
			}
		}
		for _, i := range idx {
			for mode := 0; mode < 5; mode++ {
				src := &faultReaderAt{data: data, failAt: i, mode: mode}
				var got reflect.Value
				var err error
				mname := []string{"error", "short_error", "early_eof", "early_eof", "persistent_short_eof"}[mode]
				k2 := map[string]any{"scenario": scenario, "family": family, "mode": mname}
				if c.guard("c14.panic", k2, func() { got, err = c14ReadAll(te, src, int64(N)) }) {
					c.Extra("readat_call", i)
					return
				}
				c.Obs("readat_faults", 1)
				c.Obs("readat_mode_"+mname, 1)
				if err != nil {
					continue
				}
				if ok, diff := eqRows(want, got); !ok {
					c.Extra("readat_call", i)
					c.Fail("c14.source_fault_absorbed", k2, "ReadAt call #%d of %d returned %s and the read succeeded with different rows: %s", i, calls, mname, diff)
					return
				}
				if c14BloomMisses > 0 {
					c.Extra("readat_call", i)
					c.Fail("c14.source_fault_absorbed", k2, "ReadAt call #%d of %d returned %s, no error was raised and the bloom filter then answered absent for %d ids that are in its row group", i, calls, mname, c14BloomMisses)
					return
				}
			}
		}
	}
	_ = strings.Join
}
