package main

import (
	"errors"
	"fmt"
	"io"
	os2 "os"
	"reflect"
	"strings"

	"github.com/parquet-go/parquet-go"

	"verif/gen"
	"verif/model"
)

// C08: seeking to a row then reading equals skipping to that row sequentially.

func init() {
	register(&PropDef{
		ID:    "C08",
		Level: "exploration",
		Cases: func(t string) int {
			if t == "thorough" {
				return 40000
			}
			return 4000
		},
		Batch: func(t string) int { return 50 },
		Floors: []string{"histories", "ops_seek", "ops_read", "ops_reset", "target_Reader", "target_GenericReader", "target_RowGroupRows", "target_ChunkPages", "target_FileColumnPages", "target_MultiRowGroupRows", "target_NestedMultiRowGroupRows", "target_MultiRowGroupPages",
			"target_BufferRows", "target_RowRangeRows", "target_AsyncRows", "target_MergedSortedRows", "target_RowBufferChunkPages", "seek_into_last_returned_page", "seek_repeated_without_read", "seek_backward", "seek_to_end", "files_without_page_index", "files_v1", "files_v2"},
		Rule: "case = (file: catalogue type incl. nested/repeated columns, v1/v2, small pages, 1..n row groups, with/without page index, ReadBufferSize 16/4096, sync/async; target reader among Reader, GenericReader, RowGroup.Rows, ColumnChunk.Pages, file-level Column.Pages, " +
			"MultiRowGroup (flat and nested) rows and pages, buffers, row-range views, async rows; history of 5-60 ops SeekToRow(k)/Read(n) with k biased to page boundaries +-1, the last returned page, 0 and NumRows, repeated seeks without a read). " +
			"Online oracle: a position counter and the row array read sequentially from a fresh reader; every read must return exactly rows[pos:pos+n] (values and levels). Distinct = descriptor hash; non-trivial = >= 1 seek followed by a read",
		Assumptions: []string{"ground truth rows come from one sequential pass of a fresh reader of the same object (C01 ties them to the input)", "seeking beyond NumRows is not issued (outcome unspecified)"},
		Run:         runC08,
	})
}

type seekTarget interface {
	Name() string
	NumRows() int64
	SeekRow(k int64) error
	// Read returns up to n rows (flattened to model streams per row for comparison)
	Read(n int) ([]parquet.Row, error)
	Close()
}

// noSeek is a RowReader whose SeekToRow always fails (a wrapper that offers no seeking at all).
type noSeek struct{ parquet.RowReader }

func (noSeek) SeekToRow(int64) error { return errors.New("not a seeker") }

type rowsTarget struct {
	name string
	n    int64
	rr   interface {
		parquet.RowReader
		SeekToRow(int64) error
	}
	closer func()
}

func (t *rowsTarget) Name() string          { return t.name }
func (t *rowsTarget) NumRows() int64        { return t.n }
func (t *rowsTarget) SeekRow(k int64) error { return t.rr.SeekToRow(k) }
func (t *rowsTarget) Close() {
	if t.closer != nil {
		t.closer()
	}
}
func (t *rowsTarget) Read(n int) ([]parquet.Row, error) {
	buf := make([]parquet.Row, n)
	k, err := t.rr.ReadRows(buf)
	out := make([]parquet.Row, k)
	for i := range out {
		out[i] = buf[i].Clone()
	}
	return out, err
}

// pagesTarget reads one column through Pages; a "row" is the column's values of that row.
type pagesTarget struct {
	name  string
	n     int64
	pages parquet.Pages
	col   int
	cur   parquet.Page
	rest  []parquet.Row // rows of the current page not yet handed out

	pagesRead int
}

func (t *pagesTarget) Name() string   { return t.name }
func (t *pagesTarget) NumRows() int64 { return t.n }
func (t *pagesTarget) SeekRow(k int64) error {
	t.rest = nil
	return t.pages.SeekToRow(k)
}
func (t *pagesTarget) Close() { t.pages.Close() }
func (t *pagesTarget) Read(n int) ([]parquet.Row, error) {
	var out []parquet.Row
	for len(out) < n {
		if len(t.rest) == 0 {
			p, err := t.pages.ReadPage()
			if err != nil {
				return out, err
			}
			// every other page is read through a 4-value buffer: rows then end in the middle of a ReadValues call
			vals := make([]parquet.Value, p.NumValues())
			k := 0
			var rerr error
			t.pagesRead++
			if vr := p.Values(); t.pagesRead%2 == 0 || len(vals) <= 4 {
				k, rerr = vr.ReadValues(vals)
			} else {
				for k < len(vals) {
					var m int
					m, rerr = vr.ReadValues(vals[k:min(len(vals), k+4)])
					k += m
					if rerr != nil || m == 0 {
						break
					}
				}
			}
			if rerr != nil && !errors.Is(rerr, io.EOF) {
				parquet.Release(p)
				return out, rerr
			}
			var rows []parquet.Row
			for _, v := range vals[:k] {
				if v.RepetitionLevel() == 0 || len(rows) == 0 {
					rows = append(rows, nil)
				}
				rows[len(rows)-1] = append(rows[len(rows)-1], v.Clone())
			}
			if int64(len(rows)) != p.NumRows() {
				parquet.Release(p)
				return out, fmt.Errorf("page reports NumRows=%d but its values form %d rows", p.NumRows(), len(rows))
			}
			parquet.Release(p)
			t.rest = rows
			// a page is handed out whole: reading stops at a page end
			if len(out) > 0 {
				continue
			}
		}
		take := n - len(out)
		if take > len(t.rest) {
			take = len(t.rest)
		}
		out = append(out, t.rest[:take]...)
		t.rest = t.rest[take:]
	}
	return out, nil
}

func runC08(c *Ctx) {
	r := c.R
	te := pickType(r, c)
	n := gen.Pick(r, []int{20, 100, 300, 700})
	rows := genRows(r, te, n, genOpts{NoHuge: true, SmallLists: !c.Thorough()})
	version := 1 + r.Intn(2)
	opts := []parquet.WriterOption{parquet.DataPageVersion(version), parquet.PageBufferSize(gen.Pick(r, []int{64, 256, 1024, 8192}))}
	desc := []string{fmt.Sprintf("v%d", version)}
	if r.P(50) {
		opts = append(opts, parquet.MaxRowsPerRowGroup(int64(n/gen.Pick(r, []int{2, 3, 7})+1)))
		desc = append(desc, "multi-rg")
	}
	if r.P(30) {
		opts = append(opts, parquet.DefaultEncoding(&parquet.RLEDictionary))
		desc = append(desc, "dict")
	}
	if r.P(30) {
		opts = append(opts, parquet.Compression(&parquet.Snappy))
	}
	data, err := writeTyped(te, rows, genWriteHist(r, n), opts)
	if err != nil {
		c.Fail("harness.write", nil, "%v", err)
		return
	}
	if d := os2.Getenv("VERIF_DUMP_DIR"); d != "" {
		os2.WriteFile(d+"/c08.parquet", data, 0o644)
	}
	var fopts []parquet.FileOption
	if r.P(30) {
		fopts = append(fopts, parquet.SkipPageIndex(true))
		desc = append(desc, "noindex")
		c.Obs("files_without_page_index", 1)
	}
	if r.P(40) {
		fopts = append(fopts, parquet.ReadBufferSize(gen.Pick(r, []int{16, 4096})))
		desc = append(desc, "rbuf")
	}
	c.Obs(fmt.Sprintf("files_v%d", version), 1)
	f, err := openBytes(data, fopts...)
	if err != nil {
		c.Fail("harness.open", nil, "%v", err)
		return
	}
	schema := f.Schema()
	ncols := numLeaves(schema)
	rgs := f.RowGroups()

	// choose the target and build its ground truth from a fresh sequential pass
	kind := c.Case % 16
	forwardOnly := false
	var mk func() seekTarget
	col := r.Intn(ncols)
	rowsOf := func(rg parquet.RowGroup, name string) func() seekTarget {
		return func() seekTarget {
			rr := rg.Rows()
			return &rowsTarget{name: name, n: rg.NumRows(), rr: rr, closer: func() { rr.Close() }}
		}
	}
	pick := rgs[r.Intn(len(rgs))]
	switch kind {
	case 0:
		mk = func() seekTarget {
			rd := parquet.NewReader(f)
			return &rowsTarget{name: "Reader", n: f.NumRows(), rr: rd, closer: func() { rd.Close() }}
		}
	case 1:
		mk = func() seekTarget {
			gr := te.ops.NewReader(f)
			return &rowsTarget{name: "GenericReader", n: f.NumRows(), rr: gr, closer: func() { gr.Close() }}
		}
	case 2:
		mk = rowsOf(pick, "RowGroupRows")
	case 3:
		mk = func() seekTarget {
			return &pagesTarget{name: "ChunkPages", n: pick.NumRows(), pages: pick.ColumnChunks()[col].Pages(), col: col}
		}
	case 4:
		mk = func() seekTarget {
			cc := f.Root()
			for _, name := range schema.Columns()[col] {
				cc = cc.Column(name)
			}
			return &pagesTarget{name: "FileColumnPages", n: f.NumRows(), pages: cc.Pages(), col: col}
		}
	case 5:
		m := parquet.MultiRowGroup(rgs...)
		mk = rowsOf(m, "MultiRowGroupRows")
	case 6:
		// nested: MultiRowGroup(MultiRowGroup(first...), rest...)
		var m parquet.RowGroup
		if len(rgs) >= 3 {
			m = parquet.MultiRowGroup(parquet.MultiRowGroup(rgs[0], rgs[1]), parquet.MultiRowGroup(rgs[2:]...))
		} else {
			m = parquet.MultiRowGroup(parquet.MultiRowGroup(rgs...))
		}
		mk = rowsOf(m, "NestedMultiRowGroupRows")
	case 7:
		var m parquet.RowGroup
		if len(rgs) >= 2 {
			m = parquet.MultiRowGroup(parquet.MultiRowGroup(rgs[0], rgs[1]), parquet.MultiRowGroup(rgs[1:]...))
		} else {
			m = parquet.MultiRowGroup(rgs...)
		}
		mk = func() seekTarget {
			return &pagesTarget{name: "MultiRowGroupPages", n: m.NumRows(), pages: m.ColumnChunks()[col].Pages(), col: col}
		}
	case 8:
		b := te.ops.NewBuffer()
		if _, err := te.ops.BufferWrite(b, rows); err != nil {
			c.Fail("harness.buffer", nil, "%v", err)
			return
		}
		mk = rowsOf(b, "BufferRows")
	case 9:
		off := int64(r.Intn(int(pick.NumRows())))
		length := int64(r.Intn(int(pick.NumRows()-off) + 1))
		if length == 0 && pick.NumRows() > off {
			length = 1
		}
		view := parquet.VerifNewRowRangeRowGroup(pick, off, length)
		c.D("range", fmt.Sprintf("%d+%d", off, length))
		mk = rowsOf(view, "RowRangeRows")
	case 13:
		// a converted reader over a source that cannot seek: ConvertRowReader offers forward seeks by skipping rows
		to := parquet.NewSchema("target", parquet.Group{"verif_added": parquet.Optional(parquet.Int(64))})
		merged := parquet.Group{}
		for _, fld := range schema.Fields() {
			merged[fld.Name()] = fld
		}
		merged["verif_added"] = parquet.Optional(parquet.Int(64))
		to = parquet.NewSchema("target", merged)
		conv, err := parquet.Convert(to, schema)
		if err != nil {
			c.Fail("harness.convert", nil, "%v", err)
			return
		}
		forwardOnly = true
		mk = func() seekTarget {
			rr := pick.Rows()
			cr := parquet.ConvertRowReader(struct{ parquet.RowReader }{rr}, conv)
			sk, ok := cr.(interface {
				parquet.RowReader
				SeekToRow(int64) error
			})
			if !ok {
				return &rowsTarget{name: "ConvertedForwardOnlyRows", n: pick.NumRows(), rr: noSeek{cr}, closer: func() { rr.Close() }}
			}
			return &rowsTarget{name: "ConvertedForwardOnlyRows", n: pick.NumRows(), rr: sk, closer: func() { rr.Close() }}
		}
	case 15:
		// the column chunks of a RowBuffer
		rb := parquet.NewRowBuffer[any](te.ops.Schema())
		for i := 0; i < n; i++ {
			if _, err := rb.WriteRows([]parquet.Row{te.ops.Schema().Deconstruct(nil, rows.Index(i).Interface())}); err != nil {
				c.Fail("harness.buffer", nil, "%v", err)
				return
			}
		}
		mk = func() seekTarget {
			return &pagesTarget{name: "RowBufferChunkPages", n: rb.NumRows(), pages: rb.ColumnChunks()[col].Pages(), col: col}
		}
	case 14:
		// a sorted merge of overlapping inputs (rows dealt out to 2..3 buffers in turn): its reader offers forward seeks
		if _, ok := schema.Lookup("id"); !ok || n < 2 {
			mk = rowsOf(pick, "RowGroupRows")
			break
		}
		nb := 2 + r.Intn(2)
		bufs := make([]parquet.RowGroup, nb)
		for j := range bufs {
			b := parquet.NewBuffer(te.ops.Schema(), parquet.SortingRowGroupConfig(parquet.SortingColumns(parquet.Ascending("id"))))
			for i := j; i < n; i += nb {
				if _, err := b.WriteRows([]parquet.Row{te.ops.Schema().Deconstruct(nil, rows.Index(i).Interface())}); err != nil {
					c.Fail("harness.buffer", nil, "%v", err)
					return
				}
			}
			bufs[j] = b
		}
		merged, err := parquet.MergeRowGroups(bufs, parquet.SortingRowGroupConfig(parquet.SortingColumns(parquet.Ascending("id"))))
		if err != nil {
			c.Fail("harness.merge", nil, "%v", err)
			return
		}
		forwardOnly = true
		mk = rowsOf(merged, "MergedSortedRows")
	case 11:
		// the explicit asynchronous wrappers over a synchronously opened file
		arg := parquet.AsyncRowGroup(pick)
		mk = rowsOf(arg, "AsyncRowGroupRows")
	case 12:
		mk = func() seekTarget {
			pages := parquet.AsyncPages(pick.ColumnChunks()[col].Pages())
			if r.Bool() {
				pages = parquet.AsyncColumnChunk(pick.ColumnChunks()[col]).Pages()
			}
			return &pagesTarget{name: "AsyncPages", n: pick.NumRows(), pages: pages, col: col}
		}
	default:
		fa, err := openBytes(data, append(fopts, parquet.FileReadMode(parquet.ReadModeAsync))...)
		if err != nil {
			c.Fail("harness.open", nil, "%v", err)
			return
		}
		arg := fa.RowGroups()[r.Intn(len(fa.RowGroups()))]
		mk = rowsOf(arg, "AsyncRows")
	}

	// ground truth: one sequential pass
	gt := mk()
	var truth []parquet.Row
	if c.guard("c08.panic", map[string]any{"target": gt.Name(), "phase": "sequential"}, func() {
		for {
			rs, err := gt.Read(97)
			truth = append(truth, rs...)
			if err != nil {
				if !errors.Is(err, io.EOF) {
					c.Fail("c08.sequential_error", map[string]any{"target": gt.Name()}, "sequential read: %v", err)
				}
				return
			}
			if len(rs) == 0 {
				c.Fail("c08.sequential_error", map[string]any{"target": gt.Name()}, "sequential read made no progress")
				return
			}
		}
	}) || c.Failed() {
		return
	}
	gt.Close()
	N := int64(len(truth))
	tg := mk()
	defer tg.Close()
	c.D("type", te.Name)
	c.D("file", strings.Join(desc, " "))
	c.D("target", tg.Name())
	c.D("rows", N)
	if N != tg.NumRows() {
		c.Fail("c08.numrows", map[string]any{"target": tg.Name()}, "NumRows=%d but a sequential read yields %d rows", tg.NumRows(), N)
		return
	}
	if N == 0 {
		c.Trivial()
		return
	}
	c.Obs("target_"+tg.Name(), 1)
	c.Obs("histories", 1)

	// page boundaries of the chosen column for biasing (from the offset index when present)
	var bounds []int64
	if len(rgs) > 0 {
		var base int64
		for _, rg := range rgs {
			if oi, err := rg.ColumnChunks()[col].OffsetIndex(); err == nil && oi != nil {
				for i := 0; i < oi.NumPages(); i++ {
					bounds = append(bounds, base+oi.FirstRowIndex(i))
				}
			}
			base += rg.NumRows()
		}
	}
	steps := r.Range(5, 40)
	if c.Thorough() {
		steps = r.Range(5, 60)
	}
	var hist []string
	pos := int64(0)
	lastStart, lastLen := int64(-1), int64(0) // span returned by the last read
	lastWasSeek := false
	sawSeekThenRead := false
	keys := map[string]any{"target": tg.Name()}
	ok := !c.guard("c08.panic", keys, func() {
		for s := 0; s < steps; s++ {
			// readers that can be rewound: Reset puts them back at row 0 (a seek in disguise)
			if rs, ok := tg.(*rowsTarget); ok && r.P(6) {
				if rw, ok := rs.rr.(interface{ Reset() }); ok {
					rw.Reset()
					hist = append(hist, "reset")
					c.Obs("ops_reset", 1)
					pos = 0
					lastWasSeek = false
					continue
				}
			}
			if r.P(45) {
				var k int64
				switch r.Intn(8) {
				case 0:
					k = 0
				case 1:
					k = N
					c.Obs("seek_to_end", 1)
				case 2, 3:
					if len(bounds) > 0 {
						k = gen.Pick(r, bounds) + int64(r.Intn(3)) - 1
					} else {
						k = int64(r.Intn(int(N) + 1))
					}
				case 4:
					if lastStart >= 0 && lastLen > 0 {
						k = lastStart + int64(r.Intn(int(lastLen)))
						c.Obs("seek_into_last_returned_page", 1)
					} else {
						k = int64(r.Intn(int(N) + 1))
					}
				case 5:
					k = pos // re-seek to the current position
				default:
					k = int64(r.Intn(int(N) + 1))
				}
				if k < 0 {
					k = 0
				}
				if k > N {
					k = N
				}
				if forwardOnly && k < pos {
					k = pos + int64(r.Intn(int(N-pos)+1))
				}
				if k < pos {
					c.Obs("seek_backward", 1)
				}
				if lastWasSeek {
					c.Obs("seek_repeated_without_read", 1)
				}
				hist = append(hist, fmt.Sprintf("seek(%d)", k))
				c.Obs("ops_seek", 1)
				if err := tg.SeekRow(k); err != nil {
					c.Extra("history", hist)
					c.Fail("c08.seek_error", keys, "SeekToRow(%d) of %d rows failed: %v [history: %s]", k, N, err, strings.Join(hist, " "))
					return
				}
				pos = k
				lastWasSeek = true
				continue
			}
			want := gen.Pick(r, []int{1, 2, 3, 7, 64, 65, 200})
			hist = append(hist, fmt.Sprintf("read(%d)", want))
			c.Obs("ops_read", 1)
			got, err := tg.Read(want)
			if lastWasSeek {
				sawSeekThenRead = true
			}
			lastWasSeek = false
			if err != nil && !errors.Is(err, io.EOF) {
				c.Extra("history", hist)
				c.Fail("c08.read_error", keys, "read at row %d failed: %v [history: %s]", pos, err, strings.Join(hist, " "))
				return
			}
			for i, row := range got {
				idx := pos + int64(i)
				if idx >= N {
					c.Extra("history", hist)
					c.Fail("c08.rows_past_end", keys, "read returned a row beyond the end (position %d of %d) [history: %s]", idx, N, strings.Join(hist, " "))
					return
				}
				if !c08RowEqual(row, truth[idx]) {
					c.Extra("history", hist)
					keys["after_seek_without_read"] = strings.Contains(strings.Join(hist[max(0, len(hist)-3):], " "), "seek") && len(hist) >= 3 && strings.HasPrefix(hist[len(hist)-2], "seek") && strings.HasPrefix(hist[len(hist)-3], "seek")
					c.Fail("c08.wrong_rows", keys, "after %s: row at position %d differs from the sequential read (got the row that is at position %d) [history: %s]\n got  %s\n want %s", hist[len(hist)-1], idx, c08FindRow(row, truth), strings.Join(hist, " "), c08RowStr(row), c08RowStr(truth[idx]))
					return
				}
			}
			if len(got) == 0 && err == nil {
				c.Extra("history", hist)
				c.Fail("c08.no_progress", keys, "read returned 0 rows and a nil error at position %d of %d [history: %s]", pos, N, strings.Join(hist, " "))
				return
			}
			if errors.Is(err, io.EOF) && pos+int64(len(got)) != N {
				c.Extra("history", hist)
				c.Fail("c08.early_eof", keys, "EOF at position %d of %d [history: %s]", pos+int64(len(got)), N, strings.Join(hist, " "))
				return
			}
			if len(got) > 0 {
				lastStart, lastLen = pos, int64(len(got))
			}
			pos += int64(len(got))
		}
	})
	if ok && !c.Failed() && !sawSeekThenRead {
		c.Trivial()
	}
	c.D("steps", len(hist))
	c.D("hseed", r.U64()%1000000)
	if c.Case%200 == 0 {
		c.Extra("history", hist)
	}
	_ = reflect.TypeOf
}

func c08RowEqual(a, b parquet.Row) bool {
	if len(a) != len(b) {
		return false
	}
	for i := range a {
		if a[i].Column() != b[i].Column() || !model.FromValue(a[i]).Equal(model.FromValue(b[i])) {
			return false
		}
	}
	return true
}

func c08FindRow(row parquet.Row, truth []parquet.Row) int {
	for i, t := range truth {
		if c08RowEqual(row, t) {
			return i
		}
	}
	return -1
}

func c08RowStr(row parquet.Row) string {
	var b strings.Builder
	for _, v := range row {
		fmt.Fprintf(&b, "c%d:%s ", v.Column(), model.FromValue(v))
	}
	return b.String()
}
