package main

import (
	"bytes"
	"fmt"
	"io"
	"math"
	"os"
	"strings"

	"github.com/google/uuid"
	"github.com/parquet-go/parquet-go"
	"github.com/parquet-go/parquet-go/variant"

	"verif/gen"
	"verif/specreader"
)

// C19: variant values survive encoding, and shredding never changes them.

func init() {
	register(&PropDef{
		ID:    "C19",
		Level: "exploration",
		Cases: func(t string) int {
			if t == "thorough" {
				return 200000
			}
			return 6000
		},
		Batch: func(t string) int { return 75 },
		Floors: []string{"values_encoded", "independent_decodes", "library_decodes", "shredded_files", "shredded_values_checked", "schema_exact", "schema_partial_or_mismatch", "schema_list", "schema_object", "read_convert_to_unshredded", "read_shredded_typed",
			"read_raw_columns", "write_typed_buffer", "write_rows_deconstruct", "kind_object", "kind_array", "kind_decimal16", "kind_uuid", "kind_timestamp_ntz_nanos", "wide_objects_2byte_ids", "wide_array_in_wide_array", "strings_around_63", "marshal_roundtrips", "place_top", "place_repeated", "place_in_group", "place_in_optional_group", "long_files", "place_optional", "optional_group_null", "schema_list_under_repeated", "write_go_values", "write_encoded_bytes", "write_column_writer_value", "write_column_writer_events", "read_variant_reader", "builder_encodes", "typed_leaf_values_stored", "residual_values_stored"},
		Rule: "case = one of (a) a variant value tree over every primitive kind at boundary values (int widths at min/max, decimals 4/8/16 with scales, four timestamp flavours, strings of 0/63/64/65 bytes, binary, uuid), depth <= 4, objects with 0..40 fields incl. > 255 distinct keys, arrays of 0..300 elements: " +
			"Encode, then an independent decoder written from VariantEncoding.md and the library's Decode must both return an equal tree; Marshal/Unmarshal of the Go form; (b) a (shredding schema, 6 values) pair: schema from the same pools (exact, partial, mismatching, nested list/object); written through GenericWriter, GenericBuffer+WriteRowGroup and WriteRows(Deconstruct); " +
			"read back converted to unshredded (metadata,value), through the shredded schema, and by reassembling raw columns; every read must equal the written value under structural equality. Distinct = descriptor hash",
		Assumptions: []string{"structural equality: same primitive type, object field order irrelevant, short and long strings equal, floats bitwise", "specreader.VariantValue is written from the Variant encoding specification"},
		Run:         runC19,
	})
}

// ---- value generation (as specreader.VT trees, the independent representation)

var c19Names = []string{"a", "b", "c", "d", "resid", "é", "", "name with space", "z"}

func c19Leaf(r *gen.Rand) *specreader.VT {
	switch r.Intn(21) {
	case 0:
		return &specreader.VT{Kind: "null"}
	case 1:
		return &specreader.VT{Kind: "bool", I: int64(r.Intn(2))}
	case 2:
		return &specreader.VT{Kind: "int8", I: gen.Pick(r, []int64{0, -1, 1, math.MinInt8, math.MaxInt8, 42})}
	case 3:
		return &specreader.VT{Kind: "int16", I: gen.Pick(r, []int64{0, -1, math.MinInt16, math.MaxInt16, 300})}
	case 4:
		return &specreader.VT{Kind: "int32", I: gen.Pick(r, []int64{0, -1, math.MinInt32, math.MaxInt32, 70000})}
	case 5:
		return &specreader.VT{Kind: "int64", I: gen.Pick(r, []int64{0, -1, math.MinInt64, math.MaxInt64, 1 << 40})}
	case 6:
		f := r.F32(true)
		return &specreader.VT{Kind: "float", Bits: uint64(math.Float32bits(f))}
	case 7:
		f := r.F64(true)
		return &specreader.VT{Kind: "double", Bits: math.Float64bits(f)}
	case 8:
		n := gen.Pick(r, []int{0, 1, 5, 62, 63, 64, 65, 200})
		b := make([]byte, n)
		for i := range b {
			b[i] = byte('a' + r.Intn(26))
		}
		return &specreader.VT{Kind: "string", S: string(b)}
	case 9:
		return &specreader.VT{Kind: "binary", B: r.Bytes(gen.Pick(r, []int{0, 1, 16, 70}))}
	case 10:
		return &specreader.VT{Kind: "date", I: int64(int32(r.Int32()))}
	case 11:
		return &specreader.VT{Kind: "uuid", B: r.Bytes(16)}
	case 12:
		return &specreader.VT{Kind: "timestamp", I: r.Int64()}
	case 13:
		return &specreader.VT{Kind: "timestamp_ntz", I: r.Int64()}
	case 14:
		return &specreader.VT{Kind: "timestamp_nanos", I: r.Int64()}
	case 15:
		return &specreader.VT{Kind: "timestamp_ntz_nanos", I: r.Int64()}
	case 16:
		return &specreader.VT{Kind: "time", I: int64(r.Intn(86400_000_000))}
	case 17:
		return &specreader.VT{Kind: "decimal4", I: int64(r.Int32()), Scale: byte(gen.Pick(r, []int{0, 2, 3, 9}))}
	case 18:
		return &specreader.VT{Kind: "decimal8", I: r.Int64(), Scale: byte(gen.Pick(r, []int{0, 2, 3, 18}))}
	case 19:
		return &specreader.VT{Kind: "decimal16", B: r.Bytes(16), Scale: byte(gen.Pick(r, []int{0, 2, 3, 38}))}
	default:
		return &specreader.VT{Kind: "int32", I: int64(r.Intn(100))}
	}
}

func c19Value(r *gen.Rand, depth int, wide bool) *specreader.VT {
	if depth < 3 {
		switch r.Intn(6) {
		case 0:
			n := gen.Pick(r, []int{0, 1, 2, 3, 5})
			if depth == 0 && r.P(15) {
				n = gen.Pick(r, []int{20, 33})
			}
			if wide && depth == 0 {
				n = gen.Pick(r, []int{255, 256, 300, 3000})
			}
			v := &specreader.VT{Kind: "array", Elems: []*specreader.VT{}}
			for i := 0; i < n; i++ {
				switch {
				case n >= 20 && i == 0 && r.P(70):
					// a wide array nested in a wide array (the encoder's position arena is shared by all open arrays)
					in := &specreader.VT{Kind: "array", Elems: []*specreader.VT{}}
					k := gen.Pick(r, []int{20, 40, n})
					for j := 0; j < k; j++ {
						in.Elems = append(in.Elems, c19Leaf(r))
					}
					v.Elems = append(v.Elems, in)
				case n > 20:
					v.Elems = append(v.Elems, c19Leaf(r))
				default:
					v.Elems = append(v.Elems, c19Value(r, depth+1, false))
				}
			}
			return v
		case 1, 2:
			v := &specreader.VT{Kind: "object", Fields: map[string]*specreader.VT{}}
			if wide && depth == 0 {
				// more than 255 distinct keys: 2-byte field ids
				nf := gen.Pick(r, []int{40, 256, 300})
				for i := 0; i < nf; i++ {
					name := fmt.Sprintf("key%04d", i)
					v.Fields[name] = c19Leaf(r)
					v.Order = append(v.Order, name)
				}
				return v
			}
			for _, name := range c19Names {
				if r.P(35) {
					v.Fields[name] = c19Value(r, depth+1, false)
					v.Order = append(v.Order, name)
				}
			}
			return v
		}
	}
	return c19Leaf(r)
}

// toLib converts a tree into the library's Value through its public constructors.
func toLib(v *specreader.VT) variant.Value {
	switch v.Kind {
	case "null":
		return variant.Null()
	case "bool":
		return variant.Bool(v.I != 0)
	case "int8":
		return variant.Int8(int8(v.I))
	case "int16":
		return variant.Int16(int16(v.I))
	case "int32":
		return variant.Int32(int32(v.I))
	case "int64":
		return variant.Int64(v.I)
	case "float":
		return variant.Float(math.Float32frombits(uint32(v.Bits)))
	case "double":
		return variant.Double(math.Float64frombits(v.Bits))
	case "string":
		return variant.String(v.S)
	case "binary":
		return variant.Binary(v.B)
	case "date":
		return variant.Date(int32(v.I))
	case "uuid":
		var u uuid.UUID
		copy(u[:], v.B)
		return variant.UUID(u)
	case "timestamp":
		return variant.Timestamp(v.I)
	case "timestamp_ntz":
		return variant.TimestampNTZ(v.I)
	case "timestamp_nanos":
		return variant.TimestampNanos(v.I)
	case "timestamp_ntz_nanos":
		return variant.TimestampNTZNanos(v.I)
	case "time":
		return variant.Time(v.I)
	case "decimal4":
		return variant.Decimal4(int32(v.I), v.Scale)
	case "decimal8":
		return variant.Decimal8(v.I, v.Scale)
	case "decimal16":
		var d [16]byte
		copy(d[:], v.B)
		return variant.Decimal16(d, v.Scale)
	case "array":
		el := make([]variant.Value, len(v.Elems))
		for i, e := range v.Elems {
			el[i] = toLib(e)
		}
		return variant.MakeArray(el)
	case "object":
		var fs []variant.Field
		for _, name := range v.Order {
			fs = append(fs, variant.Field{Name: name, Value: toLib(v.Fields[name])})
		}
		return variant.MakeObject(fs)
	}
	panic("c19: kind " + v.Kind)
}

// fromLib converts a library Value into a tree through its public accessors.
func fromLib(v variant.Value) *specreader.VT {
	switch v.Basic() {
	case variant.BasicObject:
		o := &specreader.VT{Kind: "object", Fields: map[string]*specreader.VT{}}
		for _, f := range v.ObjectValue().Fields {
			o.Fields[f.Name] = fromLib(f.Value)
			o.Order = append(o.Order, f.Name)
		}
		return o
	case variant.BasicArray:
		a := &specreader.VT{Kind: "array", Elems: []*specreader.VT{}}
		for _, e := range v.ArrayValue().Elements {
			a.Elems = append(a.Elems, fromLib(e))
		}
		return a
	case variant.BasicShortString:
		return &specreader.VT{Kind: "string", S: v.Str()}
	}
	switch v.Type() {
	case variant.PrimitiveNull:
		return &specreader.VT{Kind: "null"}
	case variant.PrimitiveTrue:
		return &specreader.VT{Kind: "bool", I: 1}
	case variant.PrimitiveFalse:
		return &specreader.VT{Kind: "bool", I: 0}
	case variant.PrimitiveInt8:
		return &specreader.VT{Kind: "int8", I: v.Int()}
	case variant.PrimitiveInt16:
		return &specreader.VT{Kind: "int16", I: v.Int()}
	case variant.PrimitiveInt32:
		return &specreader.VT{Kind: "int32", I: v.Int()}
	case variant.PrimitiveInt64:
		return &specreader.VT{Kind: "int64", I: v.Int()}
	case variant.PrimitiveFloat:
		return &specreader.VT{Kind: "float", Bits: uint64(math.Float32bits(float32(v.FloatValue())))}
	case variant.PrimitiveDouble:
		return &specreader.VT{Kind: "double", Bits: math.Float64bits(v.FloatValue())}
	case variant.PrimitiveString:
		return &specreader.VT{Kind: "string", S: v.Str()}
	case variant.PrimitiveBinary:
		return &specreader.VT{Kind: "binary", B: append([]byte{}, v.Bytes()...)}
	case variant.PrimitiveDate:
		return &specreader.VT{Kind: "date", I: v.Int()}
	case variant.PrimitiveUUID:
		u := v.UUIDValue()
		return &specreader.VT{Kind: "uuid", B: append([]byte{}, u[:]...)}
	case variant.PrimitiveTimestamp:
		return &specreader.VT{Kind: "timestamp", I: v.Int()}
	case variant.PrimitiveTimestampNTZ:
		return &specreader.VT{Kind: "timestamp_ntz", I: v.Int()}
	case variant.PrimitiveTimestampNanos:
		return &specreader.VT{Kind: "timestamp_nanos", I: v.Int()}
	case variant.PrimitiveTimestampNTZNanos:
		return &specreader.VT{Kind: "timestamp_ntz_nanos", I: v.Int()}
	case variant.PrimitiveTime:
		return &specreader.VT{Kind: "time", I: v.Int()}
	case variant.PrimitiveDecimal4:
		return &specreader.VT{Kind: "decimal4", I: v.Int(), Scale: v.Scale()}
	case variant.PrimitiveDecimal8:
		return &specreader.VT{Kind: "decimal8", I: v.Int(), Scale: v.Scale()}
	case variant.PrimitiveDecimal16:
		d := v.Decimal16Value()
		return &specreader.VT{Kind: "decimal16", B: append([]byte{}, d[:]...), Scale: v.Scale()}
	}
	return &specreader.VT{Kind: fmt.Sprintf("unknown(%d)", v.Type())}
}

// ---- shredding schemas

type c19Desc struct {
	Kind   string // leaf kind as a VT kind, or "list", "obj"
	Scale  byte
	Elem   *c19Desc
	Fields map[string]*c19Desc
	Names  []string
}

func (d *c19Desc) String() string {
	switch d.Kind {
	case "list":
		return "list<" + d.Elem.String() + ">"
	case "obj":
		s := "obj{"
		for _, n := range d.Names {
			s += n + ":" + d.Fields[n].String() + " "
		}
		return s + "}"
	}
	return d.Kind
}

func c19ShredNode(r *gen.Rand, depth int) (parquet.Node, *c19Desc) {
	if depth < 2 {
		switch r.Intn(8) {
		case 0:
			n, d := c19ShredNode(r, depth+1)
			return parquet.List(n), &c19Desc{Kind: "list", Elem: d}
		case 1, 2:
			g := parquet.Group{}
			desc := &c19Desc{Kind: "obj", Fields: map[string]*c19Desc{}}
			for _, name := range []string{"a", "b", "c", "d"} {
				if r.Bool() {
					n, d := c19ShredNode(r, depth+1)
					g[name] = n
					desc.Fields[name] = d
					desc.Names = append(desc.Names, name)
				}
			}
			if len(g) == 0 {
				n, d := c19ShredNode(r, depth+1)
				g["a"] = n
				desc.Fields["a"] = d
				desc.Names = append(desc.Names, "a")
			}
			return g, desc
		}
	}
	switch r.Intn(17) {
	case 0:
		return parquet.Leaf(parquet.BooleanType), &c19Desc{Kind: "bool"}
	case 1:
		return parquet.Int(8), &c19Desc{Kind: "int8"}
	case 2:
		return parquet.Int(16), &c19Desc{Kind: "int16"}
	case 3:
		return parquet.Int(32), &c19Desc{Kind: "int32"}
	case 4:
		return parquet.Int(64), &c19Desc{Kind: "int64"}
	case 5:
		return parquet.Leaf(parquet.FloatType), &c19Desc{Kind: "float"}
	case 6:
		return parquet.Leaf(parquet.DoubleType), &c19Desc{Kind: "double"}
	case 7:
		return parquet.String(), &c19Desc{Kind: "string"}
	case 8:
		return parquet.Leaf(parquet.ByteArrayType), &c19Desc{Kind: "binary"}
	case 9:
		return parquet.Date(), &c19Desc{Kind: "date"}
	case 10:
		return parquet.UUID(), &c19Desc{Kind: "uuid"}
	case 11:
		if r.Bool() {
			return parquet.TimestampAdjusted(parquet.Microsecond, true), &c19Desc{Kind: "timestamp"}
		}
		return parquet.TimestampAdjusted(parquet.Microsecond, false), &c19Desc{Kind: "timestamp_ntz"}
	case 12:
		if r.Bool() {
			return parquet.TimestampAdjusted(parquet.Nanosecond, true), &c19Desc{Kind: "timestamp_nanos"}
		}
		return parquet.TimestampAdjusted(parquet.Nanosecond, false), &c19Desc{Kind: "timestamp_ntz_nanos"}
	case 13:
		return parquet.TimeAdjusted(parquet.Microsecond, false), &c19Desc{Kind: "time"}
	case 14:
		return parquet.Decimal(2, 9, parquet.Int32Type), &c19Desc{Kind: "decimal4", Scale: 2}
	case 15:
		return parquet.Decimal(2, 18, parquet.Int64Type), &c19Desc{Kind: "decimal8", Scale: 2}
	default:
		return parquet.Decimal(2, 38, parquet.FixedLenByteArrayType(16)), &c19Desc{Kind: "decimal16", Scale: 2}
	}
}

// c19Matching generates a value that the shredding schema can hold in typed
// columns, deviating from it at every level with a small probability
// (extra / missing / mistyped fields: partial shredding).
func c19Matching(r *gen.Rand, d *c19Desc, depth int) *specreader.VT {
	if r.P(12) {
		return c19Value(r, depth+1, false)
	}
	switch d.Kind {
	case "list":
		n := gen.Pick(r, []int{0, 1, 2, 4})
		v := &specreader.VT{Kind: "array", Elems: []*specreader.VT{}}
		for i := 0; i < n; i++ {
			v.Elems = append(v.Elems, c19Matching(r, d.Elem, depth+1))
		}
		return v
	case "obj":
		v := &specreader.VT{Kind: "object", Fields: map[string]*specreader.VT{}}
		for _, name := range d.Names {
			if r.P(80) {
				v.Fields[name] = c19Matching(r, d.Fields[name], depth+1)
				v.Order = append(v.Order, name)
			}
		}
		for _, name := range []string{"resid", "z", "b"} {
			if _, dup := v.Fields[name]; !dup && r.P(25) {
				v.Fields[name] = c19Value(r, depth+1, false)
				v.Order = append(v.Order, name)
			}
		}
		return v
	}
	for i := 0; i < 400; i++ {
		l := c19Leaf(r)
		if l.Kind == d.Kind {
			if d.Scale != 0 && r.P(80) {
				l.Scale = d.Scale
			}
			return l
		}
	}
	return c19Leaf(r)
}

type c19Raw struct {
	Metadata []byte `parquet:"metadata"`
	Value    []byte `parquet:"value"`
}

func c19Encode(v *specreader.VT) c19Raw {
	var b variant.MetadataBuilder
	value := variant.Encode(&b, toLib(v))
	_, metadata := b.Build()
	return c19Raw{Metadata: metadata, Value: value}
}

func c19Count(c *Ctx, v *specreader.VT) {
	c.Obs("kind_"+v.Kind, 1)
	if v.Kind == "string" && len(v.S) >= 62 && len(v.S) <= 65 {
		c.Obs("strings_around_63", 1)
	}
	if v.Kind == "object" && len(v.Fields) > 255 {
		c.Obs("wide_objects_2byte_ids", 1)
	}
	if v.Kind == "array" && len(v.Elems) >= 20 && v.Elems[0].Kind == "array" && len(v.Elems[0].Elems) >= 20 {
		c.Obs("wide_array_in_wide_array", 1)
	}
	for _, f := range v.Fields {
		c19Count(c, f)
	}
	for _, e := range v.Elems {
		c19Count(c, e)
	}
}

func runC19(c *Ctx) {
	r := c.R
	if c.Case%3 != 0 {
		c19Codec(c, r)
		return
	}
	c19Shredding(c, r)
}

// (a) encode / decode
func c19Codec(c *Ctx, r *gen.Rand) {
	wide := c.Case%10 == 1
	v := c19Value(r, 0, wide)
	c.D("part", "codec")
	c.D("kind", v.Kind)
	c.D("wide", wide)
	c.D("vseed", r.U64()%1000000)
	c19Count(c, v)
	c.guard("c19.panic", map[string]any{"part": "codec"}, func() {
		raw := c19Encode(v)
		c.Obs("values_encoded", 1)
		ind, err := specreader.DecodeVariant(raw.Metadata, raw.Value)
		if err != nil {
			c.Fail("c19.independent_decode", map[string]any{"kind": v.Kind}, "an independent decoder rejects Encode's output (%d+%d bytes): %v", len(raw.Metadata), len(raw.Value), err)
			return
		}
		if ok, d := specreader.VTEqual(v, ind); !ok {
			c.Fail("c19.independent_decode", map[string]any{"kind": v.Kind}, "an independent decoder reads a different value from Encode's output: %s", d)
			return
		}
		c.Obs("independent_decodes", 1)
		m, err := variant.DecodeMetadata(raw.Metadata)
		if err != nil {
			c.Fail("c19.library_decode", map[string]any{"kind": v.Kind}, "DecodeMetadata: %v", err)
			return
		}
		lv, err := variant.Decode(m, raw.Value)
		if err != nil {
			c.Fail("c19.library_decode", map[string]any{"kind": v.Kind}, "Decode(Encode(v)): %v", err)
			return
		}
		if ok, d := specreader.VTEqual(v, fromLib(lv)); !ok {
			c.Fail("c19.library_decode", map[string]any{"kind": v.Kind}, "Decode(Encode(v)) != v: %s", d)
			return
		}
		c.Obs("library_decodes", 1)
		// the streaming encoder (variant.Builder fed with events) must describe the same value
		var sb variant.Builder
		toLib(v).Write(&sb)
		bmd, bval, err := sb.Finish()
		if err != nil {
			c.Fail("c19.builder", map[string]any{"kind": v.Kind}, "variant.Builder rejects the events of a valid value: %v", err)
			return
		}
		bt, err := specreader.DecodeVariant(bmd, bval)
		if err != nil {
			c.Fail("c19.builder", map[string]any{"kind": v.Kind}, "an independent decoder rejects variant.Builder's output: %v", err)
			return
		}
		if ok, d := specreader.VTEqual(v, bt); !ok {
			c.Fail("c19.builder", map[string]any{"kind": v.Kind}, "variant.Builder's output decodes to a different value: %s", d)
			return
		}
		c.Obs("builder_encodes", 1)
		// Marshal / Unmarshal of the Go form
		goVal := toLib(v).GoValue()
		md, val, err := variant.Marshal(goVal)
		if err == nil {
			back, err := variant.Unmarshal(md, val)
			if err != nil {
				c.Fail("c19.marshal", map[string]any{"kind": v.Kind}, "Unmarshal(Marshal(g)): %v", err)
				return
			}
			v1, e1 := variant.ValueOf(goVal)
			v2, e2 := variant.ValueOf(back)
			if e1 == nil && e2 == nil {
				if ok, d := specreader.VTEqual(fromLib(v1), fromLib(v2)); !ok {
					c.Fail("c19.marshal", map[string]any{"kind": v.Kind}, "Unmarshal(Marshal(g)) differs from g: %s", d)
					return
				}
				c.Obs("marshal_roundtrips", 1)
			}
		}
	})
}

// (b) shredding

// placements of the variant column in the row
type c19TopRaw struct {
	ID  int32  `parquet:"id"`
	Var c19Raw `parquet:"var,variant"`
}
type c19TopAny struct {
	ID  int32 `parquet:"id"`
	Var any   `parquet:"var,variant"`
}
type c19RepRaw struct {
	ID   int32    `parquet:"id"`
	Vars []c19Raw `parquet:"vars,variant"`
}
type c19RepAny struct {
	ID   int32 `parquet:"id"`
	Vars []any `parquet:"vars,variant"`
}
type c19GrpRawG struct {
	X   int32  `parquet:"x"`
	Var c19Raw `parquet:"var,variant"`
}
type c19GrpRaw struct {
	ID int32      `parquet:"id"`
	G  c19GrpRawG `parquet:"g"`
}
type c19GrpAnyG struct {
	X   int32 `parquet:"x"`
	Var any   `parquet:"var,variant"`
}
type c19GrpAny struct {
	ID int32      `parquet:"id"`
	G  c19GrpAnyG `parquet:"g"`
}

type c19OGrpRaw struct {
	ID int32       `parquet:"id"`
	G  *c19GrpRawG `parquet:"g"`
}
type c19OGrpAny struct {
	ID int32       `parquet:"id"`
	G  *c19GrpAnyG `parquet:"g"`
}

type c19Place struct {
	name     string
	prefix   string // leaf path prefix of the variant group
	def, rep int    // levels at which the variant group itself is defined / repeated
	schema   func(node parquet.Node) *parquet.Schema
}

var c19Places = []c19Place{
	{"top", "var", 0, 0, func(n parquet.Node) *parquet.Schema {
		return parquet.NewSchema("table", parquet.Group{"id": parquet.Int(32), "var": n})
	}},
	{"repeated", "vars", 1, 1, func(n parquet.Node) *parquet.Schema {
		return parquet.NewSchema("table", parquet.Group{"id": parquet.Int(32), "vars": parquet.Repeated(n)})
	}},
	{"optional", "var", 1, 0, func(n parquet.Node) *parquet.Schema {
		return parquet.NewSchema("table", parquet.Group{"id": parquet.Int(32), "var": parquet.Optional(n)})
	}},
	{"in_optional_group", "g.var", 1, 0, func(n parquet.Node) *parquet.Schema {
		return parquet.NewSchema("table", parquet.Group{"id": parquet.Int(32), "g": parquet.Optional(parquet.Group{"x": parquet.Int(32), "var": n})})
	}},
	{"in_group", "g.var", 0, 0, func(n parquet.Node) *parquet.Schema {
		return parquet.NewSchema("table", parquet.Group{"id": parquet.Int(32), "g": parquet.Group{"x": parquet.Int(32), "var": n}})
	}},
}

// c19IO is what one placement needs: building rows of the `any` type, and
// pulling the variants out of rows of either type.
// c19WriterOpts are the extra writer options of the current case (page size, dictionary limit).
var c19WriterOpts []parquet.WriterOption

type c19IO[A, R any] struct {
	mk     func(id int, vals []any) A
	getAny func(A) []any
	getRaw func(R) []c19Raw
}

func c19Shredding(c *Ctx, r *gen.Rand) {
	shred, sd := c19ShredNode(r, 0)
	pl := c19Places[gen.Pick(r, []int{0, 0, 1, 1, 2, 2, 3, 4, 4})]
	// values per row
	var rowVals [][]*specreader.VT
	total := 0
	// every fifth shredding case is a long file of values that mostly match the schema, written with
	// small pages and a small dictionary limit: typed_value columns span many pages and fall back
	// from dictionary to PLAIN encoding in the middle of a chunk
	target := 6
	long := (c.Case/3)%5 == 4
	if long {
		target = gen.Pick(r, []int{300, 900})
		c.Obs("long_files", 1)
	}
	c19WriterOpts = nil
	if long || r.P(30) {
		c19WriterOpts = []parquet.WriterOption{parquet.PageBufferSize(gen.Pick(r, []int{64, 512})), parquet.DefaultEncoding(&parquet.RLEDictionary), parquet.DictionaryMaxBytes(gen.Pick(r, []int64{64, 256, 2048}))}
	}
	for total < target {
		n := 1
		if pl.rep > 0 {
			n = gen.Pick(r, []int{0, 1, 2, 3})
		}
		vs := []*specreader.VT{}
		for i := 0; i < n; i++ {
			var v *specreader.VT
			if long {
				v = c19Matching(r, sd, 1) // depth 1: small values
			} else {
				v = c19Value(r, 0, false)
				if r.P(60) {
					v = c19Matching(r, sd, 0)
				}
			}
			if pl.name == "optional" && r.P(30) {
				v = nil // the optional group itself is null (a Go nil in the `any` field)
				c.Obs("optional_group_null", 1)
			} else {
				c19Count(c, v)
			}
			vs = append(vs, v)
			total++
		}
		rowVals = append(rowVals, vs)
	}
	writePath := []string{"typed_writer", "typed_buffer", "rows_deconstruct", "column_writer_value", "column_writer_events"}[(c.Case/3)%5]
	if pl.rep > 0 && (writePath == "column_writer_value" || writePath == "column_writer_events") {
		writePath = "typed_writer" // the streaming column writer has no notion of several variants per row
	}
	goForm := (c.Case/9)%2 == 1 // hand the writer Go values (map[string]any, int32, time.Time ...) instead of encoded bytes
	if writePath == "column_writer_value" || writePath == "column_writer_events" {
		goForm = false
	}
	c.D("part", "shredding")
	c.D("schema", sd.String())
	c.D("place", pl.name)
	c.D("write", writePath)
	c.D("go_form", goForm)
	c.D("vseed", r.U64()%1000000)
	c.Obs("place_"+pl.name, 1)
	switch sd.Kind {
	case "list":
		c.Obs("schema_list", 1)
		if pl.rep > 0 {
			c.Obs("schema_list_under_repeated", 1)
		}
	case "obj":
		c.Obs("schema_object", 1)
	}
	switch pl.name {
	case "top":
		c19Run(c, pl, shred, sd, rowVals, writePath, goForm, c19IO[c19TopAny, c19TopRaw]{
			mk:     func(id int, v []any) c19TopAny { return c19TopAny{ID: int32(id), Var: v[0]} },
			getAny: func(a c19TopAny) []any { return []any{a.Var} },
			getRaw: func(a c19TopRaw) []c19Raw { return []c19Raw{a.Var} },
		})
	case "optional":
		c19Run(c, pl, shred, sd, rowVals, writePath, goForm, c19IO[c19TopAny, c19TopRaw]{
			mk:     func(id int, v []any) c19TopAny { return c19TopAny{ID: int32(id), Var: v[0]} },
			getAny: func(a c19TopAny) []any { return []any{a.Var} },
		})
	case "in_optional_group":
		c19Run(c, pl, shred, sd, rowVals, writePath, goForm, c19IO[c19OGrpAny, c19OGrpRaw]{
			mk: func(id int, v []any) c19OGrpAny {
				return c19OGrpAny{ID: int32(id), G: &c19GrpAnyG{X: int32(id), Var: v[0]}}
			},
			getAny: func(a c19OGrpAny) []any {
				if a.G == nil {
					return []any{nil}
				}
				return []any{a.G.Var}
			},
			getRaw: func(a c19OGrpRaw) []c19Raw {
				if a.G == nil {
					return []c19Raw{{}}
				}
				return []c19Raw{a.G.Var}
			},
		})
	case "repeated":
		c19Run(c, pl, shred, sd, rowVals, writePath, goForm, c19IO[c19RepAny, c19RepRaw]{
			mk:     func(id int, v []any) c19RepAny { return c19RepAny{ID: int32(id), Vars: v} },
			getAny: func(a c19RepAny) []any { return a.Vars },
		})
	default:
		c19Run(c, pl, shred, sd, rowVals, writePath, goForm, c19IO[c19GrpAny, c19GrpRaw]{
			mk: func(id int, v []any) c19GrpAny {
				return c19GrpAny{ID: int32(id), G: c19GrpAnyG{X: int32(id), Var: v[0]}}
			},
			getAny: func(a c19GrpAny) []any { return []any{a.G.Var} },
			getRaw: func(a c19GrpRaw) []c19Raw { return []c19Raw{a.G.Var} },
		})
	}
}

func c19Run[A, R any](c *Ctx, pl c19Place, shred parquet.Node, sd *c19Desc, rowVals [][]*specreader.VT, writePath string, goForm bool, io c19IO[A, R]) {
	sdesc := sd.String()
	keys := map[string]any{"part": "shredding", "write": writePath, "go_form": goForm, "place": pl.name}
	with := func(read string) map[string]any {
		return map[string]any{"read": read, "write": writePath, "go_form": goForm, "place": pl.name}
	}
	c.guard("c19.panic", keys, func() {
		node, err := parquet.ShreddedVariant(shred)
		if err != nil {
			c.Trivial()
			return
		}
		schema := pl.schema(node)
		rows := make([]A, len(rowVals))
		for i, vs := range rowVals {
			anys := make([]any, len(vs))
			for j, v := range vs {
				if v == nil {
					continue
				}
				anys[j] = c19Encode(v)
				if goForm {
					// the Go form is lossy by documentation: what is written is ValueOf(g)
					g := toLib(v).GoValue()
					lv, err := variant.ValueOf(g)
					if err != nil {
						c.Fail("c19.shred_write", keys, "ValueOf(GoValue(v)): %v", err)
						return
					}
					vs[j] = fromLib(lv)
					anys[j] = g
					if g == nil && pl.name == "optional" {
						vs[j] = nil // a Go nil handed to an optional variant column is the null group
					}
				}
			}
			rows[i] = io.mk(i, anys)
			if os.Getenv("VERIF_DEBUG") != "" {
				for j, v := range vs {
					if v != nil {
						fmt.Fprintf(os.Stderr, "row %d/%d: %#v\n", i, j, toLib(v).GoValue())
					}
				}
			}
		}
		if goForm {
			c.Obs("write_go_values", 1)
		} else {
			c.Obs("write_encoded_bytes", 1)
		}
		buf := new(bytes.Buffer)
		switch writePath {
		case "typed_writer":
			w := parquet.NewGenericWriter[A](buf, append([]parquet.WriterOption{schema}, c19WriterOpts...)...)
			if _, err := w.Write(rows); err != nil {
				c.Fail("c19.shred_write", keys, "Write: %v (schema %s)", err, sdesc)
				return
			}
			if err := w.Close(); err != nil {
				c.Fail("c19.shred_write", keys, "Close: %v (schema %s)", err, sdesc)
				return
			}
		case "typed_buffer":
			b := parquet.NewGenericBuffer[A](schema)
			if _, err := b.Write(rows); err != nil {
				c.Fail("c19.shred_write", keys, "GenericBuffer.Write: %v (schema %s)", err, sdesc)
				return
			}
			w := parquet.NewGenericWriter[A](buf, append([]parquet.WriterOption{schema}, c19WriterOpts...)...)
			if _, err := w.WriteRowGroup(b); err != nil {
				c.Fail("c19.shred_write", keys, "WriteRowGroup: %v", err)
				return
			}
			if err := w.Close(); err != nil {
				c.Fail("c19.shred_write", keys, "Close: %v", err)
				return
			}
			c.Obs("write_typed_buffer", 1)
		case "column_writer_value", "column_writer_events":
			w := parquet.NewGenericWriter[A](buf, append([]parquet.WriterOption{schema, parquet.PageBufferSize(gen.Pick(c.R, []int{64, 1024, 65536}))}, c19WriterOpts...)...)
			vw, err := parquet.NewVariantColumnWriter(w, strings.Split(pl.prefix, ".")...)
			if err != nil {
				c.Fail("c19.shred_write", keys, "NewVariantColumnWriter(%s): %v (schema %s)", pl.prefix, err, sdesc)
				return
			}
			cws := w.ColumnWriters()
			for i, vs := range rowVals {
				for _, path := range schema.Columns() {
					if path[0] == strings.Split(pl.prefix, ".")[0] && (len(path) > 1 && path[len(strings.Split(pl.prefix, "."))-1] == "var") {
						continue
					}
					lf, _ := schema.Lookup(path...)
					if _, err := cws[lf.ColumnIndex].WriteRowValues([]parquet.Value{parquet.Int32Value(int32(i)).Level(0, lf.MaxDefinitionLevel, lf.ColumnIndex)}); err != nil {
						c.Fail("c19.shred_write", keys, "ColumnWriter(%v).WriteRowValues: %v", path, err)
						return
					}
				}
				v := vs[0]
				switch {
				case v == nil:
					err = vw.WriteNullRow()
				case writePath == "column_writer_value":
					err = vw.WriteValue(toLib(v))
				default:
					if err = vw.BeginRow(); err == nil {
						toLib(v).Write(vw)
						err = vw.EndRow()
					}
				}
				if err != nil {
					c.Fail("c19.shred_write", keys, "VariantColumnWriter row %d: %v (schema %s)", i, err, sdesc)
					return
				}
			}
			if err := w.Close(); err != nil {
				c.Fail("c19.shred_write", keys, "Close: %v (schema %s)", err, sdesc)
				return
			}
			c.Obs("write_"+writePath, 1)
		default:
			w := parquet.NewWriter(buf, append([]parquet.WriterOption{schema}, c19WriterOpts...)...)
			for i := range rows {
				if _, err := w.WriteRows([]parquet.Row{schema.Deconstruct(nil, &rows[i])}); err != nil {
					c.Fail("c19.shred_write", keys, "WriteRows(Deconstruct): %v (schema %s)", err, sdesc)
					return
				}
			}
			if err := w.Close(); err != nil {
				c.Fail("c19.shred_write", keys, "Close: %v", err)
				return
			}
			c.Obs("write_rows_deconstruct", 1)
		}
		c.Obs("shredded_files", 1)
		data := buf.Bytes()
		// check compares what a read returned (per row, as trees) with what was written
		check := func(read string, want [][]*specreader.VT, got [][]*specreader.VT) bool {
			if len(got) != len(want) {
				c.Fail("c19.shred_mismatch", with(read), "%s: %d rows read, %d written (schema %s)", read, len(got), len(want), sdesc)
				return false
			}
			for i := range want {
				if len(got[i]) != len(want[i]) {
					c.Fail("c19.shred_mismatch", with(read), "%s: row %d holds %d variants, %d written (schema %s)", read, i, len(got[i]), len(want[i]), sdesc)
					return false
				}
				for j := range want[i] {
					if want[i][j] == nil || got[i][j] == nil {
						if want[i][j] != got[i][j] {
							c.Fail("c19.shred_mismatch", with(read), "%s: row %d variant %d: null group written=%v read=%v (schema %s)", read, i, j, want[i][j] == nil, got[i][j] == nil, sdesc)
							return false
						}
						continue
					}
					if ok, d := specreader.VTEqual(want[i][j], got[i][j]); !ok {
						c.Fail("c19.shred_mismatch", with(read), "%s: row %d variant %d reads back as a different value: %s (schema %s, written kind %s)", read, i, j, d, sdesc, want[i][j].Kind)
						return false
					}
					c.Obs("shredded_values_checked", 1)
				}
			}
			return true
		}
		decodeRaws := func(read string, raws [][]c19Raw) ([][]*specreader.VT, bool) {
			out := make([][]*specreader.VT, len(raws))
			for i := range raws {
				out[i] = []*specreader.VT{}
				for j := range raws[i] {
					t, err := specreader.DecodeVariant(raws[i][j].Metadata, raws[i][j].Value)
					if err != nil {
						c.Fail("c19.shred_mismatch", with(read), "%s: row %d variant %d: value read back cannot be decoded: %v (schema %s)", read, i, j, err, sdesc)
						return nil, false
					}
					out[i] = append(out[i], t)
				}
			}
			return out, true
		}
		// read 1: converted to the unshredded (metadata, value) form
		goOf := func(rows [][]*specreader.VT) ([][]*specreader.VT, bool) {
			out := make([][]*specreader.VT, len(rows))
			for i := range rows {
				out[i] = []*specreader.VT{}
				for _, v := range rows[i] {
					if v == nil || (v.Kind == "null" && pl.name == "optional") {
						// in the Go form a nil stands for both the null group and the variant null
						out[i] = append(out[i], nil)
						continue
					}
					lv, err := variant.ValueOf(toLib(v).GoValue())
					if err != nil {
						c.Fail("c19.shred_read", with("go_mapping"), "ValueOf(GoValue(v)): %v", err)
						return nil, false
					}
					out[i] = append(out[i], fromLib(lv))
				}
			}
			return out, true
		}
		treesOfAny := func(read string, rows []A) ([][]*specreader.VT, bool) {
			out := make([][]*specreader.VT, len(rows))
			for i := range rows {
				out[i] = []*specreader.VT{}
				for _, g := range io.getAny(rows[i]) {
					if g == nil && pl.name == "optional" {
						// a Go nil read from an optional variant column is the null group (variant null and SQL NULL both surface as nil; C19 compares them as written)
						out[i] = append(out[i], nil)
						continue
					}
					lv, err := variant.ValueOf(g)
					if err != nil {
						c.Fail("c19.shred_read", with(read), "row %d: value of type %T read back is not a variant: %v", i, g, err)
						return nil, false
					}
					out[i] = append(out[i], fromLib(lv))
				}
			}
			return out, true
		}
		goWant, ok := goOf(rowVals)
		if !ok {
			return
		}
		if io.getRaw != nil {
			got, err := parquet.Read[R](bytes.NewReader(data), int64(len(data)))
			if err != nil {
				c.Fail("c19.shred_read", with("convert_to_unshredded"), "Read converted to unshredded: %v (schema %s)", err, sdesc)
				return
			}
			raws := make([][]c19Raw, len(got))
			for i := range got {
				raws[i] = io.getRaw(got[i])
			}
			trees, ok := decodeRaws("convert_to_unshredded", raws)
			if !ok || !check("convert_to_unshredded", rowVals, trees) {
				return
			}
		} else {
			// no (metadata, value) destination type exists for this placement: read through the unshredded schema into Go values
			f, err := openBytes(data)
			if err != nil {
				c.Fail("c19.shred_read", with("convert_to_unshredded"), "open: %v", err)
				return
			}
			gr := parquet.NewGenericReader[A](f, pl.schema(parquet.Variant()))
			rows := make([]A, len(rowVals))
			n, err := gr.Read(rows)
			gr.Close()
			if n != len(rowVals) {
				c.Fail("c19.shred_read", with("convert_to_unshredded"), "read through the unshredded schema: %d rows, err=%v (schema %s)", n, err, sdesc)
				return
			}
			trees, ok := treesOfAny("convert_to_unshredded", rows)
			if !ok || !check("convert_to_unshredded", goWant, trees) {
				return
			}
		}
		c.Obs("read_convert_to_unshredded", 1)
		// read 2: through the shredded schema into `any`
		f, err := openBytes(data)
		if err != nil {
			c.Fail("c19.shred_read", with("shredded_typed"), "open: %v", err)
			return
		}
		gr := parquet.NewGenericReader[A](f, schema)
		anyRows := make([]A, len(rowVals))
		n, err := gr.Read(anyRows)
		gr.Close()
		if n != len(rowVals) {
			c.Fail("c19.shred_read", with("shredded_typed"), "typed read through the shredded schema: %d rows, err=%v (schema %s)", n, err, sdesc)
			return
		}
		// the Go form is lossy by documentation (GoValue: date -> int32, decimals -> unscaled ints, ...): compare modulo that mapping
		goGot, ok := treesOfAny("shredded_typed", anyRows)
		if !ok || !check("shredded_typed", goWant, goGot) {
			return
		}
		c.Obs("read_shredded_typed", 1)
		// read 3: the columns as stored, reassembled by the shredding specification's rules without the library
		c19TypedLeaves, c19ResidualValues = 0, 0
		rawVals, err := c19RawRead(data, sd, pl)
		if err != nil {
			c.Fail("c19.raw_columns", with("raw_columns"), "the shredded columns as stored do not follow the shredding specification: %v (schema %s)", err, sdesc)
			return
		}
		if !check("raw_columns", rowVals, rawVals) {
			return
		}
		c.Obs("read_raw_columns", 1)
		// read 4: the columnar cursor reader
		if pl.rep == 0 {
			got, err := c19CursorRead(data, sd, strings.Split(pl.prefix, "."), gen.Pick(c.R, []int{1, 2, 3, 100}))
			if err != nil {
				c.Fail("c19.shred_read", with("variant_reader"), "VariantReader: %v (schema %s)", err, sdesc)
				return
			}
			if !check("variant_reader", rowVals, got) {
				return
			}
			c.Obs("read_variant_reader", 1)
		}
		c.Obs("typed_leaf_values_stored", c19TypedLeaves)
		c.Obs("residual_values_stored", c19ResidualValues)
		for _, vs := range rowVals {
			for _, v := range vs {
				if v == nil {
					continue
				}
				switch c19Fit(sd, v) {
				case 2:
					c.Obs("schema_exact", 1)
				case 1:
					c.Obs("schema_partial_or_mismatch", 1)
					c.Obs("schema_partial", 1)
				default:
					c.Obs("schema_partial_or_mismatch", 1)
					c.Obs("schema_mismatch", 1)
				}
			}
		}
	})
}

func strings_HasPrefix(s, p string) bool { return len(s) >= len(p) && s[:len(p)] == p }

// c19Fit: 2 = the value fits the typed columns entirely, 1 = partly, 0 = not at all.
func c19Fit(d *c19Desc, v *specreader.VT) int {
	switch d.Kind {
	case "list":
		if v.Kind != "array" {
			return 0
		}
		fit := 2
		for _, e := range v.Elems {
			if c19Fit(d.Elem, e) < 2 {
				fit = 1
			}
		}
		return fit
	case "obj":
		if v.Kind != "object" {
			return 0
		}
		fit := 2
		for name, f := range v.Fields {
			fd, ok := d.Fields[name]
			if !ok || c19Fit(fd, f) < 2 {
				fit = 1
			}
		}
		return fit
	}
	if v.Kind == d.Kind && (d.Scale == 0 || v.Scale == d.Scale) {
		return 2
	}
	return 0
}

// ---- independent reconstruction from the raw columns of the file (VariantShredding.md)

type c19Cols map[string][]specreader.Entry // leaf path -> entries of one scope

// number of leaf values the reassembler took from typed_value columns (evidence that shredding happened)
var c19TypedLeaves, c19ResidualValues int

// c19FileColumns decodes every leaf of the file with specreader and splits it into rows.
func c19FileColumns(data []byte) ([]c19Cols, error) {
	sf, err := specreader.Parse(data)
	if err != nil {
		return nil, err
	}
	var rows []c19Cols
	for gi := range sf.RowGroups {
		g := &sf.RowGroups[gi]
		base := len(rows)
		for i := int64(0); i < g.NumRows; i++ {
			rows = append(rows, c19Cols{})
		}
		for ci := range g.Chunks {
			ch := &g.Chunks[ci]
			leaf := &sf.Leaves[ci]
			ps, err := sf.WalkPages(ch)
			if err != nil {
				return nil, fmt.Errorf("column %s: %w", leaf.Name(), err)
			}
			dec, _, err := sf.DecodeChunk(ch, leaf, ps)
			if err != nil {
				return nil, fmt.Errorf("column %s: %w", leaf.Name(), err)
			}
			ri := base - 1
			for _, p := range dec {
				for _, e := range p.Entries {
					if e.R == 0 {
						ri++
					}
					if ri < base || ri >= len(rows) {
						return nil, fmt.Errorf("column %s: more rows than the row group's num_rows=%d", leaf.Name(), g.NumRows)
					}
					rows[ri][leaf.Name()] = append(rows[ri][leaf.Name()], e)
				}
			}
			if ri != len(rows)-1 {
				return nil, fmt.Errorf("column %s: %d rows, row group says %d", leaf.Name(), ri-base+1, g.NumRows)
			}
		}
	}
	return rows, nil
}

// sub returns the columns under prefix.
func (cs c19Cols) under(prefix string) c19Cols {
	out := c19Cols{}
	for k, v := range cs {
		if k == prefix || (len(k) > len(prefix) && k[:len(prefix)+1] == prefix+".") {
			out[k] = v
		}
	}
	return out
}

// c19Recon rebuilds the variant stored in the (value, typed_value) pair of
// the group at prefix, whose own definition level is def; rep is the
// repetition depth of the scope. Returns nil for "missing".
func c19Recon(d *c19Desc, dict []string, cs c19Cols, prefix string, def, rep int) (*specreader.VT, error) {
	ve, ok := cs[prefix+".value"]
	if !ok || len(ve) != 1 {
		return nil, fmt.Errorf("%s.value: %d entries in one scope", prefix, len(ve))
	}
	var resid *specreader.VT
	if ve[0].D > def {
		v, used, err := specreader.VariantValue(dict, ve[0].B, 0)
		if err != nil {
			return nil, fmt.Errorf("%s.value: %w", prefix, err)
		}
		if used != len(ve[0].B) {
			return nil, fmt.Errorf("%s.value: %d of %d bytes used", prefix, used, len(ve[0].B))
		}
		resid = v
	}
	tp := prefix + ".typed_value"
	tcols := cs.under(tp)
	if len(tcols) == 0 {
		return nil, fmt.Errorf("%s: no columns", tp)
	}
	var typed *specreader.VT
	switch d.Kind {
	case "obj":
		defined, first := false, true
		for _, es := range tcols {
			dd := es[0].D > def
			if !first && dd != defined {
				return nil, fmt.Errorf("%s: columns disagree on whether the group is defined", tp)
			}
			defined, first = dd, false
		}
		if defined {
			typed = &specreader.VT{Kind: "object", Fields: map[string]*specreader.VT{}}
			for _, name := range d.Names {
				fv, err := c19Recon(d.Fields[name], dict, tcols.under(tp+"."+name), tp+"."+name, def+1, rep)
				if err != nil {
					return nil, err
				}
				if fv != nil {
					typed.Fields[name] = fv
					typed.Order = append(typed.Order, name)
				}
			}
		}
	case "list":
		var n = -1
		state := -1 // 0 null, 1 empty, 2 elements
		for name, es := range tcols {
			st := 0
			switch {
			case es[0].D >= def+2:
				st = 2
			case es[0].D == def+1:
				st = 1
			}
			if state >= 0 && st != state {
				return nil, fmt.Errorf("%s: columns disagree on null/empty/non-empty (%s)", tp, name)
			}
			state = st
			if st == 2 {
				k := 0
				for i, e := range es {
					if i == 0 || e.R == rep+1 {
						k++
					} else if e.R <= rep {
						return nil, fmt.Errorf("%s: repetition level %d inside a scope of depth %d", name, e.R, rep)
					}
				}
				if n >= 0 && k != n {
					return nil, fmt.Errorf("%s: columns disagree on the number of elements", tp)
				}
				n = k
			} else if len(es) != 1 {
				return nil, fmt.Errorf("%s: %d entries for a null or empty list", name, len(es))
			}
		}
		if state >= 1 {
			typed = &specreader.VT{Kind: "array", Elems: []*specreader.VT{}}
		}
		if state == 2 {
			ep := tp + ".list.element"
			for i := 0; i < n; i++ {
				ecols := c19Cols{}
				for name, es := range tcols {
					k := -1
					for j, e := range es {
						if j == 0 || e.R == rep+1 {
							k++
						}
						if k == i {
							ecols[name] = append(ecols[name], e)
						}
					}
				}
				ev, err := c19Recon(d.Elem, dict, ecols, ep, def+2, rep+1)
				if err != nil {
					return nil, err
				}
				if ev == nil {
					return nil, fmt.Errorf("%s[%d]: array element is missing (value and typed_value both null)", tp, i)
				}
				typed.Elems = append(typed.Elems, ev)
			}
		}
	default:
		es := tcols[tp]
		if len(es) != 1 {
			return nil, fmt.Errorf("%s: %d entries in one scope", tp, len(es))
		}
		if es[0].D > def {
			e := es[0]
			t := &specreader.VT{Kind: d.Kind, Scale: d.Scale}
			switch d.Kind {
			case "bool", "int8", "int16", "int32", "int64", "date", "time", "timestamp", "timestamp_ntz", "timestamp_nanos", "timestamp_ntz_nanos", "decimal4", "decimal8":
				t.I = e.I
			case "float":
				t.Bits = uint64(uint32(e.I))
			case "double":
				t.Bits = uint64(e.I)
			case "string":
				t.S = string(e.B)
			case "binary", "uuid":
				t.B = append([]byte{}, e.B...)
			case "decimal16":
				t.B = make([]byte, 16)
				for i := range t.B { // big-endian in the column, little-endian in the variant
					t.B[i] = e.B[15-i]
				}
			}
			typed = t
			c19TypedLeaves++
		}
	}
	if resid != nil {
		c19ResidualValues++
	}
	switch {
	case typed == nil:
		return resid, nil
	case resid == nil:
		return typed, nil
	case typed.Kind == "object" && resid.Kind == "object":
		for name, v := range resid.Fields {
			if _, dup := typed.Fields[name]; dup {
				return nil, fmt.Errorf("%s: field %q is in both value and typed_value", prefix, name)
			}
			if _, shredded := d.Fields[name]; shredded {
				return nil, fmt.Errorf("%s: field %q of the shredding schema is stored in value", prefix, name)
			}
			typed.Fields[name] = v
			typed.Order = append(typed.Order, name)
		}
		return typed, nil
	}
	return nil, fmt.Errorf("%s: value and typed_value are both non-null and not both objects (%s, %s)", prefix, resid.Kind, typed.Kind)
}

// c19Split splits the entries of one scope into the occurrences of a repeated node at repetition depth rep+1.
func c19Split(cs c19Cols, rep int) ([]c19Cols, error) {
	n := -1
	for name, es := range cs {
		k := 0
		for i, e := range es {
			if i == 0 || e.R == rep+1 {
				k++
			} else if e.R <= rep {
				return nil, fmt.Errorf("%s: repetition level %d inside a scope of depth %d", name, e.R, rep)
			}
		}
		if n >= 0 && k != n {
			return nil, fmt.Errorf("%s: columns disagree on the number of elements", name)
		}
		n = k
	}
	out := make([]c19Cols, n)
	for i := range out {
		out[i] = c19Cols{}
	}
	for name, es := range cs {
		k := -1
		for j, e := range es {
			if j == 0 || e.R == rep+1 {
				k++
			}
			out[k][name] = append(out[k][name], e)
		}
	}
	return out, nil
}

// c19RawRead reconstructs every row's variants from the file's columns.
func c19RawRead(data []byte, d *c19Desc, pl c19Place) ([][]*specreader.VT, error) {
	rows, err := c19FileColumns(data)
	if err != nil {
		return nil, err
	}
	out := make([][]*specreader.VT, len(rows))
	for i, all := range rows {
		out[i] = []*specreader.VT{}
		cs := all.under(pl.prefix)
		occ := []c19Cols{cs}
		if pl.rep > 0 {
			empty, first := false, true
			for name, es := range cs {
				e := es[0].D < pl.def
				if !first && e != empty {
					return nil, fmt.Errorf("row %d: %s: columns disagree on whether the repeated variant is empty", i, name)
				}
				empty, first = e, false
			}
			if empty {
				continue
			}
			if occ, err = c19Split(cs, pl.rep-1); err != nil {
				return nil, fmt.Errorf("row %d: %w", i, err)
			}
		}
		if pl.name == "optional" {
			null, first := false, true
			for name, es := range cs {
				n := es[0].D < pl.def
				if !first && n != null {
					return nil, fmt.Errorf("row %d: the columns of the optional variant group disagree on whether the group is null (%s says null=%v)", i, name, n)
				}
				null, first = n, false
			}
			if null {
				out[i] = append(out[i], nil)
				continue
			}
		}
		for j, ocs := range occ {
			me := ocs[pl.prefix+".metadata"]
			if len(me) != 1 || me[0].Null {
				return nil, fmt.Errorf("row %d/%d: %s.metadata has %d entries", i, j, pl.prefix, len(me))
			}
			dict, err := specreader.VariantMetadata(me[0].B)
			if err != nil {
				return nil, fmt.Errorf("row %d/%d: %w", i, j, err)
			}
			v, err := c19Recon(d, dict, ocs, pl.prefix, pl.def, pl.rep)
			if err != nil {
				return nil, fmt.Errorf("row %d/%d: %w", i, j, err)
			}
			if v == nil {
				return nil, fmt.Errorf("row %d/%d: value and typed_value are both null at the top level", i, j)
			}
			out[i] = append(out[i], v)
		}
	}
	return out, nil
}

// ---- reading through the columnar cursor API (NewVariantReader)

type c19Cur struct {
	cur    *parquet.VariantCursor
	d      *c19Desc
	fields map[string]*c19Cur
	elems  *c19Cur
}

// c19BuildCursors declares, before the first Next, every position of the shredding schema.
func c19BuildCursors(cur *parquet.VariantCursor, d *c19Desc) *c19Cur {
	n := &c19Cur{cur: cur, d: d}
	switch d.Kind {
	case "obj":
		n.fields = map[string]*c19Cur{}
		for _, name := range d.Names {
			n.fields[name] = c19BuildCursors(cur.Field(name), d.Fields[name])
		}
	case "list":
		n.elems = c19BuildCursors(cur.Elements(), d.Elem)
	}
	return n
}

// typedAt returns the typed scalar of entry e of a leaf cursor.
func (n *c19Cur) typedAt(e int) (*specreader.VT, error) {
	idx := -1
	for i, r := range n.cur.TypedRows() {
		if int(r) == e {
			idx = i
			break
		}
	}
	if idx < 0 {
		return nil, fmt.Errorf("entry %d is tagged typed but TypedRows does not list it", e)
	}
	t := &specreader.VT{Kind: n.d.Kind, Scale: n.d.Scale}
	switch n.d.Kind {
	case "bool":
		if n.cur.Booleans()[idx] {
			t.I = 1
		}
	case "int8", "int16", "int32", "date", "decimal4":
		t.I = int64(n.cur.Int32s()[idx])
	case "int64", "time", "timestamp", "timestamp_ntz", "timestamp_nanos", "timestamp_ntz_nanos", "decimal8":
		t.I = n.cur.Int64s()[idx]
	case "float":
		t.Bits = uint64(math.Float32bits(n.cur.Floats()[idx]))
	case "double":
		t.Bits = math.Float64bits(n.cur.Doubles()[idx])
	case "string":
		slab, offs := n.cur.ByteArrays()
		t.S = string(slab[offs[idx]:offs[idx+1]])
	case "binary":
		slab, offs := n.cur.ByteArrays()
		t.B = append([]byte{}, slab[offs[idx]:offs[idx+1]]...)
	case "uuid":
		slab, size := n.cur.FixedLenByteArrays()
		t.B = append([]byte{}, slab[idx*size:(idx+1)*size]...)
	case "decimal16":
		slab, size := n.cur.FixedLenByteArrays()
		t.B = make([]byte, 16)
		for i := 0; i < 16; i++ {
			t.B[i] = slab[idx*size+15-i]
		}
	default:
		return nil, fmt.Errorf("no typed accessor for %s", n.d.Kind)
	}
	return t, nil
}

// valueAt rebuilds the value of entry e from the location tags, typed vectors, residuals and child cursors.
func (n *c19Cur) valueAt(e int) (*specreader.VT, error) {
	locs := n.cur.Locs()
	if e < 0 || e >= len(locs) {
		return nil, fmt.Errorf("entry %d outside the window of %d entries", e, len(locs))
	}
	switch locs[e] {
	case variant.LocMissing:
		return nil, nil
	case variant.LocNull:
		return &specreader.VT{Kind: "null"}, nil
	case variant.LocResidual:
		v, ok, err := n.cur.Residual(e)
		if err != nil {
			return nil, err
		}
		if !ok {
			return nil, fmt.Errorf("entry %d is tagged residual but has no residual value", e)
		}
		return fromLib(v), nil
	case variant.LocTyped:
		return n.typedAt(e)
	case variant.LocTypedObject:
		if n.d.Kind != "obj" {
			return nil, fmt.Errorf("entry %d is tagged typed-object at a position shredded as %s", e, n.d.Kind)
		}
		o := &specreader.VT{Kind: "object", Fields: map[string]*specreader.VT{}}
		for _, name := range n.d.Names {
			fv, err := n.fields[name].valueAt(e)
			if err != nil {
				return nil, fmt.Errorf(".%s: %w", name, err)
			}
			if fv != nil {
				o.Fields[name] = fv
				o.Order = append(o.Order, name)
			}
		}
		if rv, ok, err := n.cur.Residual(e); err != nil {
			return nil, err
		} else if ok {
			rest := fromLib(rv)
			if rest.Kind != "object" {
				return nil, fmt.Errorf("the leftover of a partially shredded object is a %s", rest.Kind)
			}
			for name, fv := range rest.Fields {
				if _, dup := o.Fields[name]; dup {
					return nil, fmt.Errorf("field %q is in the shredded part and in the leftover", name)
				}
				o.Fields[name] = fv
				o.Order = append(o.Order, name)
			}
		}
		return o, nil
	case variant.LocTypedList:
		if n.d.Kind != "list" {
			return nil, fmt.Errorf("entry %d is tagged typed-list at a position shredded as %s", e, n.d.Kind)
		}
		offs := n.cur.ListOffsets()
		if e+1 >= len(offs) {
			return nil, fmt.Errorf("ListOffsets has %d entries, entry %d needs %d", len(offs), e, e+2)
		}
		a := &specreader.VT{Kind: "array", Elems: []*specreader.VT{}}
		for j := int(offs[e]); j < int(offs[e+1]); j++ {
			ev, err := n.elems.valueAt(j)
			if err != nil {
				return nil, fmt.Errorf("[%d]: %w", j-int(offs[e]), err)
			}
			if ev == nil {
				return nil, fmt.Errorf("[%d]: a list element is tagged missing", j-int(offs[e]))
			}
			a.Elems = append(a.Elems, ev)
		}
		return a, nil
	}
	return nil, fmt.Errorf("unknown location tag %v", locs[e])
}

func c19CursorRead(data []byte, d *c19Desc, path []string, window int) ([][]*specreader.VT, error) {
	f, err := openBytes(data)
	if err != nil {
		return nil, err
	}
	var out [][]*specreader.VT
	for _, rg := range f.RowGroups() {
		vr, err := parquet.NewVariantReader(rg, path...)
		if err != nil {
			return nil, err
		}
		root := c19BuildCursors(vr.Root(), d)
		for {
			n, err := vr.Next(window)
			for e := 0; e < n; e++ {
				v, verr := root.valueAt(e)
				if verr != nil {
					vr.Close()
					return nil, fmt.Errorf("row %d: %w", len(out), verr)
				}
				out = append(out, []*specreader.VT{v})
			}
			if err != nil {
				if err == io.EOF {
					break
				}
				vr.Close()
				return nil, err
			}
			if n == 0 {
				break
			}
		}
		vr.Close()
	}
	return out, nil
}
