package main

import (
	"reflect"
	"time"

	"github.com/google/uuid"
	"github.com/parquet-go/parquet-go/deprecated"
)

// The compile-time type catalogue (DESIGN §3.1). Every type starts with a
// unique row id so that order/permutation oracles are O(n) scans. The shapes
// cover every documented tag and nesting construct of SchemaOf.

type Inner struct {
	A int64  `parquet:"a"`
	B string `parquet:"b,optional"`
}

type Inner2 struct {
	X *int64   `parquet:"x"`
	Y []string `parquet:"y"`
}

type Emb struct {
	E1 int32  `parquet:"e1"`
	E2 string `parquet:"e2"`
}

type TFlat struct {
	ID  int64    `parquet:"id"`
	B   bool     `parquet:"b"`
	I32 int32    `parquet:"i32"`
	I64 int64    `parquet:"i64"`
	F32 float32  `parquet:"f32"`
	F64 float64  `parquet:"f64"`
	S   string   `parquet:"s"`
	Bs  []byte   `parquet:"bs"`
	U   [16]byte `parquet:"u,uuid"`
}

type TSmallInts struct {
	ID  int64  `parquet:"id"`
	I8  int8   `parquet:"i8"`
	I16 int16  `parquet:"i16"`
	U8  uint8  `parquet:"u8"`
	U16 uint16 `parquet:"u16"`
	U32 uint32 `parquet:"u32"`
	U64 uint64 `parquet:"u64"`
	I   int    `parquet:"i"`
	U   uint   `parquet:"u"`
}

type TOptScalar struct {
	ID  int64   `parquet:"id"`
	A   int64   `parquet:"a,optional"`
	S   string  `parquet:"s,optional"`
	F   float64 `parquet:"f,optional"`
	B   bool    `parquet:"b,optional"`
	I32 int32   `parquet:"i32,optional"`
	U32 uint32  `parquet:"u32,optional"`
	F32 float32 `parquet:"f32,optional"`
	Bs  []byte  `parquet:"bs,optional"`
}

type TPtr struct {
	ID  int64    `parquet:"id"`
	A   *int64   `parquet:"a"`
	S   *string  `parquet:"s"`
	F   *float64 `parquet:"f"`
	B   *bool    `parquet:"b"`
	I32 *int32   `parquet:"i32"`
	U64 *uint64  `parquet:"u64"`
}

type TSlices struct {
	ID int64     `parquet:"id"`
	A  []int64   `parquet:"a"`
	S  []string  `parquet:"s"`
	F  []float64 `parquet:"f"`
	B  []bool    `parquet:"b"`
}

type TLists struct {
	ID int64    `parquet:"id"`
	A  []int64  `parquet:"a,list"`
	S  []string `parquet:"s,optional,list"`
	I  []int32  `parquet:"i,list"`
}

type TNested struct {
	ID   int64   `parquet:"id"`
	In   Inner   `parquet:"in"`
	P    *Inner  `parquet:"p"`
	L    []Inner `parquet:"l"`
	Name string  `parquet:"name"`
}

type TSliceOfSlices struct {
	ID int64      `parquet:"id"`
	M  [][]int64  `parquet:"m,list"`
	N  [][]string `parquet:"n,optional,list"`
}

type TMaps struct {
	ID int64             `parquet:"id"`
	M  map[string]int64  `parquet:"m"`
	S  map[string]string `parquet:"s,optional"`
	I  map[int64]Inner   `parquet:"i"`
}

type TEncoded struct {
	ID  int64   `parquet:"id,delta"`
	D   string  `parquet:"d,dict"`
	DI  int64   `parquet:"di,dict"`
	De  int32   `parquet:"de,delta"`
	Ds  string  `parquet:"ds,delta"`
	Sp  float64 `parquet:"sp,split"`
	Sp4 float32 `parquet:"sp4,split"`
	Z   string  `parquet:"z,zstd"`
	G   []byte  `parquet:"g,gzip,dict"`
	Sn  int64   `parquet:"sn,snappy,optional"`
	OD  *string `parquet:"od,dict"`
}

type TLogical struct {
	ID   int64      `parquet:"id"`
	Tms  time.Time  `parquet:"tms,timestamp(millisecond)"`
	Tus  time.Time  `parquet:"tus,timestamp(microsecond)"`
	Tns  time.Time  `parquet:"tns,timestamp(nanosecond)"`
	Ti   int64      `parquet:"ti,timestamp(microsecond:local)"`
	Dt   int32      `parquet:"dt,date"`
	D32  int32      `parquet:"d32,decimal(2:9)"`
	D64  int64      `parquet:"d64,decimal(3:18)"`
	DF   [12]byte   `parquet:"df,decimal(4:28)"`
	En   string     `parquet:"en,enum"`
	Js   string     `parquet:"js,json"`
	Id   uuid.UUID  `parquet:"uid,uuid"`
	OptT *time.Time `parquet:"optt,timestamp(microsecond)"`
}

type TInt96 struct {
	ID int64             `parquet:"id"`
	A  deprecated.Int96  `parquet:"a"`
	O  *deprecated.Int96 `parquet:"o"`
}

type TFixed struct {
	ID  int64     `parquet:"id"`
	F1  [1]byte   `parquet:"f1"`
	F5  [5]byte   `parquet:"f5"`
	F16 [16]byte  `parquet:"f16"`
	FD  [5]byte   `parquet:"fd,dict"`
	O16 *[16]byte `parquet:"o16"`
	L5  [][5]byte `parquet:"l5"`
}

type TEmbedded struct {
	ID int64 `parquet:"id"`
	Emb
	Tail string `parquet:"tail,optional"`
}

type TDeep struct {
	ID int64 `parquet:"id"`
	L  []struct {
		X *int64 `parquet:"x"`
		Y []struct {
			Z string  `parquet:"z,optional"`
			W []int32 `parquet:"w"`
		} `parquet:"y"`
	} `parquet:"l"`
	P *Inner2 `parquet:"p"`
}

type TKeyed struct {
	ID int64   `parquet:"id"`
	K  *int64  `parquet:"k"`
	K2 string  `parquet:"k2,dict"`
	V  float64 `parquet:"v"`
}

type TListOptElem struct {
	ID int64    `parquet:"id"`
	A  []int64  `parquet:"a,list" parquet-element:",optional"`
	S  []string `parquet:"s,optional,list" parquet-element:",optional"`
}

type TWide struct {
	ID                                     int64 `parquet:"id"`
	C0, C1, C2, C3, C4, C5, C6, C7, C8, C9 int64
	S0, S1, S2                             string
	O0, O1                                 *int32
}

type TOptGroups struct {
	ID int64 `parquet:"id"`
	G  *struct {
		A *int64 `parquet:"a"`
		H *struct {
			B string  `parquet:"b"`
			C []int64 `parquet:"c"`
		} `parquet:"h"`
	} `parquet:"g"`
	M map[string][]int64 `parquet:"m"`
}

type TBoolHeavy struct {
	ID int64  `parquet:"id"`
	B1 bool   `parquet:"b1"`
	B2 *bool  `parquet:"b2"`
	B3 []bool `parquet:"b3"`
	B4 bool   `parquet:"b4,optional"`
}

type TStrings struct {
	ID int64    `parquet:"id"`
	S  string   `parquet:"s"`
	O  *string  `parquet:"o"`
	D  string   `parquet:"d,dict"`
	Bs []byte   `parquet:"bs"`
	L  []string `parquet:"l,list"`
}

type Mid struct {
	M int64 `parquet:"m"`
	Emb
	MZ *int32 `parquet:"mz"`
}

type TEmbedded2 struct {
	ID int64 `parquet:"id"`
	Mid
	Z string `parquet:"z,optional"`
}

type TMapOfMaps struct {
	ID int64                       `parquet:"id"`
	MM map[string]map[string]int64 `parquet:"mm"`
	ML map[string][]string         `parquet:"ml"`
	MP map[int32]*Inner            `parquet:"mp"`
}

type TDictAll struct {
	ID  int64            `parquet:"id"`
	I32 int32            `parquet:"i32,dict"`
	I64 int64            `parquet:"i64,dict"`
	F32 float32          `parquet:"f32,dict"`
	F64 float64          `parquet:"f64,dict"`
	S   string           `parquet:"s,dict"`
	Bs  []byte           `parquet:"bs,dict"`
	F5  [5]byte          `parquet:"f5,dict"`
	U   [16]byte         `parquet:"u,dict,uuid"`
	I96 deprecated.Int96 `parquet:"i96,dict"`
	B   bool             `parquet:"b,dict"`
	U32 uint32           `parquet:"u32,dict"`
	U64 uint64           `parquet:"u64,dict"`
}

type TRepDict struct {
	ID int64             `parquet:"id"`
	L  []string          `parquet:"l,dict"`
	LL []string          `parquet:"ll,list" parquet-element:",dict"`
	LI []int64           `parquet:"li,dict"`
	M  map[string]string `parquet:"m" parquet-value:",dict"`
	O  *string           `parquet:"o,dict"`
	LF [][5]byte         `parquet:"lf,dict"`
}

// typeEntry binds the compile-time generic entry points of one catalogue type.
type typeEntry struct {
	Name string
	Type reflect.Type
	ops  typedOps
}

var catalogue []*typeEntry

func reg[T any](name string) {
	var z T
	catalogue = append(catalogue, &typeEntry{Name: name, Type: reflect.TypeOf(z), ops: typedOpsImpl[T]{}})
}

func init() {
	reg[TFlat]("flat")
	reg[TSmallInts]("smallints")
	reg[TOptScalar]("optscalar")
	reg[TPtr]("ptr")
	reg[TSlices]("slices")
	reg[TLists]("lists")
	reg[TNested]("nested")
	reg[TSliceOfSlices]("sliceofslices")
	reg[TMaps]("maps")
	reg[TEncoded]("encoded")
	reg[TLogical]("logical")
	reg[TInt96]("int96")
	reg[TFixed]("fixed")
	reg[TEmbedded]("embedded")
	reg[TDeep]("deep")
	reg[TKeyed]("keyed")
	reg[TListOptElem]("listoptelem")
	reg[TWide]("wide")
	reg[TOptGroups]("optgroups")
	reg[TBoolHeavy]("boolheavy")
	reg[TStrings]("strings")
	reg[TEmbedded2]("embedded2")
	reg[TMapOfMaps]("mapofmaps")
	reg[TDictAll]("dictall")
	reg[TRepDict]("repdict")
}

// Shapes added after a seeding agent pointed at tag combinations the catalogue lacked (F50-F54):
// json on optional strings / byte slices, an optional non-pointer struct, optional time.Time below
// optional and repeated ancestors, 64-bit Go integers mapped to 32-bit columns.
type OptGroup struct {
	A int64  `parquet:"a"`
	B string `parquet:"b"`
}

type TimeIn struct {
	T  time.Time  `parquet:"t,optional"`
	N  int64      `parquet:"n"`
	TP *time.Time `parquet:"tp,timestamp(microsecond)"`
}

type TTagMix struct {
	ID  int64     `parquet:"id"`
	J   string    `parquet:"j,json,optional"`
	JB  []byte    `parquet:"jb,json,optional"`
	O   OptGroup  `parquet:"o,optional"`
	P   *TimeIn   `parquet:"p"`
	LT  []TimeIn  `parquet:"lt"`
	I32 int64     `parquet:"i32,int(32)"`
	I   int       `parquet:"i,int(32)"`
	OT  time.Time `parquet:"ot,optional,timestamp(millisecond)"`
	W32 int32     `parquet:"w32,int(64)"`
	UW  uint32    `parquet:"uw,uint(64)"`
	OS  string    `parquet:"os,optional"`
}

func init() { reg[TTagMix]("tagmix") }

// Maps whose key type is not an integer, float or string go through a reflection-based
// fallback in the typed writer (seeded change C01-m6); 8-bit keys and bool values for good measure.
type TMapKeys struct {
	ID int64              `parquet:"id"`
	B  map[bool]int64     `parquet:"b"`
	U  map[[16]byte]int32 `parquet:"u"`
	F  map[[4]byte]string `parquet:"f"`
	I8 map[int8]int64     `parquet:"i8"`
	S  map[string]bool    `parquet:"s"`
	OV map[string]string  `parquet:"ov" parquet-value:",optional"`
	OI map[string]int64   `parquet:"oi" parquet-value:",optional"`
}

func init() { reg[TMapKeys]("mapkeys") }

// Tags that change the stored representation of a Go type: a string holding the text form of a UUID.
type TTagConv struct {
	ID int64  `parquet:"id"`
	U  string `parquet:"u,uuid"`
	OU string `parquet:"ou,uuid,optional"`
	// a time.Time stored as days, durations stored as a time of day in the column's unit
	Day  time.Time     `parquet:"day,date"`
	ODay time.Time     `parquet:"oday,date,optional"`
	PDay *time.Time    `parquet:"pday,date"`
	DMs  time.Duration `parquet:"dms,time(millisecond)"`
	DUs  time.Duration `parquet:"dus,time(microsecond)"`
	ODUs time.Duration `parquet:"odus,time(microsecond),optional"`
}

func init() { reg[TTagConv]("tagconv") }

func typeByName(n string) *typeEntry {
	for _, t := range catalogue {
		if t.Name == n {
			return t
		}
	}
	return nil
}
