package main

import (
	"bytes"
	"crypto/sha256"
	"encoding/hex"
	"fmt"
	"io"
	"reflect"
	"runtime"
	"runtime/debug"
	"sort"
	"sync"
	"sync/atomic"
	"time"

	"github.com/parquet-go/parquet-go"
	"github.com/parquet-go/parquet-go/compress"
	"github.com/parquet-go/parquet-go/encoding"

	"verif/gen"
)

// C15: documented concurrent use behaves like some serial execution.
//
// A case is a scenario: 2..7 tasks drawn from the usage patterns the
// documentation allows, each with its own PRNG data. The scenario is run
// concurrently first (so that every lazily initialised, process-wide or
// per-object state is first touched under contention), then serially, then
// concurrently again under other GOMAXPROCS values and yield profiles. Every
// task returns named digests of everything it produced (file bytes, rows,
// index contents, filter answers); the concurrent digests must equal the
// serial ones. The race detector (variant `race`), the panic guard, the pool
// token monitor and the watchdog (deadlock = all goroutines blocked) run
// alongside.

func init() {
	register(&PropDef{
		ID:    "C15",
		Level: "exploration",
		Cases: func(t string) int {
			if t == "thorough" {
				return 1600
			}
			return 96
		},
		Batch: func(t string) int { return 6 },
		Floors: []string{"scenarios", "concurrent_rounds", "task_digests_compared", "goroutines_started", "kind_writer", "kind_any_writer_fresh_type", "kind_shared_file", "kind_column_writers", "kind_row_groups", "kind_shared_schema", "kind_enc_codec", "kind_buffer", "kind_conversion", "kind_async_seek",
			"gomaxprocs_1", "gomaxprocs_2", "gomaxprocs_4", "gomaxprocs_16", "yield_profile_gosched", "yield_profile_sleep", "yield_points_hit", "pool_gets", "pool_reuses", "shared_codec_scenarios", "lazy_index_loads_under_contention"},
		Rule: "case = one scenario of 2..7 tasks from {independent typed writer, reflection-path writer of a struct type new to the process (shared by several tasks), N goroutines on one freshly opened File (rows, row-group rows, pages, column/offset index, bloom filter checks, ReadAt; indexes and filters loaded lazily), one goroutine per ColumnWriter, BeginRowGroup filled concurrently and committed in order, fresh shared Schema (Deconstruct/Reconstruct/Comparator/Lookup), shared Encoding and Codec values, independent sorted buffers, shared Conversion, async-mode readers with seeks}; " +
			"run concurrently, then serially, then concurrently under GOMAXPROCS in {1,2,4,16} and yield profiles {off, Gosched 20%, sleep 50us 2%} injected at the library's hook points; every named digest of the concurrent runs must equal the serial one; no panic; no buffer handed out twice by the page-buffer pool; race detector silent; no deadlock (watchdog)",
		Assumptions: []string{"maps hold at most one entry (with more, Go map iteration order makes file bytes differ between any two runs, serial or not)", "a deadlock verdict needs every goroutine blocked while the process consumes no CPU; anything else that is slow is inconclusive"},
		Run:         runC15,
	})
}

type c15Task struct {
	kind string
	run  func(conc bool) (map[string]string, error)
}

func dg(b []byte) string {
	h := sha256.Sum256(b)
	return hex.EncodeToString(h[:8])
}

func digestRows(rows []parquet.Row) string {
	h := sha256.New()
	for _, row := range rows {
		for _, v := range row {
			fmt.Fprintf(h, "%+v|", v)
		}
		h.Write([]byte{'\n'})
	}
	return hex.EncodeToString(h.Sum(nil)[:8])
}

// par runs fs sequentially or each in its own goroutine; a panic in any of
// them is returned as an error carrying the stack.
func par(conc bool, fs []func() error) error {
	errs := make([]error, len(fs))
	call := func(i int) {
		defer func() {
			if p := recover(); p != nil {
				errs[i] = &c15Panic{val: p, stack: string(debug.Stack())}
			}
		}()
		errs[i] = fs[i]()
	}
	if !conc {
		for i := range fs {
			call(i)
		}
	} else {
		var wg sync.WaitGroup
		for i := range fs {
			wg.Add(1)
			c15Goroutines.Add(1)
			go func(i int) {
				defer wg.Done()
				call(i)
			}(i)
		}
		wg.Wait()
	}
	for _, e := range errs {
		if e != nil {
			return e
		}
	}
	return nil
}

type c15Panic struct {
	val   any
	stack string
}

func (p *c15Panic) Error() string { return fmt.Sprintf("panic: %v", p.val) }

var c15Goroutines atomic.Int64

// ---- yield injection and pool monitor (hooks in /repo, build tag verif)

var (
	c15YieldMode  atomic.Int64 // 0 off, 1 gosched 20%, 2 sleep 2%
	c15YieldCtr   atomic.Uint64
	c15YieldHits  atomic.Int64
	c15YieldActed atomic.Int64
)

func c15Yield(point int) {
	c15YieldHits.Add(1)
	mode := c15YieldMode.Load()
	if mode == 0 {
		return
	}
	x := c15YieldCtr.Add(0x9e3779b97f4a7c15)
	x ^= x >> 31
	x *= 0xbf58476d1ce4e5b9
	x ^= x >> 29
	switch {
	case mode == 1 && x%5 == 0:
		c15YieldActed.Add(1)
		runtime.Gosched()
	case mode == 2 && x%50 == 0:
		c15YieldActed.Add(1)
		time.Sleep(50 * time.Microsecond)
	}
}

type c15Pool struct {
	mu       sync.Mutex
	state    map[any]bool // true = held
	gets     int64
	puts     int64
	reuses   int64
	held     int64
	maxHeld  int64
	problems []string
}

var c15PoolMon = &c15Pool{state: map[any]bool{}}

func (m *c15Pool) event(put bool, b any) {
	m.mu.Lock()
	defer m.mu.Unlock()
	held, seen := m.state[b]
	if put {
		m.puts++
		if seen && !held {
			m.problems = append(m.problems, fmt.Sprintf("buffer %p returned to the pool twice without being handed out in between\n%s", b, debug.Stack()))
		}
		if seen && held {
			m.held--
		}
		m.state[b] = false
		return
	}
	m.gets++
	if seen && held {
		m.problems = append(m.problems, fmt.Sprintf("buffer %p handed out by the pool while another holder has not returned it\n%s", b, debug.Stack()))
	}
	if seen {
		m.reuses++
	}
	m.state[b] = true
	m.held++
	if m.held > m.maxHeld {
		m.maxHeld = m.held
	}
}

func (m *c15Pool) drain() (gets, puts, reuses, maxHeld int64, problems []string) {
	m.mu.Lock()
	defer m.mu.Unlock()
	gets, puts, reuses, maxHeld, problems = m.gets, m.puts, m.reuses, m.maxHeld, m.problems
	// forget everything: the map keeps the buffers alive, which is what makes pointer identity sound within a case
	m.state = map[any]bool{}
	m.gets, m.puts, m.reuses, m.held, m.maxHeld, m.problems = 0, 0, 0, 0, 0, nil
	return
}

// ---- scenario

var c15Codecs = []struct {
	name  string
	codec compress.Codec
}{
	{"uncompressed", &parquet.Uncompressed}, {"snappy", &parquet.Snappy}, {"gzip", &parquet.Gzip}, {"zstd", &parquet.Zstd}, {"lz4raw", &parquet.Lz4Raw}, {"brotli", &parquet.Brotli},
}

func c15Types() []*typeEntry {
	var out []*typeEntry
	for _, te := range catalogue {
		switch te.Name {
		case "c06row", "c07row", "c13row", "c14row", "c18row", "wide", "deep":
			continue
		}
		out = append(out, te)
	}
	return out
}

func runC15(c *Ctx) {
	r := c.R
	c.Heavy()
	types := c15Types()
	nTasks := r.Range(2, 7)
	// one codec value shared by every writer of the scenario, most of the time
	sharedCodec := -1
	if r.P(70) {
		sharedCodec = r.Intn(len(c15Codecs))
		c.Obs("shared_codec_scenarios", 1)
	}
	pickCodec := func() int {
		if sharedCodec >= 0 {
			return sharedCodec
		}
		return r.Intn(len(c15Codecs))
	}
	// a struct type that this process has never seen, shared by the reflection-path writers of the scenario
	fresh := c15FreshType(c.Seed, c.Case, r)

	var tasks []*c15Task
	var kinds []string
	for i := 0; i < nTasks; i++ {
		var t *c15Task
		switch k := r.Intn(12); k {
		case 0, 1:
			t = c15WriterTask(gen.New(r.U64()), gen.Pick(r, types), pickCodec())
		case 2:
			// reflection-path writers come in groups: the first use of the type is what is contended
			for j := 0; j < 3; j++ {
				ft := c15AnyWriterTask(gen.New(r.U64()), fresh, pickCodec())
				tasks = append(tasks, ft)
				kinds = append(kinds, ft.kind)
			}
			continue
		case 3, 4:
			t = c15SharedFileTask(gen.New(r.U64()), gen.Pick(r, types), pickCodec(), false)
		case 5:
			t = c15ColumnWritersTask(gen.New(r.U64()), gen.Pick(r, types), pickCodec())
		case 6:
			t = c15RowGroupsTask(gen.New(r.U64()), gen.Pick(r, types), pickCodec())
		case 7:
			t = c15SharedSchemaTask(gen.New(r.U64()), gen.Pick(r, types))
		case 8:
			t = c15EncCodecTask(gen.New(r.U64()), pickCodec())
		case 9:
			t = c15BufferTask(gen.New(r.U64()))
		case 10:
			t = c15ConversionTask(gen.New(r.U64()), gen.Pick(r, types))
		default:
			t = c15SharedFileTask(gen.New(r.U64()), gen.Pick(r, types), pickCodec(), true)
		}
		tasks = append(tasks, t)
		kinds = append(kinds, t.kind)
	}
	sort.Strings(kinds)
	c.D("tasks", fmt.Sprint(kinds))
	c.D("shared_codec", sharedCodec)
	c.D("sseed", r.U64()%1000000)
	for _, t := range tasks {
		c.Obs("kind_"+t.kind, 1)
	}
	c.Obs("scenarios", 1)

	parquet.VerifSetYieldHook(c15Yield)
	parquet.VerifSetPoolHook(c15PoolMon.event)
	ci0, oi0, bf0 := parquet.VerifCASLosses()
	oldProcs := runtime.GOMAXPROCS(0)
	defer func() {
		runtime.GOMAXPROCS(oldProcs)
		c15YieldMode.Store(0)
		parquet.VerifSetYieldHook(nil)
		parquet.VerifSetPoolHook(nil)
	}()
	hits0, acted0, gor0, lazy0 := c15YieldHits.Load(), c15YieldActed.Load(), c15Goroutines.Load(), c15LazyLoads.Load()

	type result struct {
		dig map[string]string
		err error
	}
	runAll := func(conc bool) []result {
		res := make([]result, len(tasks))
		fs := make([]func() error, len(tasks))
		for i := range tasks {
			i := i
			fs[i] = func() error {
				defer func() {
					if p := recover(); p != nil {
						res[i].err = &c15Panic{val: p, stack: string(debug.Stack())}
					}
				}()
				res[i].dig, res[i].err = tasks[i].run(conc)
				return nil
			}
		}
		par(conc, fs)
		return res
	}
	report := func(phase string, i int, e error) {
		keys := map[string]any{"kind": tasks[i].kind, "phase": phase}
		if p, ok := e.(*c15Panic); ok {
			keys["func"] = topRepoFrame(p.stack)
			c.Fail("c15.panic", keys, "task %d (%s), %s run: panic: %v\n%s", i, tasks[i].kind, phase, p.val, trimStack(p.stack))
			return
		}
		c.Fail("c15.error", keys, "task %d (%s), %s run: %v", i, tasks[i].kind, phase, e)
	}

	// round 0: concurrent, everything fresh
	procs := []int{16, 1, 2, 4}
	rounds := 3
	if c.Thorough() {
		rounds = 5
	}
	var concRes [][]result
	var concDesc []string
	doConc := func(round int) {
		p := procs[(round+c.Case)%len(procs)]
		mode := int64((round + c.Case/4) % 3)
		if round == 0 {
			p, mode = 16, int64(c.Case%3)
		}
		if raceEnabled {
			// the race-detector runtime of this toolchain crashed twice in 1598 cases inside runtime.GOMAXPROCS
			// (SIGSEGV in startTheWorld, no library frame): the race build keeps the number of Ps it started with
			p = runtime.GOMAXPROCS(0)
		} else {
			runtime.GOMAXPROCS(p)
		}
		c15YieldMode.Store(mode)
		c.Obs(fmt.Sprintf("gomaxprocs_%d", p), 1)
		c.Obs([]string{"yield_profile_off", "yield_profile_gosched", "yield_profile_sleep"}[mode], 1)
		concRes = append(concRes, runAll(true))
		concDesc = append(concDesc, fmt.Sprintf("concurrent round %d (GOMAXPROCS=%d, yield profile %d)", round, p, mode))
		c.Obs("concurrent_rounds", 1)
		c15YieldMode.Store(0)
	}
	doConc(0)
	runtime.GOMAXPROCS(oldProcs)
	serial := runAll(false)
	for round := 1; round <= rounds; round++ {
		doConc(round)
	}
	runtime.GOMAXPROCS(oldProcs)

	for i := range tasks {
		if serial[i].err != nil {
			report("serial", i, serial[i].err)
			return
		}
	}
	for ri, res := range concRes {
		for i := range tasks {
			if res[i].err != nil {
				report("concurrent", i, res[i].err)
				return
			}
			for name, want := range serial[i].dig {
				got, ok := res[i].dig[name]
				if !ok || got != want {
					c.Fail("c15.diverges", map[string]any{"kind": tasks[i].kind, "what": digestClass(name)}, "task %d (%s): %q differs from the serial run in %s: serial %s, concurrent %s (present=%v)", i, tasks[i].kind, name, concDesc[ri], want, got, ok)
					return
				}
				c.Obs("task_digests_compared", 1)
			}
			if len(res[i].dig) != len(serial[i].dig) {
				c.Fail("c15.diverges", map[string]any{"kind": tasks[i].kind, "what": "count"}, "task %d (%s): %d results in %s, %d serially", i, tasks[i].kind, len(res[i].dig), concDesc[ri], len(serial[i].dig))
				return
			}
		}
	}
	gets, puts, reuses, maxHeld, problems := c15PoolMon.drain()
	for _, p := range problems {
		c.Fail("c15.pool_token", map[string]any{}, "%s", p)
	}
	c.Obs("pool_gets", int(gets))
	c.Obs("pool_puts", int(puts))
	c.Obs("pool_reuses", int(reuses))
	c.Obs("pool_max_buffers_held_at_once", int(maxHeld))
	ci1, oi1, bf1 := parquet.VerifCASLosses()
	c.Obs("lazy_publication_races_lost", int(ci1-ci0+oi1-oi0+bf1-bf0))
	c.Obs("yield_points_hit", int(c15YieldHits.Load()-hits0))
	c.Obs("yields_injected", int(c15YieldActed.Load()-acted0))
	c.Obs("goroutines_started", int(c15Goroutines.Load()-gor0))
	c.Obs("lazy_index_loads_under_contention", int(c15LazyLoads.Load()-lazy0))
}

func digestClass(name string) string {
	for i, ch := range name {
		if ch >= '0' && ch <= '9' {
			return name[:i]
		}
	}
	return name
}

// ---- fresh struct types (reflect.StructOf), new to the process for every (seed, case)

type c15Fresh struct {
	typ    reflect.Type
	schema func() *parquet.Schema
}

func c15FreshType(seed uint64, cas int, r *gen.Rand) *c15Fresh {
	n := r.Range(3, 40)
	if r.P(30) {
		n = r.Range(100, 250) // a wide type: populating its field map takes long enough to be overtaken
	}
	fields := make([]reflect.StructField, 0, n)
	kinds := []reflect.Type{reflect.TypeOf(int64(0)), reflect.TypeOf(int32(0)), reflect.TypeOf(""), reflect.TypeOf(float64(0)), reflect.TypeOf(true), reflect.TypeOf([]byte(nil))}
	for i := 0; i < n; i++ {
		t := gen.Pick(r, kinds)
		tag := fmt.Sprintf(`parquet:"f%d_%d_%d"`, seed%1000, cas, i)
		if r.P(30) && t.Kind() != reflect.Slice {
			tag = fmt.Sprintf(`parquet:"f%d_%d_%d,optional"`, seed%1000, cas, i)
		}
		fields = append(fields, reflect.StructField{Name: fmt.Sprintf("F%d_%d_%d", seed%1000, cas, i), Type: t, Tag: reflect.StructTag(tag)})
	}
	t := reflect.StructOf(fields)
	return &c15Fresh{typ: t, schema: func() *parquet.Schema { return parquet.SchemaOf(reflect.New(t).Interface()) }}
}

func c15FreshRows(r *gen.Rand, t reflect.Type, n int) []any {
	rows := make([]any, n)
	for i := range rows {
		v := reflect.New(t).Elem()
		for f := 0; f < t.NumField(); f++ {
			fv := v.Field(f)
			switch fv.Kind() {
			case reflect.Int64, reflect.Int32:
				fv.SetInt(int64(r.Intn(1000)) - 500)
			case reflect.String:
				fv.SetString(fmt.Sprintf("s%d", r.Intn(50)))
			case reflect.Float64:
				fv.SetFloat(float64(r.Intn(1000)) / 8)
			case reflect.Bool:
				fv.SetBool(r.Bool())
			case reflect.Slice:
				fv.SetBytes(r.Bytes(r.Intn(12)))
			}
		}
		rows[i] = v.Interface()
	}
	return rows
}

func c15WriterOpts(r *gen.Rand, codec int) func() []parquet.WriterOption {
	pageSize := gen.Pick(r, []int{256, 1024, 8192, 64 * 1024})
	version := gen.Pick(r, []int{1, 2})
	maxRows := int64(gen.Pick(r, []int{40, 150, 1000000}))
	return func() []parquet.WriterOption {
		return []parquet.WriterOption{parquet.Compression(c15Codecs[codec].codec), parquet.PageBufferSize(pageSize), parquet.DataPageVersion(version), parquet.MaxRowsPerRowGroup(maxRows)}
	}
}

// 1. independent typed writer
func c15WriterTask(r *gen.Rand, te *typeEntry, codec int) *c15Task {
	rows := genRows(r, te, r.Range(20, 400), genOpts{NoHuge: true, SingleEntryMaps: true})
	opts := c15WriterOpts(r, codec)
	split := r.Intn(rows.Len() + 1)
	return &c15Task{kind: "writer", run: func(bool) (map[string]string, error) {
		var buf bytes.Buffer
		w := te.ops.NewWriter(&buf, opts()...)
		if _, err := te.ops.Write(w, rows.Slice(0, split)); err != nil {
			return nil, err
		}
		if _, err := te.ops.Write(w, rows.Slice(split, rows.Len())); err != nil {
			return nil, err
		}
		if err := w.Close(); err != nil {
			return nil, err
		}
		return map[string]string{"file": dg(buf.Bytes())}, nil
	}}
}

// 2. reflection-path writer of a type new to the process
func c15AnyWriterTask(r *gen.Rand, ft *c15Fresh, codec int) *c15Task {
	rows := c15FreshRows(r, ft.typ, r.Range(5, 120))
	opts := c15WriterOpts(r, codec)
	mode := r.Intn(3)
	return &c15Task{kind: "any_writer_fresh_type", run: func(bool) (map[string]string, error) {
		var buf bytes.Buffer
		schema := ft.schema()
		switch mode {
		case 0:
			w := parquet.NewGenericWriter[any](&buf, append(opts(), schema)...)
			if _, err := w.Write(rows); err != nil {
				return nil, err
			}
			if err := w.Close(); err != nil {
				return nil, err
			}
		case 1:
			w := parquet.NewWriter(&buf, append(opts(), schema)...)
			for _, row := range rows {
				if err := w.Write(row); err != nil {
					return nil, err
				}
			}
			if err := w.Close(); err != nil {
				return nil, err
			}
		default:
			b := parquet.NewBuffer(schema)
			for _, row := range rows {
				if err := b.Write(row); err != nil {
					return nil, err
				}
			}
			w := parquet.NewWriter(&buf, append(opts(), schema)...)
			if _, err := w.WriteRowGroup(b); err != nil {
				return nil, err
			}
			if err := w.Close(); err != nil {
				return nil, err
			}
		}
		out := map[string]string{"file": dg(buf.Bytes())}
		// and read it back through the reflection path
		f, err := openBytes(buf.Bytes())
		if err != nil {
			return nil, err
		}
		rd := parquet.NewReader(f, schema)
		h := sha256.New()
		for {
			v := reflect.New(ft.typ)
			if err := rd.Read(v.Interface()); err != nil {
				if err == io.EOF {
					break
				}
				return nil, err
			}
			fmt.Fprintf(h, "%v\n", v.Elem().Interface())
		}
		rd.Close()
		out["rows"] = hex.EncodeToString(h.Sum(nil)[:8])
		return out, nil
	}}
}

// c15File writes a file with small pages, page index and bloom filters.
func c15File(r *gen.Rand, te *typeEntry, codec int) ([]byte, reflect.Value, error) {
	rows := genRows(r, te, r.Range(60, 500), genOpts{NoHuge: true, SingleEntryMaps: true})
	var filters []parquet.BloomFilterColumn
	for _, p := range te.ops.Schema().Columns() {
		if r.P(60) {
			filters = append(filters, parquet.SplitBlockFilter(10, p...))
		}
	}
	opts := []parquet.WriterOption{parquet.Compression(c15Codecs[codec].codec), parquet.PageBufferSize(gen.Pick(r, []int{128, 512, 4096})), parquet.MaxRowsPerRowGroup(int64(gen.Pick(r, []int{50, 200, 100000}))), parquet.DataPageVersion(gen.Pick(r, []int{1, 2}))}
	if len(filters) > 0 {
		opts = append(opts, parquet.BloomFilters(filters...))
	}
	var buf bytes.Buffer
	w := te.ops.NewWriter(&buf, opts...)
	if _, err := te.ops.Write(w, rows); err != nil {
		return nil, rows, err
	}
	if err := w.Close(); err != nil {
		return nil, rows, err
	}
	return buf.Bytes(), rows, nil
}

func digestPages(pages parquet.Pages) (string, error) {
	defer pages.Close()
	h := sha256.New()
	vals := make([]parquet.Value, 97)
	for {
		p, err := pages.ReadPage()
		if err != nil {
			if err == io.EOF {
				break
			}
			return "", err
		}
		fmt.Fprintf(h, "page rows=%d values=%d nulls=%d\n", p.NumRows(), p.NumValues(), p.NumNulls())
		vr := p.Values()
		for {
			n, err := vr.ReadValues(vals)
			for _, v := range vals[:n] {
				fmt.Fprintf(h, "%+v|", v)
			}
			if err != nil {
				if err == io.EOF {
					break
				}
				parquet.Release(p)
				return "", err
			}
		}
		parquet.Release(p)
	}
	return hex.EncodeToString(h.Sum(nil)[:8]), nil
}

// 3. N goroutines on one freshly opened File
func c15SharedFileTask(r *gen.Rand, te *typeEntry, codec int, async bool) *c15Task {
	data, _, ferr := c15File(r, te, codec)
	kind := "shared_file"
	if async {
		kind = "async_seek"
	}
	if ferr != nil {
		return &c15Task{kind: kind, run: func(bool) (map[string]string, error) { return nil, fmt.Errorf("preparing the file: %w", ferr) }}
	}
	lazy := r.P(75)
	readBuf := gen.Pick(r, []int{64, 4096})
	nJobs := r.Range(4, 12)
	type job struct {
		kind int
		a, b int
		plan []int
	}
	jobs := make([]job, nJobs)
	for i := range jobs {
		jobs[i] = job{kind: r.Intn(8), a: r.Intn(1 << 20), b: r.Intn(1 << 20)}
		if async {
			jobs[i].kind = 7
		}
		for k := 0; k < 12; k++ {
			jobs[i].plan = append(jobs[i].plan, r.Intn(1<<20))
		}
	}
	// probe values for the bloom filters: what is in the file plus some that is not
	return &c15Task{kind: kind, run: func(conc bool) (map[string]string, error) {
		fopts := []parquet.FileOption{parquet.ReadBufferSize(readBuf)}
		if lazy {
			fopts = append(fopts, parquet.SkipPageIndex(true), parquet.SkipBloomFilters(true))
		}
		if async {
			fopts = append(fopts, parquet.FileReadMode(parquet.ReadModeAsync))
		}
		f, err := openBytes(data, fopts...)
		if err != nil {
			return nil, err
		}
		if lazy && conc {
			c15LazyLoads.Add(1)
		}
		rgs := f.RowGroups()
		out := map[string]string{}
		var mu sync.Mutex
		set := func(k, v string) { mu.Lock(); out[k] = v; mu.Unlock() }
		var ptrMu sync.Mutex
		ptrs := map[string]any{} // (chunk, what) -> the published value every goroutine must see
		samePtr := func(key string, v any) error {
			ptrMu.Lock()
			defer ptrMu.Unlock()
			if old, ok := ptrs[key]; ok {
				if old != v {
					return fmt.Errorf("%s: two callers observed different published values (%p, %p)", key, old, v)
				}
			} else {
				ptrs[key] = v
			}
			return nil
		}
		fs := make([]func() error, len(jobs))
		for ji := range jobs {
			ji, j := ji, jobs[ji]
			name := fmt.Sprintf("job%d.k%d", ji, j.kind)
			fs[ji] = func() error {
				if len(rgs) == 0 {
					set(name, "empty")
					return nil
				}
				rg := rgs[j.a%len(rgs)]
				ccs := rg.ColumnChunks()
				switch j.kind {
				case 0: // all rows through a typed reader
					rd := te.ops.NewReader(f)
					rows, err := readRowsAll(rd, 1+j.b%200)
					rd.Close()
					if err != nil {
						return err
					}
					set(name, digestRows(rows))
				case 1: // rows of one row group
					rows, err := rowGroupRows(rg, 1+j.b%100)
					if err != nil {
						return err
					}
					set(name, digestRows(rows))
				case 2: // pages of one column chunk
					d, err := digestPages(ccs[j.b%len(ccs)].Pages())
					if err != nil {
						return err
					}
					set(name, d)
				case 3: // column index and offset index of every chunk of the row group
					h := sha256.New()
					for ci, cc := range ccs {
						cidx, err := cc.ColumnIndex()
						if err != nil && err != parquet.ErrMissingColumnIndex {
							return err
						}
						oidx, err2 := cc.OffsetIndex()
						if err2 != nil && err2 != parquet.ErrMissingOffsetIndex {
							return err2
						}
						if cidx != nil {
							if e := samePtr(fmt.Sprintf("rg%d.col%d.column_index", j.a%len(rgs), ci), cidx); e != nil {
								return e
							}
							fmt.Fprintf(h, "ci pages=%d asc=%v desc=%v\n", cidx.NumPages(), cidx.IsAscending(), cidx.IsDescending())
							for p := 0; p < cidx.NumPages(); p++ {
								fmt.Fprintf(h, "%d %v %+v %+v\n", cidx.NullCount(p), cidx.NullPage(p), cidx.MinValue(p), cidx.MaxValue(p))
							}
						}
						if oidx != nil {
							if e := samePtr(fmt.Sprintf("rg%d.col%d.offset_index", j.a%len(rgs), ci), oidx); e != nil {
								return e
							}
							for p := 0; p < oidx.NumPages(); p++ {
								fmt.Fprintf(h, "%d %d %d\n", oidx.Offset(p), oidx.CompressedPageSize(p), oidx.FirstRowIndex(p))
							}
						}
					}
					set(name, hex.EncodeToString(h.Sum(nil)[:8]))
				case 4: // bloom filter answers
					h := sha256.New()
					for ci, cc := range ccs {
						bf := cc.BloomFilter()
						if bf == nil {
							continue
						}
						if e := samePtr(fmt.Sprintf("rg%d.col%d.bloom", j.a%len(rgs), ci), bf); e != nil {
							return e
						}
						fmt.Fprintf(h, "size=%d\n", bf.Size())
						for _, probe := range j.plan {
							var v parquet.Value
							switch cc.Type().Kind() {
							case parquet.Boolean:
								v = parquet.BooleanValue(probe%2 == 0)
							case parquet.Int32:
								v = parquet.Int32Value(int32(probe%64) - 32)
							case parquet.Int64:
								v = parquet.Int64Value(int64(probe%64) - 32)
							case parquet.Float:
								v = parquet.FloatValue(float32(probe % 16))
							case parquet.Double:
								v = parquet.DoubleValue(float64(probe % 16))
							case parquet.ByteArray:
								v = parquet.ByteArrayValue([]byte(fmt.Sprintf("s%d", probe%50)))
							default:
								continue
							}
							ok, err := bf.Check(v)
							if err != nil {
								return err
							}
							fmt.Fprintf(h, "%v", ok)
						}
					}
					set(name, hex.EncodeToString(h.Sum(nil)[:8]))
				case 5: // raw ReadAt
					n := 1 + j.b%4096
					off := int64(j.a) % f.Size()
					b := make([]byte, n)
					k, err := f.ReadAt(b, off)
					if err != nil && err != io.EOF {
						return err
					}
					set(name, dg(b[:k]))
				case 6: // pages of a file-level column (all row groups)
					leaves := c15Leaves(f.Root())
					d, err := digestPages(leaves[j.b%len(leaves)].Pages())
					if err != nil {
						return err
					}
					set(name, d)
				default: // reader with seeks
					rd := te.ops.NewReader(f)
					total := rd.NumRows()
					h := sha256.New()
					buf := make([]parquet.Row, 17)
					for _, p := range j.plan {
						if total == 0 {
							break
						}
						pos := int64(p) % total
						if err := rd.SeekToRow(pos); err != nil {
							rd.Close()
							return err
						}
						n, err := rd.ReadRows(buf[:1+p%17])
						if err != nil && err != io.EOF {
							rd.Close()
							return err
						}
						fmt.Fprintf(h, "seek %d -> %d rows %s\n", pos, n, digestRows(buf[:n]))
					}
					rd.Close()
					set(name, hex.EncodeToString(h.Sum(nil)[:8]))
				}
				return nil
			}
		}
		if err := par(conc, fs); err != nil {
			return nil, err
		}
		return out, nil
	}}
}

var c15LazyLoads atomic.Int64

func c15Leaves(col *parquet.Column) []*parquet.Column {
	if col.Leaf() {
		return []*parquet.Column{col}
	}
	var out []*parquet.Column
	for _, ch := range col.Columns() {
		out = append(out, c15Leaves(ch)...)
	}
	return out
}

func c15Deconstruct(schema *parquet.Schema, rows reflect.Value) []parquet.Row {
	out := make([]parquet.Row, rows.Len())
	for i := range out {
		out[i] = schema.Deconstruct(nil, rows.Index(i).Addr().Interface())
	}
	return out
}

// 4. one goroutine per ColumnWriter
func c15ColumnWritersTask(r *gen.Rand, te *typeEntry, codec int) *c15Task {
	rows := genRows(r, te, r.Range(20, 300), genOpts{NoHuge: true, SingleEntryMaps: true})
	schema := te.ops.Schema()
	prows := c15Deconstruct(schema, rows)
	ncols := len(schema.Columns())
	cols := make([][]parquet.Value, ncols)
	for _, row := range prows {
		for _, v := range row {
			cols[v.Column()] = append(cols[v.Column()], v)
		}
	}
	opts := c15WriterOpts(r, codec)
	return &c15Task{kind: "column_writers", run: func(conc bool) (map[string]string, error) {
		var buf bytes.Buffer
		var o []parquet.WriterOption
		for _, x := range opts() {
			o = append(o, x)
		}
		o = append(o, parquet.MaxRowsPerRowGroup(1<<40)) // the application is responsible for equal row counts; no automatic splits
		w := te.ops.NewWriter(&buf, o...)
		cws := w.ColumnWriters()
		if len(cws) != ncols {
			return nil, fmt.Errorf("%d column writers for %d columns", len(cws), ncols)
		}
		fs := make([]func() error, ncols)
		for ci := range cws {
			ci := ci
			fs[ci] = func() error {
				n, err := cws[ci].WriteRowValues(cols[ci])
				if err != nil {
					return err
				}
				if n != len(prows) {
					return fmt.Errorf("column %d: WriteRowValues reported %d rows for %d", ci, n, len(prows))
				}
				return cws[ci].Close()
			}
		}
		if err := par(conc, fs); err != nil {
			return nil, err
		}
		if err := w.Close(); err != nil {
			return nil, err
		}
		out := map[string]string{"file": dg(buf.Bytes())}
		f, err := openBytes(buf.Bytes())
		if err != nil {
			return nil, err
		}
		back, err := fileRows(f, 64)
		if err != nil {
			return nil, err
		}
		out["rows"] = digestRows(back)
		if digestRows(prows) != out["rows"] {
			return nil, fmt.Errorf("rows read back differ from the rows written through the column writers")
		}
		return out, nil
	}}
}

// 5. row groups filled concurrently, committed in order
func c15RowGroupsTask(r *gen.Rand, te *typeEntry, codec int) *c15Task {
	rows := genRows(r, te, r.Range(20, 300), genOpts{NoHuge: true, SingleEntryMaps: true})
	schema := te.ops.Schema()
	prows := c15Deconstruct(schema, rows)
	k := r.Range(2, 6)
	pageSize := gen.Pick(r, []int{256, 4096})
	return &c15Task{kind: "row_groups", run: func(conc bool) (map[string]string, error) {
		var buf bytes.Buffer
		w := te.ops.NewWriter(&buf, parquet.Compression(c15Codecs[codec].codec), parquet.PageBufferSize(pageSize))
		var rgs []*parquet.ConcurrentRowGroupWriter
		var parts [][2]int
		for i := 0; i < k; i++ {
			lo, hi := i*len(prows)/k, (i+1)*len(prows)/k
			if lo == hi {
				continue
			}
			rgs = append(rgs, w.BeginRowGroup())
			parts = append(parts, [2]int{lo, hi})
		}
		fs := make([]func() error, len(rgs))
		for i := range rgs {
			i := i
			fs[i] = func() error {
				part := prows[parts[i][0]:parts[i][1]]
				for lo := 0; lo < len(part); lo += 33 {
					hi := lo + 33
					if hi > len(part) {
						hi = len(part)
					}
					if _, err := rgs[i].WriteRows(part[lo:hi]); err != nil {
						return err
					}
				}
				return nil
			}
		}
		if err := par(conc, fs); err != nil {
			return nil, err
		}
		for _, rg := range rgs {
			if _, err := rg.Commit(); err != nil {
				return nil, err
			}
		}
		if err := w.Close(); err != nil {
			return nil, err
		}
		out := map[string]string{"file": dg(buf.Bytes())}
		f, err := openBytes(buf.Bytes())
		if err != nil {
			return nil, err
		}
		back, err := fileRows(f, 64)
		if err != nil {
			return nil, err
		}
		if digestRows(back) != digestRows(prows) {
			return nil, fmt.Errorf("rows read back differ from the rows written (row groups out of order or damaged)")
		}
		out["rows"] = digestRows(back)
		return out, nil
	}}
}

// 6. a fresh Schema shared by goroutines
func c15SharedSchemaTask(r *gen.Rand, te *typeEntry) *c15Task {
	rows := genRows(r, te, r.Range(10, 120), genOpts{NoHuge: true, SingleEntryMaps: true})
	ref := te.ops.Schema()
	prows := c15Deconstruct(ref, rows)
	nJobs := r.Range(3, 10)
	jk := make([]int, nJobs)
	for i := range jk {
		jk[i] = r.Intn(4)
	}
	leaves := ref.Columns()
	var sortCols []parquet.SortingColumn
	for _, p := range leaves {
		if len(sortCols) < 2 && r.P(50) {
			if lf, ok := ref.Lookup(p...); ok && lf.MaxRepetitionLevel == 0 {
				if r.Bool() {
					sortCols = append(sortCols, parquet.Ascending(p...))
				} else {
					sortCols = append(sortCols, parquet.Descending(p...))
				}
			}
		}
	}
	return &c15Task{kind: "shared_schema", run: func(conc bool) (map[string]string, error) {
		// a Schema value nobody has used yet: its conversion functions, state and caches are built on first use
		schema := parquet.NewSchema(ref.Name(), ref)
		out := map[string]string{}
		var mu sync.Mutex
		fs := make([]func() error, nJobs)
		for ji := range jk {
			ji := ji
			name := fmt.Sprintf("job%d.k%d", ji, jk[ji])
			fs[ji] = func() error {
				var d string
				switch jk[ji] {
				case 0:
					d = digestRows(c15Deconstruct(schema, rows))
				case 1:
					h := sha256.New()
					for _, row := range prows {
						v := reflect.New(te.Type)
						if err := schema.Reconstruct(v.Interface(), row); err != nil {
							return err
						}
						for _, x := range ref.Deconstruct(nil, v.Interface()) {
							fmt.Fprintf(h, "%+v|", x)
						}
					}
					d = hex.EncodeToString(h.Sum(nil)[:8])
				case 2:
					if len(sortCols) == 0 {
						d = "nosort"
						break
					}
					cmp := schema.Comparator(sortCols...)
					h := sha256.New()
					for i := 0; i+1 < len(prows); i++ {
						fmt.Fprintf(h, "%d", cmp(prows[i], prows[i+1]))
					}
					d = hex.EncodeToString(h.Sum(nil)[:8])
				default:
					h := sha256.New()
					for _, p := range leaves {
						lf, ok := schema.Lookup(p...)
						fmt.Fprintf(h, "%v %d %d %d|", ok, lf.ColumnIndex, lf.MaxDefinitionLevel, lf.MaxRepetitionLevel)
					}
					fmt.Fprintf(h, "%s", schema.String())
					d = hex.EncodeToString(h.Sum(nil)[:8])
				}
				mu.Lock()
				out[name] = d
				mu.Unlock()
				return nil
			}
		}
		if err := par(conc, fs); err != nil {
			return nil, err
		}
		return out, nil
	}}
}

// 7. shared Encoding and Codec values
func c15EncCodecTask(r *gen.Rand, codec int) *c15Task {
	type job struct {
		enc  encoding.Encoding
		name string
		i32  []int32
		i64  []int64
		ba   [][]byte
		raw  []byte
	}
	encs := []struct {
		name string
		enc  encoding.Encoding
		kind int // 0 int32, 1 int64, 2 byte array
	}{
		{"plain.i32", &parquet.Plain, 0}, {"plain.i64", &parquet.Plain, 1}, {"plain.ba", &parquet.Plain, 2},
		{"delta.i32", &parquet.DeltaBinaryPacked, 0}, {"delta.i64", &parquet.DeltaBinaryPacked, 1},
		{"dlba", &parquet.DeltaLengthByteArray, 2}, {"dba", &parquet.DeltaByteArray, 2},
		{"bss.i32", &parquet.ByteStreamSplit, 0}, {"bss.i64", &parquet.ByteStreamSplit, 1},
	}
	nJobs := r.Range(4, 12)
	jobs := make([]job, nJobs)
	kinds := make([]int, nJobs)
	for i := range jobs {
		e := gen.Pick(r, encs)
		n := r.Range(0, 600)
		jobs[i] = job{enc: e.enc, name: e.name}
		kinds[i] = e.kind
		switch e.kind {
		case 0:
			for k := 0; k < n; k++ {
				jobs[i].i32 = append(jobs[i].i32, r.Int32())
			}
		case 1:
			for k := 0; k < n; k++ {
				jobs[i].i64 = append(jobs[i].i64, r.Int64())
			}
		default:
			for k := 0; k < n; k++ {
				jobs[i].ba = append(jobs[i].ba, []byte(fmt.Sprintf("v%d-%d", r.Intn(40), r.Intn(3))))
			}
		}
		jobs[i].raw = codecInput(r, false)
	}
	cd := c15Codecs[codec].codec
	return &c15Task{kind: "enc_codec", run: func(conc bool) (map[string]string, error) {
		out := map[string]string{}
		var mu sync.Mutex
		fs := make([]func() error, nJobs)
		for ji := range jobs {
			ji, j := ji, jobs[ji]
			fs[ji] = func() error {
				h := sha256.New()
				switch kinds[ji] {
				case 0:
					enc, err := j.enc.EncodeInt32(nil, j.i32)
					if err != nil {
						return fmt.Errorf("%s: %w", j.name, err)
					}
					dec, err := j.enc.DecodeInt32(nil, enc)
					if err != nil {
						return fmt.Errorf("%s decode: %w", j.name, err)
					}
					if !reflect.DeepEqual(append([]int32{}, dec...), append([]int32{}, j.i32...)) {
						return fmt.Errorf("%s: decode(encode(x)) != x", j.name)
					}
					h.Write(enc)
				case 1:
					enc, err := j.enc.EncodeInt64(nil, j.i64)
					if err != nil {
						return fmt.Errorf("%s: %w", j.name, err)
					}
					dec, err := j.enc.DecodeInt64(nil, enc)
					if err != nil {
						return fmt.Errorf("%s decode: %w", j.name, err)
					}
					if !reflect.DeepEqual(append([]int64{}, dec...), append([]int64{}, j.i64...)) {
						return fmt.Errorf("%s: decode(encode(x)) != x", j.name)
					}
					h.Write(enc)
				default:
					data, offs := flatten(j.ba)
					enc, err := j.enc.EncodeByteArray(nil, data, offs)
					if err != nil {
						return fmt.Errorf("%s: %w", j.name, err)
					}
					d2, o2, err := j.enc.DecodeByteArray(nil, enc, nil)
					if err != nil {
						return fmt.Errorf("%s decode: %w", j.name, err)
					}
					if !bytes.Equal(canonOffsets(d2, o2), canonOffsets(data, offs)) {
						return fmt.Errorf("%s: decode(encode(x)) != x", j.name)
					}
					h.Write(enc)
				}
				cenc, err := cd.Encode(nil, j.raw)
				if err != nil {
					return fmt.Errorf("codec encode: %w", err)
				}
				cdec, err := cd.Decode(nil, cenc)
				if err != nil {
					return fmt.Errorf("codec decode: %w", err)
				}
				if !bytes.Equal(cdec, j.raw) {
					return fmt.Errorf("codec: decode(encode(x)) != x")
				}
				h.Write(cenc)
				mu.Lock()
				out[fmt.Sprintf("job%d.%s", ji, j.name)] = hex.EncodeToString(h.Sum(nil)[:8])
				mu.Unlock()
				return nil
			}
		}
		if err := par(conc, fs); err != nil {
			return nil, err
		}
		return out, nil
	}}
}

// 8. independent sorted buffers
func c15BufferTask(r *gen.Rand) *c15Task {
	var te *typeEntry
	for _, t := range catalogue {
		if t.Name == "c10row" {
			te = t
		}
	}
	rows := genRows(r, te, r.Range(20, 300), genOpts{NoHuge: true, SingleEntryMaps: true})
	desc := r.Bool()
	return &c15Task{kind: "buffer", run: func(bool) (map[string]string, error) {
		col := parquet.Ascending("k1")
		if desc {
			col = parquet.Descending("k1")
		}
		b := te.ops.NewBuffer(parquet.SortingRowGroupConfig(parquet.SortingColumns(col)))
		if _, err := te.ops.BufferWrite(b, rows); err != nil {
			return nil, err
		}
		sort.Stable(b)
		got, err := rowGroupRows(b, 50)
		if err != nil {
			return nil, err
		}
		var buf bytes.Buffer
		w := te.ops.NewWriter(&buf)
		if _, err := w.WriteRowGroup(b); err != nil {
			return nil, err
		}
		if err := w.Close(); err != nil {
			return nil, err
		}
		return map[string]string{"rows": digestRows(got), "file": dg(buf.Bytes())}, nil
	}}
}

// 9. a shared Conversion
func c15ConversionTask(r *gen.Rand, te *typeEntry) *c15Task {
	rows := genRows(r, te, r.Range(20, 200), genOpts{NoHuge: true, SingleEntryMaps: true})
	from := te.ops.Schema()
	fields := from.Fields()
	drop := r.Intn(len(fields))
	g := parquet.Group{}
	for i, f := range fields {
		if i != drop || len(fields) == 1 {
			g[f.Name()] = f
		}
	}
	g["verif_added"] = parquet.Optional(parquet.Int(64))
	to := parquet.NewSchema("target", g)
	prows := c15Deconstruct(from, rows)
	data, _, ferr := func() ([]byte, reflect.Value, error) {
		var buf bytes.Buffer
		w := te.ops.NewWriter(&buf, parquet.MaxRowsPerRowGroup(64), parquet.PageBufferSize(512))
		if _, err := te.ops.Write(w, rows); err != nil {
			return nil, rows, err
		}
		err := w.Close()
		return buf.Bytes(), rows, err
	}()
	nJobs := r.Range(3, 8)
	return &c15Task{kind: "conversion", run: func(conc bool) (map[string]string, error) {
		if ferr != nil {
			return nil, ferr
		}
		conv, err := parquet.Convert(to, from)
		if err != nil {
			return nil, err
		}
		f, err := openBytes(data)
		if err != nil {
			return nil, err
		}
		rgs := f.RowGroups()
		out := map[string]string{}
		var mu sync.Mutex
		fs := make([]func() error, nJobs)
		for ji := 0; ji < nJobs; ji++ {
			ji := ji
			fs[ji] = func() error {
				var d string
				if ji%2 == 0 {
					cp := make([]parquet.Row, len(prows))
					for i := range prows {
						cp[i] = prows[i].Clone()
					}
					h := sha256.New()
					for lo := 0; lo < len(cp); lo += 16 {
						hi := lo + 16
						if hi > len(cp) {
							hi = len(cp)
						}
						n, err := conv.Convert(cp[lo:hi])
						if err != nil {
							return err
						}
						fmt.Fprintf(h, "%s", digestRows(cp[lo:lo+n]))
					}
					d = hex.EncodeToString(h.Sum(nil)[:8])
				} else {
					rg := parquet.ConvertRowGroup(rgs[ji%len(rgs)], conv)
					got, err := rowGroupRows(rg, 40)
					if err != nil {
						return err
					}
					d = digestRows(got)
				}
				mu.Lock()
				out[fmt.Sprintf("job%d", ji)] = d
				mu.Unlock()
				return nil
			}
		}
		if err := par(conc, fs); err != nil {
			return nil, err
		}
		return out, nil
	}}
}
