package main

import (
	"fmt"
	"os"
)

// VERIF_PRINT_SCHEMAS=1 bin/harness-std : print the catalogue's schemas (debug aid)
func maybePrintSchemas() {
	if os.Getenv("VERIF_PRINT_SCHEMAS") == "" {
		return
	}
	for _, t := range catalogue {
		func() {
			defer func() {
				if r := recover(); r != nil {
					fmt.Printf("%s: PANIC %v\n", t.Name, r)
				}
			}()
			fmt.Printf("== %s\n%s\n", t.Name, t.ops.Schema())
		}()
	}
	os.Exit(0)
}
