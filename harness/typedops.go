package main

import (
	"io"
	"reflect"

	"github.com/parquet-go/parquet-go"
)

// Non-generic views of the generic entry points, so that workloads can be
// written once over reflect.Value rows while still calling the real
// compile-time instantiations GenericWriter[T], GenericReader[T], … .

type gwriter interface {
	Close() error
	Flush() error
	Reset(io.Writer)
	WriteRows([]parquet.Row) (int, error)
	WriteRowGroup(parquet.RowGroup) (int64, error)
	SetKeyValueMetadata(k, v string)
	Schema() *parquet.Schema
	ColumnWriters() []*parquet.ColumnWriter
	BeginRowGroup() *parquet.ConcurrentRowGroupWriter
	ReadRowsFrom(parquet.RowReader) (int64, error)
}

type greader interface {
	ReadRows([]parquet.Row) (int, error)
	SeekToRow(int64) error
	Close() error
	NumRows() int64
	Schema() *parquet.Schema
	Reset()
}

type gbuffer interface {
	parquet.RowGroup
	Len() int
	Less(i, j int) bool
	Swap(i, j int)
	Reset()
	WriteRows([]parquet.Row) (int, error)
	WriteRowGroup(parquet.RowGroup) (int64, error)
	Size() int64
}

type growbuffer interface {
	parquet.RowGroup
	Len() int
	Less(i, j int) bool
	Swap(i, j int)
	Reset()
	WriteRows([]parquet.Row) (int, error)
}

type gsortingwriter interface {
	Close() error
	Flush() error
	Reset(io.Writer)
	WriteRows([]parquet.Row) (int, error)
	SetKeyValueMetadata(k, v string)
	Schema() *parquet.Schema
}

type typedOps interface {
	NewRows(n int) reflect.Value // addressable []T of length n
	Schema() *parquet.Schema
	NewWriter(w io.Writer, opts ...parquet.WriterOption) gwriter
	Write(w gwriter, rows reflect.Value) (int, error)
	NewReader(r io.ReaderAt, opts ...parquet.ReaderOption) greader
	NewRowGroupReader(rg parquet.RowGroup, opts ...parquet.ReaderOption) greader
	Read(r greader, rows reflect.Value) (int, error)
	ReadAll(r io.ReaderAt, size int64, opts ...parquet.ReaderOption) (reflect.Value, error) // parquet.Read[T]
	WriteAll(w io.Writer, rows reflect.Value, opts ...parquet.WriterOption) error           // parquet.Write[T]
	NewBuffer(opts ...parquet.RowGroupOption) gbuffer
	BufferWrite(b gbuffer, rows reflect.Value) (int, error)
	NewRowBuffer(opts ...parquet.RowGroupOption) growbuffer
	RowBufferWrite(b growbuffer, rows reflect.Value) (int, error)
	NewSortingWriter(w io.Writer, sortRowCount int64, opts ...parquet.WriterOption) gsortingwriter
	SortingWrite(w gsortingwriter, rows reflect.Value) (int, error)
}

type typedOpsImpl[T any] struct{}

func (typedOpsImpl[T]) NewRows(n int) reflect.Value {
	s := make([]T, n)
	return reflect.ValueOf(&s).Elem()
}
func (typedOpsImpl[T]) Schema() *parquet.Schema { var z T; return parquet.SchemaOf(z) }
func (typedOpsImpl[T]) NewWriter(w io.Writer, opts ...parquet.WriterOption) gwriter {
	return parquet.NewGenericWriter[T](w, opts...)
}
func (typedOpsImpl[T]) Write(w gwriter, rows reflect.Value) (int, error) {
	return w.(*parquet.GenericWriter[T]).Write(rows.Interface().([]T))
}
func (typedOpsImpl[T]) NewReader(r io.ReaderAt, opts ...parquet.ReaderOption) greader {
	return parquet.NewGenericReader[T](r, opts...)
}
func (typedOpsImpl[T]) NewRowGroupReader(rg parquet.RowGroup, opts ...parquet.ReaderOption) greader {
	return parquet.NewGenericRowGroupReader[T](rg, opts...)
}
func (typedOpsImpl[T]) Read(r greader, rows reflect.Value) (int, error) {
	return r.(*parquet.GenericReader[T]).Read(rows.Interface().([]T))
}
func (typedOpsImpl[T]) ReadAll(r io.ReaderAt, size int64, opts ...parquet.ReaderOption) (reflect.Value, error) {
	rows, err := parquet.Read[T](r, size, opts...)
	return reflect.ValueOf(&rows).Elem(), err
}
func (typedOpsImpl[T]) WriteAll(w io.Writer, rows reflect.Value, opts ...parquet.WriterOption) error {
	return parquet.Write[T](w, rows.Interface().([]T), opts...)
}
func (typedOpsImpl[T]) NewBuffer(opts ...parquet.RowGroupOption) gbuffer {
	return parquet.NewGenericBuffer[T](opts...)
}
func (typedOpsImpl[T]) BufferWrite(b gbuffer, rows reflect.Value) (int, error) {
	return b.(*parquet.GenericBuffer[T]).Write(rows.Interface().([]T))
}
func (typedOpsImpl[T]) NewRowBuffer(opts ...parquet.RowGroupOption) growbuffer {
	return parquet.NewRowBuffer[T](opts...)
}
func (typedOpsImpl[T]) RowBufferWrite(b growbuffer, rows reflect.Value) (int, error) {
	return b.(*parquet.RowBuffer[T]).Write(rows.Interface().([]T))
}
func (typedOpsImpl[T]) NewSortingWriter(w io.Writer, n int64, opts ...parquet.WriterOption) gsortingwriter {
	return parquet.NewSortingWriter[T](w, n, opts...)
}
func (typedOpsImpl[T]) SortingWrite(w gsortingwriter, rows reflect.Value) (int, error) {
	return w.(*parquet.SortingWriter[T]).Write(rows.Interface().([]T))
}
