package main

import (
	"fmt"
	"os"

	"github.com/parquet-go/parquet-go"
	"github.com/parquet-go/parquet-go/compress"
	"github.com/parquet-go/parquet-go/encoding"

	"verif/gen"
)

// The writer option matrix (DESIGN §3.1). Every draw returns the options and a
// descriptor (for evidence / replay / known-finding keys).

type optSet struct {
	Opts []parquet.WriterOption
	Desc []string
	// facts other monitors need
	Version     int
	PageBuf     int
	MaxRows     int64
	Codec       compress.Codec
	DictMax     int64
	Encodings   map[parquet.Kind]encoding.Encoding
	PageStats   bool
	BloomPaths  [][]string
	BloomBits   uint
	SizeLimit   int
	SkipBounds  [][]string
	SkipStats   [][]string
	cleanup     []func()
	WriteBuffer int
}

func (o *optSet) Close() {
	for _, f := range o.cleanup {
		f()
	}
}

var allCodecs = []compress.Codec{&parquet.Uncompressed, &parquet.Snappy, &parquet.Gzip, &parquet.Brotli, &parquet.Zstd, &parquet.Lz4Raw}

var allEncodings = []encoding.Encoding{&parquet.Plain, &parquet.RLE, &parquet.RLEDictionary, &parquet.PlainDictionary,
	&parquet.DeltaBinaryPacked, &parquet.DeltaLengthByteArray, &parquet.DeltaByteArray, &parquet.ByteStreamSplit}

var allKinds = []parquet.Kind{parquet.Boolean, parquet.Int32, parquet.Int64, parquet.Int96, parquet.Float, parquet.Double, parquet.ByteArray, parquet.FixedLenByteArray}

func canEnc(e encoding.Encoding, k parquet.Kind) bool {
	if e == encoding.Encoding(&parquet.RLEDictionary) || e == encoding.Encoding(&parquet.PlainDictionary) {
		return true
	}
	switch k {
	case parquet.Boolean:
		return encoding.CanEncodeBoolean(e)
	case parquet.Int32:
		return encoding.CanEncodeInt32(e)
	case parquet.Int64:
		return encoding.CanEncodeInt64(e)
	case parquet.Int96:
		return encoding.CanEncodeInt96(e)
	case parquet.Float:
		return encoding.CanEncodeFloat(e)
	case parquet.Double:
		return encoding.CanEncodeDouble(e)
	case parquet.ByteArray:
		return encoding.CanEncodeByteArray(e)
	case parquet.FixedLenByteArray:
		return encoding.CanEncodeFixedLenByteArray(e)
	}
	return false
}

type optLimits struct {
	NoBloom     bool
	NoFilePool  bool
	Leaves      [][]string // leaf column paths (for bloom filters / skip options)
	ForceCodec  compress.Codec
	NoLz4       bool
	MinPageBuf  int
	NoSkipStats bool
}

// genOptions draws one option combination. i is the case index: the first
// cases sweep single settings so that every option value is certainly covered.
func genOptions(r *gen.Rand, lim optLimits) *optSet {
	o := &optSet{Version: 2, PageBuf: parquet.DefaultPageBufferSize, MaxRows: parquet.DefaultMaxRowsPerRowGroup, Codec: &parquet.Uncompressed,
		DictMax: 0, Encodings: map[parquet.Kind]encoding.Encoding{}, PageStats: true, WriteBuffer: parquet.DefaultWriteBufferSize}
	add := func(opt parquet.WriterOption, desc string, a ...any) {
		o.Opts = append(o.Opts, opt)
		o.Desc = append(o.Desc, fmt.Sprintf(desc, a...))
	}
	if r.P(60) {
		o.Version = gen.Pick(r, []int{1, 2})
		add(parquet.DataPageVersion(o.Version), "v%d", o.Version)
	}
	if r.P(70) {
		o.PageBuf = gen.Pick(r, []int{1, 64, 512, 4096, 65536})
		if o.PageBuf < lim.MinPageBuf {
			o.PageBuf = lim.MinPageBuf
		}
		add(parquet.PageBufferSize(o.PageBuf), "pagebuf=%d", o.PageBuf)
	}
	if r.P(50) {
		o.MaxRows = gen.Pick(r, []int64{1, 7, 100, 1000})
		add(parquet.MaxRowsPerRowGroup(o.MaxRows), "maxrows=%d", o.MaxRows)
	}
	if r.P(40) {
		o.WriteBuffer = gen.Pick(r, []int{0, 1, 4096})
		add(parquet.WriteBufferSize(o.WriteBuffer), "wbuf=%d", o.WriteBuffer)
	}
	if lim.ForceCodec != nil {
		o.Codec = lim.ForceCodec
		add(parquet.Compression(o.Codec), "codec=%s", o.Codec.String())
	} else if r.P(60) {
		o.Codec = gen.Pick(r, allCodecs)
		if lim.NoLz4 && o.Codec == compress.Codec(&parquet.Lz4Raw) {
			o.Codec = &parquet.Snappy
		}
		add(parquet.Compression(o.Codec), "codec=%s", o.Codec.String())
	}
	if r.P(60) {
		n := 1 + r.Intn(3)
		for k := 0; k < n; k++ {
			kind := gen.Pick(r, allKinds)
			enc := gen.Pick(r, allEncodings)
			if !canEnc(enc, kind) {
				continue
			}
			if enc == encoding.Encoding(&parquet.RLE) && kind != parquet.Boolean {
				// RLE is specified for booleans (and levels/dictionary indexes) only; the
				// package-level value has no bit width and the writer rejects it at encode time.
				continue
			}
			o.Encodings[kind] = enc
			add(parquet.DefaultEncodingFor(kind, enc), "enc[%s]=%s", kind, enc)
		}
	}
	if r.P(15) {
		// dictionary encoding for every kind (tags excepted)
		for _, kind := range allKinds {
			o.Encodings[kind] = &parquet.RLEDictionary
		}
		add(parquet.DefaultEncoding(&parquet.RLEDictionary), "enc[*]=RLE_DICTIONARY")
	}
	if r.P(40) {
		o.DictMax = gen.Pick(r, []int64{1, 64, 1024})
		add(parquet.DictionaryMaxBytes(o.DictMax), "dictmax=%d", o.DictMax)
	}
	if r.P(40) {
		o.PageStats = r.Bool()
		add(parquet.DataPageStatistics(o.PageStats), "pagestats=%v", o.PageStats)
	}
	if r.P(20) {
		b := r.Bool()
		add(parquet.DeprecatedDataPageStatistics(b), "deprstats=%v", b)
	}
	if r.P(30) {
		o.SizeLimit = gen.Pick(r, []int{1, 16, 64})
		lim := o.SizeLimit
		add(parquet.ColumnIndexSizeLimit(func([]string) int { return lim }), "cisize=%d", o.SizeLimit)
	}
	if len(lim.Leaves) > 0 && !lim.NoSkipStats {
		if r.P(15) {
			p := gen.Pick(r, lim.Leaves)
			o.SkipBounds = append(o.SkipBounds, p)
			add(parquet.SkipPageBounds(p...), "skipbounds=%v", p)
		}
		if r.P(10) {
			p := gen.Pick(r, lim.Leaves)
			o.SkipStats = append(o.SkipStats, p)
			add(parquet.SkipPageStatistics(p...), "skipstats=%v", p)
		}
	}
	if len(lim.Leaves) > 0 && !lim.NoBloom && r.P(35) {
		o.BloomBits = gen.Pick(r, []uint{1, 8, 10, 64})
		var fs []parquet.BloomFilterColumn
		n := 1 + r.Intn(3)
		seen := map[string]bool{}
		for k := 0; k < n; k++ {
			p := gen.Pick(r, lim.Leaves)
			if seen[fmt.Sprint(p)] {
				continue
			}
			seen[fmt.Sprint(p)] = true
			o.BloomPaths = append(o.BloomPaths, p)
			fs = append(fs, parquet.SplitBlockFilter(o.BloomBits, p...))
		}
		add(parquet.BloomFilters(fs...), "bloom(%d)=%v", o.BloomBits, o.BloomPaths)
		if r.P(30) {
			add(parquet.BloomFilterCompression(&parquet.Gzip), "bloomgzip")
		}
		if r.P(30) {
			add(parquet.DeferBloomFiltersWithBuffers(parquet.NewBufferPool()), "bloomdefer")
		}
	}
	if r.P(25) {
		switch r.Intn(3) {
		case 0:
			add(parquet.ColumnPageBuffers(parquet.NewBufferPool()), "pagepool=mem")
		case 1:
			add(parquet.ColumnPageBuffers(parquet.NewChunkBufferPool(64)), "pagepool=chunk64")
		case 2:
			if lim.NoFilePool {
				break
			}
			dir, err := os.MkdirTemp("", "verif-pages-")
			if err == nil {
				o.cleanup = append(o.cleanup, func() { os.RemoveAll(dir) })
				add(parquet.ColumnPageBuffers(parquet.NewFileBufferPool(dir, "pages.*")), "pagepool=file")
			}
		}
	}
	if r.P(20) {
		add(parquet.KeyValueMetadata("verif.k", "v"), "kv")
	}
	return o
}

// leafPaths returns the leaf column paths of a schema in column order.
func leafPaths(s *parquet.Schema) [][]string { return s.Columns() }
