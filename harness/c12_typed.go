package main

import (
	"bytes"
	"errors"
	"io"
	"reflect"

	"github.com/parquet-go/parquet-go"

	"verif/gen"
)

// C12 through the compile-time entry points Read[T] and GenericReader[T]: a file written with a
// catalogue type is read with a hand-written target type obtained from it by deleting, permuting
// and adding fields (the typed reader has its own conversion code path).

type c12InnerSub struct {
	B     string  `parquet:"b,optional"`
	Extra *string `parquet:"extra"`
}

type c12InnerAdd struct {
	Z int32  `parquet:"z"`
	A int64  `parquet:"a"`
	W *int64 `parquet:"w"`
}

type c12FlatSub struct {
	S     string  `parquet:"s"`
	ID    int64   `parquet:"id"`
	Added *int64  `parquet:"added_opt"`
	F64   float64 `parquet:"f64"`
	I32   int32   `parquet:"i32"`
}

type c12FlatReq struct {
	ID       int64    `parquet:"id"`
	AddedReq int64    `parquet:"added_req"`
	U        [16]byte `parquet:"u,uuid"`
	B        bool     `parquet:"b"`
	AddedStr string   `parquet:"added_str"`
}

type c12NestedSub struct {
	Name string        `parquet:"name"`
	P    *c12InnerSub  `parquet:"p"`
	ID   int64         `parquet:"id"`
	L    []c12InnerAdd `parquet:"l"`
}

type c12NestedDrop struct {
	ID  int64        `parquet:"id"`
	In  c12InnerAdd  `parquet:"in"`
	New *c12InnerSub `parquet:"new"`
}

type c12ListsSub struct {
	I   []int32  `parquet:"i,list"`
	ID  int64    `parquet:"id"`
	New []string `parquet:"new,list"`
}

type c12OptSub struct {
	S  string  `parquet:"s,optional"`
	X  float64 `parquet:"x,optional"`
	ID int64   `parquet:"id"`
	B  bool    `parquet:"b,optional"`
}

type c12PtrSub struct {
	U64 *uint64 `parquet:"u64"`
	ID  int64   `parquet:"id"`
	N   *string `parquet:"n"`
	A   *int64  `parquet:"a"`
}

type c12TypedPair struct {
	src  string
	name string
	dst  reflect.Type
	read func(data []byte, batch int, generic bool) (reflect.Value, error)
}

func c12Reader[D any](data []byte, batch int, generic bool) (reflect.Value, error) {
	if !generic {
		rows, err := parquet.Read[D](bytes.NewReader(data), int64(len(data)))
		return reflect.ValueOf(rows), err
	}
	f, err := openBytes(data)
	if err != nil {
		return reflect.Value{}, err
	}
	gr := parquet.NewGenericReader[D](f)
	defer gr.Close()
	var out []D
	buf := make([]D, batch)
	for {
		n, err := gr.Read(buf)
		out = append(out, buf[:n]...)
		if err != nil {
			if errors.Is(err, io.EOF) {
				return reflect.ValueOf(out), nil
			}
			return reflect.ValueOf(out), err
		}
		if n == 0 {
			return reflect.ValueOf(out), errors.New("Read made no progress")
		}
	}
}

func c12Pair[D any](src, name string) c12TypedPair {
	var z D
	return c12TypedPair{src: src, name: name, dst: reflect.TypeOf(z), read: c12Reader[D]}
}

var c12TypedPairs = []c12TypedPair{
	c12Pair[c12FlatSub]("flat", "flat_subset_permuted_added_optional"),
	c12Pair[c12FlatReq]("flat", "flat_added_required"),
	c12Pair[c12NestedSub]("nested", "nested_edits_in_group_and_list"),
	c12Pair[c12NestedDrop]("nested", "nested_added_group"),
	c12Pair[c12ListsSub]("lists", "lists_added_list"),
	c12Pair[c12OptSub]("optscalar", "optional_scalars"),
	c12Pair[c12PtrSub]("ptr", "pointers"),
}

func c12Typed(c *Ctx) {
	r := c.R
	pair := c12TypedPairs[(c.Case/8)%len(c12TypedPairs)]
	te := typeByName(pair.src)
	n := gen.Pick(r, []int{1, 30, 200, 700})
	rows := genRows(r, te, n, genOpts{NoHuge: true, SmallLists: true})
	os := genOptions(r, optLimits{Leaves: leafPaths(te.ops.Schema()), NoBloom: true})
	defer os.Close()
	generic := r.Bool()
	via := "Read[T]"
	if generic {
		via = "GenericReader[T]"
	}
	c.D("type", pair.src)
	c.D("target", pair.name)
	c.D("via", via)
	c.D("rows", n)
	c.D("opts", os.Desc)
	keys := map[string]any{"via": via, "target": pair.name}
	c.Obs("via_typed_"+map[bool]string{false: "read", true: "generic_reader"}[generic], 1)
	data, err := writeTyped(te, rows, genWriteHist(r, n), os.Opts)
	if err != nil {
		c.Fail("harness.write", nil, "%v", err)
		return
	}
	var got reflect.Value
	var rerr error
	if c.guard("c12.panic", keys, func() { got, rerr = pair.read(data, gen.Pick(r, []int{1, 7, 64, 1000}), generic) }) {
		return
	}
	if rerr != nil {
		c.Fail("c12.compatible_rejected", keys, "reading a %s file as %s through %s failed: %v", pair.src, pair.name, via, rerr)
		return
	}
	if got.Len() != n {
		c.Fail("c12.row_count", keys, "%d rows written, %d read as %s through %s", n, got.Len(), pair.name, via)
		return
	}
	for i := 0; i < n; i++ {
		want := project(rows.Index(i), pair.dst)
		if ok, diff := eqNorm(want, got.Index(i), ""); !ok {
			c.Fail("c12.projection_mismatch", keys, "row %d read as %s through %s differs from the projection of the source row: %s", i, pair.name, via, diff)
			return
		}
	}
	c.Obs("projections_checked", n)
}
