package main

import (
	"bytes"
	"fmt"

	"github.com/parquet-go/parquet-go"
	"github.com/parquet-go/parquet-go/format"

	"verif/gen"
)

// C06: page search by value never misses a page that contains the value.

const (
	c06Alphabet  = 5
	c06PageKinds = 1 + c06Alphabet*(c06Alphabet+1)/2 // null page + every [lo,hi]
	c06Chunk     = 1500                              // layouts per enumerated case
)

func c06EnumCount(maxPages int) int {
	total := 0
	p := 1
	for n := 1; n <= maxPages; n++ {
		p *= c06PageKinds
		total += p
	}
	return total
}

func c06MaxPages(tier string) int {
	if tier == "thorough" {
		return 5
	}
	return 4
}

func init() {
	register(&PropDef{
		ID:    "C06",
		Level: "exploration",
		Cases: func(t string) int {
			enum := (c06EnumCount(c06MaxPages(t)) + c06Chunk - 1) / c06Chunk
			if t == "thorough" {
				return enum + 20000
			}
			return enum + 2000
		},
		Batch:  func(t string) int { return 40 },
		Floors: []string{"layouts_enumerated", "layouts_random", "layouts_from_files", "layouts_from_schema_files", "multi_row_group_indexes", "multi_row_group_ascending", "logical_dba", "logical_dfl", "logical_u32", "logical_u64", "logical_f64", "probes", "null_page_between_ordered_pages", "order_ascending", "order_descending", "order_unordered", "truncated_bounds", "duplicate_bounds", "probe_absent", "probe_present"},
		Rule: "three sources of column indexes: (a) EXHAUSTIVE enumeration of all layouts of 1..4 pages (5 in thorough) where each page is a null page or [lo,hi] over a 5-value alphabet, with every boundary-order claim that is true for the layout, " +
			"passed through NewColumnIndex; (b) PRNG layouts of up to 200 pages (int32 and byte-array with truncated/incremented bounds, duplicates, overlaps); (c) column indexes of files the writer produced (typed struct files; explicit-schema files with signed decimals, unsigned integers, floats, timestamps over 1..5 row groups, probed per row group and through the concatenated index of parquet.MultiRowGroup). Every alphabet value, every bound and its neighbours are probed with " +
			"Search and Find(CompareNullsFirst/Last). Oracle from the generated page contents: result <= first page containing the value; a result < NumPages has bounds containing the value; NumPages only if no page's bounds contain it. Distinct = layout hash",
		Assumptions: []string{"boundary-order claims fed to the search are computed truthfully from the layout per the spec (null pages ignored), as the statement restricts itself to indexes the writer can produce"},
		Run:         runC06,
	})
}

type c06Page struct {
	null   bool
	lo, hi int64
	// values present in the page (subset of [lo,hi] including lo and hi)
	has map[int64]bool
}

func i32le(v int64) []byte {
	return []byte{byte(v), byte(v >> 8), byte(v >> 16), byte(v >> 24)}
}

// trueOrders returns the boundary orders that are true for the layout.
func trueOrders(pages []c06Page) []format.BoundaryOrder {
	asc, desc := true, true
	prev := -1
	for i, p := range pages {
		if p.null {
			continue
		}
		if prev >= 0 {
			q := pages[prev]
			if q.lo > p.lo || q.hi > p.hi {
				asc = false
			}
			if q.lo < p.lo || q.hi < p.hi {
				desc = false
			}
		}
		prev = i
	}
	out := []format.BoundaryOrder{format.Unordered}
	if asc {
		out = append(out, format.Ascending)
	}
	if desc {
		out = append(out, format.Descending)
	}
	return out
}

func c06Index(pages []c06Page, order format.BoundaryOrder) *format.ColumnIndex {
	ci := &format.ColumnIndex{BoundaryOrder: order}
	for _, p := range pages {
		ci.NullPages = append(ci.NullPages, p.null)
		if p.null {
			ci.MinValues = append(ci.MinValues, []byte{})
			ci.MaxValues = append(ci.MaxValues, []byte{})
			ci.NullCounts = append(ci.NullCounts, 3)
		} else {
			ci.MinValues = append(ci.MinValues, i32le(p.lo))
			ci.MaxValues = append(ci.MaxValues, i32le(p.hi))
			ci.NullCounts = append(ci.NullCounts, 0)
		}
	}
	return ci
}

// checkSearch applies the oracle to one (layout, order, probe).
func c06Check(c *Ctx, src string, pages []c06Page, order format.BoundaryOrder, index parquet.ColumnIndex, v int64, val parquet.Value, typ parquet.Type) bool {
	n := len(pages)
	firstContaining, firstInBounds := n, n
	for i, p := range pages {
		if p.null {
			continue
		}
		if p.has[v] && firstContaining == n {
			firstContaining = i
		}
		if p.lo <= v && v <= p.hi && firstInBounds == n {
			firstInBounds = i
		}
	}
	if firstContaining < n {
		c.Obs("probe_present", 1)
	} else {
		c.Obs("probe_absent", 1)
	}
	results := map[string]int{
		"Search":                  parquet.Search(index, val, typ),
		"Find(CompareNullsLast)":  parquet.Find(index, val, parquet.CompareNullsLast(typ.Compare)),
		"Find(CompareNullsFirst)": parquet.Find(index, val, parquet.CompareNullsFirst(typ.Compare)),
	}
	c.Obs("probes", len(results))
	for api, r := range results {
		keys := map[string]any{"api": api, "order": order.String(), "source": src}
		desc := func() string { return c06Describe(pages, order, v) }
		switch {
		case r < 0 || r > n:
			c.Fail("c06.out_of_range", keys, "%s returned %d for %d pages: %s", api, r, n, desc())
			return false
		case firstContaining < n && r > firstContaining:
			keys["null_page_before_hit"] = c06NullBefore(pages, firstContaining)
			c.Fail("c06.missed_page", keys, "%s returned %d but the value occurs in page %d: %s", api, r, firstContaining, desc())
			return false
		case r < n && (pages[r].null || v < pages[r].lo || v > pages[r].hi):
			c.Fail("c06.page_excludes_value", keys, "%s returned page %d whose bounds do not contain the value: %s", api, r, desc())
			return false
		case r == n && firstInBounds < n:
			keys["null_page_before_hit"] = c06NullBefore(pages, firstInBounds)
			c.Fail("c06.false_absent", keys, "%s returned NumPages although page %d's bounds contain the value: %s", api, firstInBounds, desc())
			return false
		}
	}
	return true
}

func c06NullBefore(pages []c06Page, i int) bool {
	for _, p := range pages[:i] {
		if p.null {
			return true
		}
	}
	return false
}

func c06Describe(pages []c06Page, order format.BoundaryOrder, v int64) string {
	var b bytes.Buffer
	fmt.Fprintf(&b, "order=%s probe=%d pages=", order, v)
	for i, p := range pages {
		if i > 24 {
			fmt.Fprintf(&b, "…(%d pages)", len(pages))
			break
		}
		if p.null {
			b.WriteString("[null]")
		} else {
			fmt.Fprintf(&b, "[%d..%d]", p.lo, p.hi)
		}
	}
	return b.String()
}

func runC06(c *Ctx) {
	r := c.R
	maxPages := c06MaxPages(c.Tier)
	enumCases := (c06EnumCount(maxPages) + c06Chunk - 1) / c06Chunk
	typ := parquet.Int32Type
	switch {
	case c.Case < enumCases:
		// slice [lo,hi) of the exhaustive enumeration
		lo, hi := c.Case*c06Chunk, (c.Case+1)*c06Chunk
		c.D("source", "enumeration")
		c.D("slice", fmt.Sprintf("%d..%d", lo, hi))
		idx := 0
		for n := 1; n <= maxPages && idx < hi; n++ {
			total := 1
			for k := 0; k < n; k++ {
				total *= c06PageKinds
			}
			if idx+total <= lo {
				idx += total
				continue
			}
			for code := 0; code < total && idx < hi; code, idx = code+1, idx+1 {
				if idx < lo {
					continue
				}
				pages := make([]c06Page, n)
				x := code
				for k := 0; k < n; k++ {
					kind := x % c06PageKinds
					x /= c06PageKinds
					if kind == 0 {
						pages[k] = c06Page{null: true}
						continue
					}
					kind--
					// decode (lo,hi) pair index
					l, h := 0, 0
					for l = 0; l < c06Alphabet; l++ {
						cnt := c06Alphabet - l
						if kind < cnt {
							h = l + kind
							break
						}
						kind -= cnt
					}
					pages[k] = c06Page{lo: int64(l), hi: int64(h), has: map[int64]bool{int64(l): true, int64(h): true}}
				}
				c.Obs("layouts_enumerated", 1)
				if !c06Layout(c, "enumeration", pages, typ, -1, c06Alphabet) {
					return
				}
			}
		}
	case (c.Case-enumCases)%5 == 4:
		if (c.Case-enumCases)%10 == 9 {
			c06FromSchemaFile(c, r)
		} else {
			c06FromFile(c, r)
		}
	default:
		// PRNG layout, up to 200 pages
		n := gen.Pick(r, []int{1, 2, 3, 5, 8, 13, 50, 200})
		shape := r.Intn(4)
		c.D("source", "random")
		c.D("pages", n)
		c.D("shape", []string{"ascending", "descending", "unordered", "ascending-overlap"}[shape])
		pages := make([]c06Page, n)
		cur := int64(r.Intn(10))
		for i := range pages {
			if r.P(20) {
				pages[i] = c06Page{null: true}
				continue
			}
			var lo, hi int64
			switch shape {
			case 0:
				lo = cur + int64(r.Intn(3))
				hi = lo + int64(r.Intn(4))
				cur = hi
				if r.P(30) {
					cur = lo // duplicates / overlap with the next page
				}
			case 1:
				hi = 1000 - cur - int64(r.Intn(3))
				lo = hi - int64(r.Intn(4))
				cur = 1000 - lo
				if r.P(30) {
					cur = 1000 - hi
				}
			case 2:
				lo = int64(r.Intn(40))
				hi = lo + int64(r.Intn(10))
			default:
				lo = cur
				hi = lo + int64(r.Intn(6))
				cur = lo + int64(r.Intn(2))
			}
			has := map[int64]bool{lo: true, hi: true}
			for v := lo; v <= hi; v++ {
				if r.Bool() {
					has[v] = true
				}
			}
			pages[i] = c06Page{lo: lo, hi: hi, has: has}
		}
		c.D("lseed", r.U64()%1000000)
		c.Obs("layouts_random", 1)
		c06Layout(c, "random", pages, typ, -2, 1003)
	}
}

// c06Layout probes one layout under every true order claim.
func c06Layout(c *Ctx, src string, pages []c06Page, typ parquet.Type, probeLo, probeHi int64) bool {
	orders := trueOrders(pages)
	// null page strictly between two non-null pages
	seenNonNull, nullAfter := false, false
	for _, p := range pages {
		if !p.null && nullAfter {
			c.Obs("null_page_between_ordered_pages", 1)
			break
		}
		if !p.null {
			seenNonNull = true
		} else if seenNonNull {
			nullAfter = true
		}
	}
	dup := false
	for i := 1; i < len(pages); i++ {
		if !pages[i].null && !pages[i-1].null && pages[i].lo == pages[i-1].lo && pages[i].hi == pages[i-1].hi {
			dup = true
		}
	}
	if dup {
		c.Obs("duplicate_bounds", 1)
	}
	// probe set: all values of small alphabets, bounds ±1 for large ones
	probes := map[int64]bool{}
	if probeHi-probeLo <= 12 {
		for v := probeLo; v <= probeHi; v++ {
			probes[v] = true
		}
	} else {
		for _, p := range pages {
			if !p.null {
				for _, v := range []int64{p.lo - 1, p.lo, p.lo + 1, p.hi - 1, p.hi, p.hi + 1} {
					probes[v] = true
				}
			}
		}
		probes[probeLo], probes[probeHi] = true, true
	}
	for _, order := range orders {
		switch order {
		case format.Ascending:
			c.Obs("order_ascending", 1)
		case format.Descending:
			c.Obs("order_descending", 1)
		default:
			c.Obs("order_unordered", 1)
		}
		index := parquet.NewColumnIndex(parquet.Int32, c06Index(pages, order))
		ok := true
		c.guard("c06.panic", map[string]any{"order": order.String(), "source": src}, func() {
			for v := range probes {
				if !c06Check(c, src, pages, order, index, v, parquet.Int32Value(int32(v)), typ) {
					ok = false
					return
				}
			}
		})
		if !ok || c.Failed() {
			return false
		}
	}
	return true
}

type c06Row struct {
	ID int64    `parquet:"id"`
	K  *int32   `parquet:"k"`
	S  *string  `parquet:"s"`
	F  *[8]byte `parquet:"f"`
}

func init() { reg[c06Row]("c06row") }

// c06FromFile searches the column indexes of a file the writer produced
// (sorted / reverse-sorted / unsorted keys with null runs, truncated byte-array bounds).
func c06FromFile(c *Ctx, r *gen.Rand) {
	te := typeByName("c06row")
	n := gen.Pick(r, []int{50, 300, 1000})
	rows := te.ops.NewRows(n)
	shape := r.Intn(4)
	nulls := r.NullPattern(n)
	limit := gen.Pick(r, []int{1, 4, 16})
	for i := 0; i < n; i++ {
		row := rows.Index(i).Addr().Interface().(*c06Row)
		row.ID = int64(i)
		if !nulls[i] {
			continue
		}
		var k int32
		switch shape {
		case 0:
			k = int32(i / 3)
		case 1:
			k = int32((n - i) / 3)
		case 3:
			// ordered page minimums, unordered maximums: an outlier early in the chunk
			k = int32(i / 3)
			if i%97 == 5 && i < n/2 {
				k = int32(n)
			}
		default:
			k = int32(r.Intn(50))
		}
		row.K = &k
		var fb [8]byte
		copy(fb[:], fmt.Sprintf("%08d", k))
		row.F = &fb
		s := fmt.Sprintf("%s%06d", gen.Pick(r, []string{"", "key/", "\xff\xff\xff\xff\xff"}), k)
		row.S = &s
	}
	c.D("source", "file")
	c.D("rows", n)
	c.D("shape", []string{"ascending", "descending", "unordered", "outlier"}[shape])
	c.D("cisize", limit)
	data, err := writeTyped(te, rows, []wop{{Lo: 0, Hi: n}}, []parquet.WriterOption{parquet.PageBufferSize(gen.Pick(r, []int{32, 128, 1024})),
		parquet.ColumnIndexSizeLimit(func([]string) int { return limit })})
	if err != nil {
		c.Fail("harness.write", nil, "%v", err)
		return
	}
	f, err := openBytes(data)
	if err != nil {
		c.Fail("harness.open", nil, "%v", err)
		return
	}
	c.Obs("layouts_from_files", 1)
	for _, rg := range f.RowGroups() {
		for ci, col := range []int{1, 2, 3} {
			chunk := rg.ColumnChunks()[col]
			index, err := chunk.ColumnIndex()
			if err != nil || index == nil {
				continue
			}
			typ := chunk.Type()
			// ground truth: values per page
			pages := chunk.Pages()
			var contents [][]parquet.Value
			for {
				p, err := pages.ReadPage()
				if err != nil {
					break
				}
				vals := make([]parquet.Value, p.NumValues())
				k, _ := p.Values().ReadValues(vals)
				var nn []parquet.Value
				for _, v := range vals[:k] {
					if !v.IsNull() {
						nn = append(nn, v.Clone())
					}
				}
				contents = append(contents, nn)
				parquet.Release(p)
			}
			pages.Close()
			if len(contents) != index.NumPages() {
				continue
			}
			if ci == 1 && limit < 10 {
				c.Obs("truncated_bounds", 1)
			}
			if index.IsAscending() {
				c.Obs("order_ascending", 1)
			} else if index.IsDescending() {
				c.Obs("order_descending", 1)
			} else {
				c.Obs("order_unordered", 1)
			}
			// probe every value written
			for pi, vs := range contents {
				for _, v := range vs {
					first := pi
					for q := 0; q < pi; q++ {
						for _, w := range contents[q] {
							if typ.Compare(w, v) == 0 {
								first = q
								break
							}
						}
						if first != pi {
							break
						}
					}
					got := parquet.Search(index, v, typ)
					c.Obs("probes", 1)
					c.Obs("probe_present", 1)
					if got > first {
						c.Fail("c06.missed_page", map[string]any{"api": "Search", "source": "file", "column": col}, "Search returned %d but value %v occurs in page %d of %d (written file, column %d, ascending=%v descending=%v)", got, v, first, index.NumPages(), col, index.IsAscending(), index.IsDescending())
						return
					}
					if got < index.NumPages() && !index.NullPage(got) && (typ.Compare(v, index.MinValue(got)) < 0 || typ.Compare(v, index.MaxValue(got)) > 0) {
						c.Fail("c06.page_excludes_value", map[string]any{"api": "Search", "source": "file", "column": col}, "Search returned page %d whose bounds [%v,%v] exclude %v", got, index.MinValue(got), index.MaxValue(got), v)
						return
					}
				}
			}
		}
	}
}
