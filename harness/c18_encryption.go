package main

import (
	"bytes"
	"encoding/binary"
	"encoding/hex"
	"errors"
	"fmt"
	"io"
	"reflect"
	"strings"

	"github.com/parquet-go/parquet-go"

	"verif/gen"
)

// C18: encrypted files round-trip, leak no plaintext and authenticate every module.

func init() {
	register(&PropDef{
		ID:    "C18",
		Level: "exploration",
		Cases: func(t string) int {
			if t == "thorough" {
				return 16000
			}
			return 1280
		},
		Batch: func(t string) int { return 32 },
		Floors: []string{"roundtrips", "mode_encrypted_footer", "mode_plaintext_footer", "keys_footer_only", "keys_per_column", "missing_column_key_checks", "missing_key_column_access_checks", "invalid_column_key_checks", "leak_scans", "markers_searched", "tamper_byte_flips", "tamper_truncations", "tamper_module_swaps", "tamper_swaps_256_apart", "wide_ordinal_files", "encrypted_seeks",
			"tamper_cross_file_transplants", "tamper_wrong_key", "tamper_signature_stripped", "writer_reuse_after_reset", "write_rowgroup_from_encrypted_source", "envelope_walks", "entry_write_rows", "entry_write_rowgroup_buffer", "entry_write_rowgroup_plain_file", "entry_begin_rowgroup"},
		Rule: "case = ({encrypted footer, signed plaintext footer} x {footer key only, per-column keys} x v1/v2 x codecs x page index / bloom filters x 1..n row groups x {fresh writer, writer reused through Reset after a file with another number of row groups} x write entry point {typed Write, WriteRows, WriteRowGroup(buffer), WriteRowGroup(plaintext file), BeginRowGroup/Commit}; " +
			"string values are unique 16-byte high-entropy markers). (a) round trip with the right keys equals the rows written; a reader lacking a column key gets an error for that column, never zeros; (b) no marker of an encrypted column (values or statistics) occurs in the raw bytes; " +
			"(c) fault enumeration over the module envelopes found by an independent length-prefix walk: byte flips in nonce/ciphertext/tag/length of PRNG modules, truncation, swaps of equal-length modules, transplant of the same module position from another file written with an independent file identifier " +
			"(both fresh configs and one shared *EncryptionConfig), wrong key of the right length: the read must fail or return exactly the clean rows. Distinct = descriptor hash",
		Assumptions: []string{"module boundaries come from walking 4-byte length prefixes from offset 4 to the footer; a walk that does not land on the footer makes the tamper part of the case inconclusive (counted)", "column names in a plaintext footer are allowed to be visible"},
		Run:         runC18,
	})
}

type c18Row struct {
	ID     int64  `parquet:"id"`
	Secret string `parquet:"secret"`
	Other  string `parquet:"other"`
	N      int64  `parquet:"n"`
	Clear  string `parquet:"clear"`
}

func init() { reg[c18Row]("c18row") }

type mapKeys struct {
	footer  []byte
	columns map[string][]byte
	missing map[string]bool
}

func (k *mapKeys) FooterKey([]byte) ([]byte, error) { return k.footer, nil }
func (k *mapKeys) ColumnKey(path []string, _ []byte) ([]byte, error) {
	p := strings.Join(path, ".")
	if k.missing[p] {
		return nil, fmt.Errorf("no key for %s: %w", p, parquet.ErrKeyNotFound)
	}
	if key, ok := k.columns[p]; ok {
		return key, nil
	}
	return nil, fmt.Errorf("no key for %s: %w", p, parquet.ErrKeyNotFound)
}

func c18Rows(r *gen.Rand, n int, tag byte) []c18Row {
	rows := make([]c18Row, n)
	for i := range rows {
		m := r.Bytes(8)
		rows[i] = c18Row{ID: int64(i), Secret: fmt.Sprintf("S%c%s", tag, hex.EncodeToString(m)), Other: fmt.Sprintf("O%c%s", tag, hex.EncodeToString(r.Bytes(8))),
			N: int64(0x5EC0000000000000) | int64(r.U64()>>8), Clear: fmt.Sprintf("clear-%d", i)}
	}
	return rows
}

// walkModules splits the region [4, end) into length-prefixed modules.
func walkModules(data []byte, end int) ([][2]int, bool) {
	var mods [][2]int
	pos := 4
	for pos < end {
		if pos+4 > end {
			return mods, false
		}
		l := int(binary.LittleEndian.Uint32(data[pos:]))
		if l < 28 || pos+4+l > end {
			return mods, false
		}
		mods = append(mods, [2]int{pos, 4 + l})
		pos += 4 + l
	}
	return mods, pos == end
}

// c18InvalidColumnKey: a ColumnKeys entry without a usable key (nil after a failed lookup, empty, wrong size). The writer may
// refuse - at construction, Write or Close - but what it writes must not hold the column's values in clear.
func c18InvalidColumnKey(c *Ctx, r *gen.Rand) {
	rows := c18Rows(r, 20, 'k')
	bad := [][]byte{nil, {}, r.Bytes(5), r.Bytes(17)}[r.Intn(4)]
	encFooter := r.Bool()
	cfg := &parquet.EncryptionConfig{FooterKey: r.Bytes(16), EncryptedFooter: encFooter, ColumnKeys: map[string][]byte{"secret": bad}}
	c.D("invalid_column_key_bytes", len(bad))
	c.D("mode", map[bool]string{true: "encrypted_footer", false: "plaintext_footer"}[encFooter])
	var buf bytes.Buffer
	refused := ""
	func() {
		defer func() {
			if p := recover(); p != nil {
				refused = fmt.Sprint("panic: ", p)
			}
		}()
		w := parquet.NewGenericWriter[c18Row](&buf, parquet.WithEncryption(cfg), parquet.Compression(&parquet.Uncompressed))
		if _, err := w.Write(rows); err != nil {
			refused = err.Error()
			return
		}
		if err := w.Close(); err != nil {
			refused = err.Error()
		}
	}()
	for i := range rows {
		if bytes.Contains(buf.Bytes(), []byte(rows[i].Secret)) {
			c.Fail("c18.plaintext_leak", map[string]any{"invalid_column_key": true, "key_bytes": len(bad)}, "ColumnKeys[\"secret\"] holds a %d-byte key: the writer reported %q and the value of row %d is in clear in the %d bytes it wrote", len(bad), refused, i, buf.Len())
			return
		}
	}
	if refused != "" {
		c.Obs("invalid_column_key_refused", 1)
	}
	c.Obs("invalid_column_key_checks", 1)
}

func runC18(c *Ctx) {
	r := c.R
	if c.Case%16 == 11 {
		c18InvalidColumnKey(c, r)
		return
	}
	n := gen.Pick(r, []int{10, 60, 200})
	// every eighth case has more than 256 pages per column chunk, or more than 256 row groups:
	// the ordinals in the AAD of a module are 16-bit values, both bytes of which matter
	wideOrdinals := c.Case%8 == 5
	if wideOrdinals {
		n = gen.Pick(r, []int{300, 600})
	}
	rows := c18Rows(r, n, 'a')
	encFooter := c.Case%2 == 0
	perColumn := (c.Case/2)%2 == 0
	footerKey := r.Bytes(gen.Pick(r, []int{16, 24, 32}))
	cfg := &parquet.EncryptionConfig{FooterKey: footerKey, EncryptedFooter: encFooter}
	keys := &mapKeys{footer: footerKey, columns: map[string][]byte{}, missing: map[string]bool{}}
	if perColumn {
		cfg.ColumnKeys = map[string][]byte{"secret": r.Bytes(16), "n": r.Bytes(32)}
		for k, v := range cfg.ColumnKeys {
			keys.columns[k] = v
		}
		c.Obs("keys_per_column", 1)
	} else {
		c.Obs("keys_footer_only", 1)
	}
	if r.P(30) {
		cfg.AadPrefix = r.Bytes(5)
	}
	version := 1 + r.Intn(2)
	codec := gen.Pick(r, allCodecs[:3]) // uncompressed, snappy, gzip
	wopts := []parquet.WriterOption{parquet.WithEncryption(cfg), parquet.DataPageVersion(version), parquet.Compression(codec), parquet.PageBufferSize(gen.Pick(r, []int{256, 4096}))}
	desc := []string{fmt.Sprintf("v%d", version), codec.String()}
	if wideOrdinals {
		if r.Bool() {
			wopts = append(wopts, parquet.PageBufferSize(1))
			desc = append(desc, "one-row-pages")
		} else {
			wopts = append(wopts, parquet.MaxRowsPerRowGroup(1))
			desc = append(desc, "one-row-rowgroups")
		}
		c.Obs("wide_ordinal_files", 1)
	} else if r.P(50) {
		wopts = append(wopts, parquet.MaxRowsPerRowGroup(int64(n/3+1)))
		desc = append(desc, "multi-rg")
	}
	if r.P(40) {
		wopts = append(wopts, parquet.BloomFilters(parquet.SplitBlockFilter(10, "secret"), parquet.SplitBlockFilter(10, "clear")))
		desc = append(desc, "bloom")
	}
	reuse := r.P(35)
	mode := map[bool]string{true: "encrypted_footer", false: "plaintext_footer"}[encFooter]
	c.D("mode", mode)
	c.D("per_column_keys", perColumn)
	c.D("file", strings.Join(desc, " "))
	c.D("rows", n)
	c.D("reuse", reuse)
	c.D("kseed", r.U64()%1000000)
	kd := map[string]any{"mode": mode, "per_column": perColumn, "reuse": reuse}
	c.Obs("mode_"+mode, 1)

	// how the rows get into the encrypted writer
	entry := "typed_write"
	if c.Case%5 == 3 {
		entry = []string{"write_rows", "write_rowgroup_buffer", "write_rowgroup_plain_file", "begin_rowgroup"}[(c.Case/5)%4]
	}
	c.D("entry", entry)
	kd["entry"] = entry
	c.Obs("entry_"+entry, 1)
	errConcurrentRejected := errors.New("concurrent row group rejected")
	var sink *bytes.Buffer
	write := func(rows []c18Row, opts []parquet.WriterOption) ([]byte, error) {
		var buf bytes.Buffer
		sink = &buf
		w := parquet.NewGenericWriter[c18Row](&buf, opts...)
		if reuse {
			// a previous file with another number of row groups, then Reset
			prev := c18Rows(gen.New(7), 90, 'p')
			var junk bytes.Buffer
			w.Reset(&junk)
			for lo := 0; lo < len(prev); lo += 30 {
				if _, err := w.Write(prev[lo : lo+30]); err != nil {
					return nil, fmt.Errorf("previous file: %w", err)
				}
				if err := w.Flush(); err != nil {
					return nil, fmt.Errorf("previous file: %w", err)
				}
			}
			if err := w.Close(); err != nil {
				return nil, fmt.Errorf("previous file: %w", err)
			}
			w.Reset(&buf)
			c.Obs("writer_reuse_after_reset", 1)
		}
		switch entry {
		case "typed_write":
			for lo := 0; lo < len(rows); lo += 25 {
				if _, err := w.Write(rows[lo:min(len(rows), lo+25)]); err != nil {
					return nil, err
				}
			}
		case "write_rows", "begin_rowgroup":
			prows := make([]parquet.Row, len(rows))
			for i := range rows {
				prows[i] = w.Schema().Deconstruct(nil, &rows[i])
			}
			if entry == "write_rows" {
				if _, err := w.WriteRows(prows); err != nil {
					return nil, err
				}
				break
			}
			// row groups prepared with BeginRowGroup and committed in order: the pages must be encrypted
			// like any other, or the writer has to refuse
			for lo := 0; lo < len(prows); lo += 70 {
				rg := w.BeginRowGroup()
				if _, err := rg.WriteRows(prows[lo:min(len(prows), lo+70)]); err != nil {
					return nil, fmt.Errorf("%w: WriteRows: %v", errConcurrentRejected, err)
				}
				if _, err := rg.Commit(); err != nil {
					return nil, fmt.Errorf("%w: Commit: %v", errConcurrentRejected, err)
				}
			}
		case "write_rowgroup_buffer":
			b := parquet.NewGenericBuffer[c18Row]()
			if _, err := b.Write(rows); err != nil {
				return nil, err
			}
			if _, err := w.WriteRowGroup(b); err != nil {
				return nil, err
			}
		case "write_rowgroup_plain_file":
			// a plaintext file with otherwise the same options: the verbatim copy must not be taken
			var popts []parquet.WriterOption
			for _, o := range opts {
				if fmt.Sprintf("%T", o) != "*parquet.writerEncryptionOption" {
					popts = append(popts, o)
				}
			}
			var plain bytes.Buffer
			pw := parquet.NewGenericWriter[c18Row](&plain, popts...)
			if _, err := pw.Write(rows); err != nil {
				return nil, err
			}
			if err := pw.Close(); err != nil {
				return nil, err
			}
			pf, err := parquet.OpenFile(bytes.NewReader(plain.Bytes()), int64(plain.Len()))
			if err != nil {
				return nil, err
			}
			for _, rg := range pf.RowGroups() {
				if _, err := w.WriteRowGroup(rg); err != nil {
					return nil, err
				}
			}
		}
		if err := w.Close(); err != nil {
			return nil, err
		}
		return buf.Bytes(), nil
	}
	readAll := func(data []byte, k parquet.KeyRetriever) (got []c18Row, err error) {
		defer func() {
			if p := recover(); p != nil {
				err = fmt.Errorf("PANIC: %v", p)
			}
		}()
		f, err := parquet.OpenFile(bytes.NewReader(data), int64(len(data)), parquet.WithDecryption(k))
		if err != nil {
			return nil, err
		}
		gr := parquet.NewGenericReader[c18Row](f)
		defer gr.Close()
		out := make([]c18Row, f.NumRows()+2)
		total := 0
		for total < len(out) {
			k, err := gr.Read(out[total:])
			total += k
			if err != nil {
				if errors.Is(err, io.EOF) {
					break
				}
				return out[:total], err
			}
			if k == 0 {
				break
			}
		}
		return out[:total], nil
	}
	var data []byte
	var err error
	if c.guard("c18.panic", kd, func() { data, err = write(rows, wopts) }) {
		return
	}
	if errors.Is(err, errConcurrentRejected) {
		// refusing is allowed; what reached the sink must still hold none of the values
		for i := range rows {
			if bytes.Contains(sink.Bytes(), []byte(rows[i].Secret[2:])) {
				c.Fail("c18.plaintext_leak", kd, "an encrypted writer refused a concurrent row group (%v) but the value of column \"secret\" of row %d is in the bytes written", err, i)
				return
			}
		}
		c.Obs("concurrent_rowgroup_refused", 1)
		return
	}
	if err != nil {
		c.Fail("c18.write_error", kd, "writing an encrypted file failed: %v", err)
		return
	}
	// (a) round trip
	got, err := readAll(data, keys)
	if err != nil {
		c.Fail("c18.roundtrip_error", kd, "reading the encrypted file with the right keys failed: %v", err)
		return
	}
	if !reflect.DeepEqual(got, rows) {
		c.Fail("c18.roundtrip_mismatch", kd, "rows read with the right keys differ from the rows written (%d vs %d rows)", len(got), len(rows))
		return
	}
	c.Obs("roundtrips", 1)
	// (a') seek histories on the untampered file: the page ordinals in the AAD follow the position
	if len(rows) > 1 {
		seekErr := func() (err error) {
			defer func() {
				if p := recover(); p != nil {
					err = fmt.Errorf("PANIC: %v", p)
				}
			}()
			fopts := []parquet.FileOption{parquet.WithDecryption(keys)}
			if r.P(30) {
				fopts = append(fopts, parquet.SkipPageIndex(true))
			}
			if r.P(30) {
				fopts = append(fopts, parquet.ReadBufferSize(gen.Pick(r, []int{64, 65536})))
			}
			f, err := parquet.OpenFile(bytes.NewReader(data), int64(len(data)), fopts...)
			if err != nil {
				return err
			}
			gr := parquet.NewGenericReader[c18Row](f)
			defer gr.Close()
			buf := make([]c18Row, 8)
			pos := 0
			for step := 0; step < 12; step++ {
				var k int
				switch r.Intn(4) {
				case 0:
					k = r.Intn(len(rows)) // anywhere
				case 1:
					k = min(len(rows)-1, pos+r.Intn(4)) // just ahead: the target is usually already buffered
				default:
					k = min(len(rows)-1, pos+r.Intn(40))
				}
				if err := gr.SeekToRow(int64(k)); err != nil {
					return fmt.Errorf("SeekToRow(%d): %w", k, err)
				}
				n, err := gr.Read(buf[:1+r.Intn(8)])
				if err != nil && !errors.Is(err, io.EOF) {
					return fmt.Errorf("Read after SeekToRow(%d) (previous position %d): %w", k, pos, err)
				}
				if k+n > len(rows) || !reflect.DeepEqual(buf[:n], rows[k:k+n]) {
					return fmt.Errorf("Read after SeekToRow(%d) returned %d rows that are not rows %d..%d", k, n, k, k+n)
				}
				pos = k + n
				c.Obs("encrypted_seeks", 1)
			}
			return nil
		}()
		if seekErr != nil {
			c.Fail("c18.seek", kd, "seeking in the untampered encrypted file with the right keys: %v", seekErr)
			return
		}
	}
	// reader lacking a column key
	if perColumn {
		partial := &mapKeys{footer: footerKey, columns: keys.columns, missing: map[string]bool{"secret": true}}
		got, err := readAll(data, partial)
		c.Obs("missing_column_key_checks", 1)
		if err == nil {
			for i := range got {
				if got[i].Secret != rows[i].Secret {
					c.Fail("c18.missing_key_data", kd, "a reader without the key of column \"secret\" read the file without error and got %q for row %d (written %q)", got[i].Secret, i, rows[i].Secret)
					return
				}
			}
			c.Fail("c18.missing_key_data", kd, "a reader without the key of column \"secret\" read its plaintext values")
			return
		}
		// the same reader going to the column directly, and copying the row groups into a plaintext file: an error, never
		// an empty column or a "successful" copy
		if pf, err := parquet.OpenFile(bytes.NewReader(data), int64(len(data)), parquet.WithDecryption(partial)); err == nil {
			for gi, rg := range pf.RowGroups() {
				pages := rg.ColumnChunks()[1].Pages()
				p, err := pages.ReadPage()
				if err == nil {
					parquet.Release(p)
				}
				pages.Close()
				if err == nil || errors.Is(err, io.EOF) {
					c.Fail("c18.missing_key_silent", kd, "without the key of column \"secret\", ReadPage on its chunk of row group %d (%d rows) returned err=%v", gi, rg.NumRows(), err)
					return
				}
				var out bytes.Buffer
				w := parquet.NewGenericWriter[c18Row](&out)
				nr, err := w.WriteRowGroup(rg)
				if err == nil {
					err = w.Close()
				}
				if err == nil {
					c.Fail("c18.missing_key_silent", kd, "without the key of column \"secret\", WriteRowGroup of row group %d into a plaintext writer reported %d rows and no error", gi, nr)
					return
				}
			}
			c.Obs("missing_key_column_access_checks", 1)
		}
	}
	// (b) leak scan
	c.Obs("leak_scans", 1)
	for i := range rows {
		for _, m := range []string{rows[i].Secret, rows[i].Other} {
			c.Obs("markers_searched", 1)
			if bytes.Contains(data, []byte(m)) {
				c.Fail("c18.plaintext_leak", kd, "marker %q of an encrypted column appears in clear in the file (%s)", m, mode)
				return
			}
		}
		var nb [8]byte
		binary.LittleEndian.PutUint64(nb[:], uint64(rows[i].N))
		if bytes.Contains(data, nb[:]) {
			c.Fail("c18.plaintext_leak", kd, "the PLAIN encoding of n=%#x appears in clear in the file (%s)", rows[i].N, mode)
			return
		}
	}
	// WriteRowGroup from the encrypted source into a plaintext destination with the same settings
	if c.Case%4 == 1 {
		c.guard("c18.panic", kd, func() {
			f, err := parquet.OpenFile(bytes.NewReader(data), int64(len(data)), parquet.WithDecryption(keys))
			if err != nil {
				c.Fail("c18.roundtrip_error", kd, "OpenFile: %v", err)
				return
			}
			var out bytes.Buffer
			w := parquet.NewGenericWriter[c18Row](&out, wopts[1:]...)
			for _, rg := range f.RowGroups() {
				if _, err := w.WriteRowGroup(rg); err != nil {
					c.Fail("c18.copy_error", kd, "WriteRowGroup from an encrypted source: %v", err)
					return
				}
			}
			if err := w.Close(); err != nil {
				c.Fail("c18.copy_error", kd, "Close: %v", err)
				return
			}
			plain, err := parquet.Read[c18Row](bytes.NewReader(out.Bytes()), int64(out.Len()))
			if err != nil || !reflect.DeepEqual(plain, rows) {
				c.Fail("c18.copy_mismatch", kd, "a plaintext file written by WriteRowGroup from the decrypted source does not read back as the rows written: err=%v", err)
				return
			}
			c.Obs("write_rowgroup_from_encrypted_source", 1)
		})
		if c.Failed() {
			return
		}
	}
	// (c) tampering
	footerLen := int(binary.LittleEndian.Uint32(data[len(data)-8:]))
	end := len(data) - 8 - footerLen
	mods, ok := walkModules(data, end)
	if !ok || len(mods) == 0 {
		// plaintext-footer files may interleave unencrypted structures; only whole-file faults then
		c.Obs("envelope_walk_failed", 1)
		mods = nil
	} else {
		c.Obs("envelope_walks", 1)
	}
	tampered := func(what string, bad []byte) bool {
		got, err := readAll(bad, keys)
		if err != nil {
			return true
		}
		if !reflect.DeepEqual(got, rows) {
			k := map[string]any{"mode": mode, "tamper": what}
			c.Fail("c18.tamper_undetected", k, "%s: the file was read without error and returned rows that differ from the ones written (%d rows)", what, len(got))
			return false
		}
		return true
	}
	if c.guard("c18.panic", kd, func() {
		for t := 0; t < 12 && len(mods) > 0; t++ {
			m := mods[r.Intn(len(mods))]
			bad := append([]byte{}, data...)
			var off int
			switch r.Intn(4) {
			case 0:
				off = m[0] + 4 + r.Intn(12) // nonce
			case 1:
				off = m[0] + m[1] - 1 - r.Intn(16) // tag
			case 2:
				off = m[0] + r.Intn(4) // length prefix
			default:
				off = m[0] + 16 + r.Intn(m[1]-32) // ciphertext
			}
			bad[off] ^= 1 << uint(r.Intn(8))
			c.Obs("tamper_byte_flips", 1)
			if !tampered(fmt.Sprintf("byte flip at offset %d (module at %d, %d bytes)", off, m[0], m[1]), bad) {
				return
			}
		}
		// swaps of equal-length modules
		for t := 0; t < 8 && len(mods) > 1; t++ {
			a, b := mods[r.Intn(len(mods))], mods[r.Intn(len(mods))]
			if a == b || a[1] != b[1] {
				continue
			}
			bad := append([]byte{}, data...)
			copy(bad[a[0]:a[0]+a[1]], data[b[0]:b[0]+b[1]])
			copy(bad[b[0]:b[0]+b[1]], data[a[0]:a[0]+a[1]])
			if bytes.Equal(bad, data) {
				continue
			}
			c.Obs("tamper_module_swaps", 1)
			if !tampered(fmt.Sprintf("swap of the modules at %d and %d (%d bytes each)", a[0], b[0], a[1]), bad) {
				return
			}
		}
		// swaps of equal-length modules whose positions differ by a multiple of 256 (same low ordinal byte)
		if wideOrdinals {
			for t := 0; t < 24 && len(mods) > 300; t++ {
				i := r.Intn(len(mods))
				j := i + 256*gen.Pick(r, []int{1, 2, 3, 4, 5, 6, 8, 10, 12})
				if j >= len(mods) || mods[i][1] != mods[j][1] {
					continue
				}
				a, b := mods[i], mods[j]
				bad := append([]byte{}, data...)
				copy(bad[a[0]:a[0]+a[1]], data[b[0]:b[0]+b[1]])
				copy(bad[b[0]:b[0]+b[1]], data[a[0]:a[0]+a[1]])
				c.Obs("tamper_swaps_256_apart", 1)
				if !tampered(fmt.Sprintf("swap of modules #%d and #%d (%d apart, %d bytes each)", i, j, j-i, a[1]), bad) {
					return
				}
			}
		}
		// truncations
		for t := 0; t < 4; t++ {
			l := r.Intn(len(data))
			c.Obs("tamper_truncations", 1)
			if !tampered(fmt.Sprintf("truncation to %d bytes", l), data[:l]) {
				return
			}
		}
		// a signed plaintext footer whose signature is cut off (footer length adjusted): nothing vouches for the footer any more
		if !encFooter && len(data) > 8+28 {
			if flen := int(binary.LittleEndian.Uint32(data[len(data)-8:])); flen > 28 && flen+8 <= len(data) {
				bad := append([]byte{}, data[:len(data)-8-28]...)
				var l [4]byte
				binary.LittleEndian.PutUint32(l[:], uint32(flen-28))
				bad = append(append(bad, l[:]...), "PAR1"...)
				c.Obs("tamper_signature_stripped", 1)
				if !tampered("footer signature removed, footer length adjusted", bad) {
					return
				}
				// ... and the unsigned footer edited: one letter of created_by
				if orig, err := parquet.OpenFile(bytes.NewReader(data), int64(len(data)), parquet.WithDecryption(keys)); err == nil {
					cb := orig.Metadata().CreatedBy
					if i := bytes.LastIndex(bad, []byte(cb)); cb != "" && i > end {
						bad[i] ^= 0x20
						// (the encrypted page index and filters cannot be read any more: a reader that does not need them)
						if forged, err := parquet.OpenFile(bytes.NewReader(bad), int64(len(bad)), parquet.WithDecryption(keys), parquet.SkipPageIndex(true), parquet.SkipBloomFilters(true)); err == nil && forged.Metadata().CreatedBy != cb {
							c.Fail("c18.tamper_undetected", map[string]any{"mode": mode, "tamper": "forged unsigned footer"}, "the signature of the plaintext footer was removed and created_by edited (%q -> %q): OpenFile with the right keys accepted the file", cb, forged.Metadata().CreatedBy)
							return
						}
						c.Obs("tamper_forged_footer", 1)
					}
				}
			}
		}
		// wrong key of the right length
		wrong := &mapKeys{footer: r.Bytes(len(footerKey)), columns: keys.columns, missing: map[string]bool{}}
		c.Obs("tamper_wrong_key", 1)
		if got, err := readAll(data, wrong); err == nil {
			c.Fail("c18.tamper_undetected", map[string]any{"mode": mode, "tamper": "wrong footer key"}, "the file was read with a wrong footer key without error (%d rows)", len(got))
			return
		}
		// transplant: the same module position of another file (same layout, other content)
		for _, how := range []string{"separate config", "shared EncryptionConfig object", "same writer after Reset"} {
			shared := how != "separate config"
			cfg2 := cfg
			if !shared {
				c2 := *cfg
				c2.FileIdentifier = nil
				cfg2 = &c2
			}
			opts2 := append([]parquet.WriterOption{parquet.WithEncryption(cfg2)}, wopts[1:]...)
			rows2 := c18Rows(gen.New(r.U64()), n, 'b')
			var data2 []byte
			var err error
			if how == "same writer after Reset" {
				// the file under test and the donor come from ONE writer, Reset in between
				var b1, b2 bytes.Buffer
				w := parquet.NewGenericWriter[c18Row](&b1, wopts...)
				for _, part := range []struct {
					rows []c18Row
					out  *bytes.Buffer
				}{{rows2, &b1}, {rows, &b2}} {
					for lo := 0; lo < len(part.rows); lo += 25 {
						if _, err = w.Write(part.rows[lo:min(len(part.rows), lo+25)]); err != nil {
							break
						}
					}
					if err == nil {
						err = w.Close()
					}
					if err != nil {
						break
					}
					w.Reset(&b2)
				}
				if err == nil {
					data2 = b1.Bytes()
					// the second file replaces the file under test for this round
					if got, rerr := readAll(b2.Bytes(), keys); rerr != nil || !reflect.DeepEqual(got, rows) {
						c.Fail("c18.roundtrip_error", kd, "file written after Reset by the same writer does not read back: %v", rerr)
						return
					}
					data = b2.Bytes()
					footerLen = int(binary.LittleEndian.Uint32(data[len(data)-8:]))
					mods, ok = walkModules(data, len(data)-8-footerLen)
					if !ok {
						continue
					}
				}
			} else {
				data2, err = write(rows2, opts2)
			}
			if err != nil {
				c.Fail("c18.write_error", kd, "second file: %v", err)
				return
			}
			fl2 := int(binary.LittleEndian.Uint32(data2[len(data2)-8:]))
			mods2, ok2 := walkModules(data2, len(data2)-8-fl2)
			if !ok2 || len(mods2) != len(mods) || len(mods) == 0 {
				continue
			}
			for t := 0; t < 6; t++ {
				i := r.Intn(len(mods))
				if mods[i] != mods2[i] {
					continue
				}
				bad := append([]byte{}, data...)
				copy(bad[mods[i][0]:mods[i][0]+mods[i][1]], data2[mods2[i][0]:mods2[i][0]+mods2[i][1]])
				c.Obs("tamper_cross_file_transplants", 1)
				what := fmt.Sprintf("module #%d transplanted from another file (%s)", i, how)
				if !tampered(what, bad) {
					return
				}
			}
		}
	}) {
		return
	}
	_ = errors.Is
	_ = io.EOF
}
