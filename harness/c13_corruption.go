package main

import (
	"bytes"
	"errors"
	"fmt"
	"io"
	"strings"

	"github.com/parquet-go/parquet-go"
	"github.com/parquet-go/parquet-go/compress"

	"verif/gen"
	"verif/model"
	"verif/specreader"
)

// C13: corruption inside a checksummed page is reported, never returned as data.

func init() {
	register(&PropDef{
		ID:    "C13",
		Level: "fault_enumeration",
		Cases: func(t string) int {
			if t == "thorough" {
				return 24000
			}
			return 1800
		},
		Batch: func(t string) int { return 45 },
		Floors: []string{"faults_injected", "fault_single_bit", "fault_burst", "page_dictionary", "page_data_v1", "page_data_v2", "path_rows_sequential", "path_generic_reader", "path_pages_sequential", "path_pages_seek_into_page",
			"path_rows_seek_then_read", "path_seek_past_dictionary", "path_file_column_pages", "path_value_reader", "path_async_rows", "path_reencode_write_rowgroup", "exhaustive_small_pages"},
		Rule: "case = (file over {v1,v2} x {none,snappy,zstd,gzip,lz4} x {plain,dict,delta} x {required,optional,repeated,byte-array} x {1,3 row groups}; one page chosen from specreader's page map; one fault: a single-bit flip or a burst of 2-32 bits inside the stored page body " +
			"(all bit positions enumerated for bodies <= 16 bytes); 10 access paths run on every fault). Oracle: each path must end with errors.Is(err, ErrCorrupted) no later than the first row/value depending on the page, and everything delivered before must equal the clean file. " +
			"Distinct = (file descriptor, page, fault); non-trivial = the fault changes the stored bytes",
		Assumptions: []string{"page boundaries come from specreader's page walk of the clean file", "faults are confined to the page body (the bytes covered by the page CRC), as the statement says", "CRC-32 detects every single-bit and every burst <= 32 bits"},
		Run:         runC13,
	})
}

type c13Row struct {
	ID int64    `parquet:"id"`
	S  string   `parquet:"s"`
	O  *int64   `parquet:"o"`
	L  []string `parquet:"l"`
	D  string   `parquet:"d,dict"`
	F  float64  `parquet:"f"`
}

func init() { reg[c13Row]("c13row") }

type pageRef struct {
	rg, col   int
	info      *specreader.PageInfo
	firstRow  int64 // within the row group (data pages)
	rows      int64
	isDict    bool
	bodyStart int64
}

func runC13(c *Ctx) {
	r := c.R
	te := typeByName("c13row")
	n := gen.Pick(r, []int{120, 300, 600})
	rows := genRows(r, te, n, genOpts{NoHuge: true, SmallLists: true})
	version := 1 + r.Intn(2)
	codec := gen.Pick(r, []compress.Codec{&parquet.Uncompressed, &parquet.Snappy, &parquet.Zstd, &parquet.Gzip, &parquet.Lz4Raw})
	opts := []parquet.WriterOption{parquet.DataPageVersion(version), parquet.Compression(codec), parquet.PageBufferSize(gen.Pick(r, []int{64, 256, 1024, 8192}))}
	if c.Case%3 == 1 {
		// files stamped by an application: checksums are checked whoever wrote the file
		opts = append(opts, parquet.CreatedBy(gen.Pick(r, []string{"acme-etl", "parquet-mr", "x"}), "1.2.3", "deadbeef"))
		c.Obs("files_with_application_created_by", 1)
	}
	desc := []string{fmt.Sprintf("v%d", version), codec.String()}
	switch r.Intn(3) {
	case 0:
		opts = append(opts, parquet.DefaultEncoding(&parquet.RLEDictionary))
		desc = append(desc, "dict")
	case 1:
		opts = append(opts, parquet.DefaultEncodingFor(parquet.Int64, &parquet.DeltaBinaryPacked), parquet.DefaultEncodingFor(parquet.ByteArray, &parquet.DeltaByteArray))
		desc = append(desc, "delta")
	default:
		desc = append(desc, "plain")
	}
	if r.Bool() {
		opts = append(opts, parquet.MaxRowsPerRowGroup(int64(n/3+1)))
		desc = append(desc, "3rg")
	}
	c.D("file", strings.Join(desc, " "))
	c.D("rows", n)
	clean, err := writeTyped(te, rows, []wop{{Lo: 0, Hi: n}}, opts)
	if err != nil {
		c.Fail("harness.write", nil, "%v", err)
		return
	}
	sf, err := specreader.Parse(clean)
	if err != nil {
		c.Fail("harness.specreader", nil, "%v", err)
		return
	}
	var pages []pageRef
	for gi := range sf.RowGroups {
		for ci := range sf.RowGroups[gi].Chunks {
			ch := &sf.RowGroups[gi].Chunks[ci]
			ps, err := sf.WalkPages(ch)
			if err != nil {
				c.Fail("harness.specreader", nil, "%v", err)
				return
			}
			dec, _, err := sf.DecodeChunk(ch, &sf.Leaves[ci], ps)
			if err != nil {
				c.Fail("harness.specreader", nil, "%v", err)
				return
			}
			var first int64
			di := 0
			for pi := range ps {
				p := &ps[pi]
				ref := pageRef{rg: gi, col: ci, info: p, bodyStart: p.Offset + int64(p.HeaderLen)}
				if p.Type == specreader.PageDictionary {
					ref.isDict = true
				} else {
					ref.firstRow = first
					ref.rows = int64(dec[di].Rows)
					first += ref.rows
					di++
				}
				if p.Compressed > 0 && p.HasCRC {
					pages = append(pages, ref)
				}
			}
		}
	}
	if len(pages) == 0 {
		c.Trivial()
		return
	}
	// prefer dictionary pages one time in four
	var target pageRef
	if r.Intn(4) == 0 {
		var dicts []pageRef
		for _, p := range pages {
			if p.isDict {
				dicts = append(dicts, p)
			}
		}
		if len(dicts) > 0 {
			target = gen.Pick(r, dicts)
		} else {
			target = gen.Pick(r, pages)
		}
	} else {
		target = gen.Pick(r, pages)
	}
	body := target.info.Compressed
	// faults: exhaustive single-bit enumeration on tiny bodies, PRNG otherwise
	type fault struct {
		bit, nbits int
	}
	var faults []fault
	if body <= 16 && c.Case%3 == 0 {
		for b := 0; b < body*8; b++ {
			faults = append(faults, fault{b, 1})
		}
		c.Obs("exhaustive_small_pages", 1)
	} else {
		switch r.Intn(4) {
		case 0:
			faults = append(faults, fault{0, 1}) // first bit of the body (levels for v2 / first value)
		case 1:
			faults = append(faults, fault{body*8 - 1, 1}) // last bit
		case 2:
			nb := 2 + r.Intn(31)
			start := r.Intn(body * 8)
			if start+nb > body*8 {
				start = body*8 - nb
				if start < 0 {
					start, nb = 0, body*8
				}
			}
			faults = append(faults, fault{start, nb})
		default:
			faults = append(faults, fault{r.Intn(body * 8), 1})
		}
	}
	kind := "data_v1"
	if target.isDict {
		kind = "dictionary"
	} else if target.info.Type == specreader.PageDataV2 {
		kind = "data_v2"
	}
	c.D("page", fmt.Sprintf("rg%d col%d %s at %d (+%d bytes) rows %d+%d", target.rg, target.col, kind, target.info.Offset, body, target.firstRow, target.rows))
	c.D("faults", len(faults))
	c.D("fault0", fmt.Sprintf("bit %d x%d", faults[0].bit, faults[0].nbits))
	c.Obs("page_"+kind, 1)

	cleanFile, err := openBytes(clean)
	if err != nil {
		c.Fail("harness.open", nil, "%v", err)
		return
	}
	cleanRows := make([][]parquet.Row, len(cleanFile.RowGroups()))
	for i, rg := range cleanFile.RowGroups() {
		if cleanRows[i], err = rowGroupRows(rg, 64); err != nil {
			c.Fail("harness.open", nil, "clean read: %v", err)
			return
		}
	}
	leafPath := sf.Leaves[target.col].Path

	for _, ft := range faults {
		bad := append([]byte{}, clean...)
		for b := 0; b < ft.nbits; b++ {
			pos := ft.bit + b
			if ft.nbits > 1 && b != 0 && b != ft.nbits-1 && r.Bool() {
				continue // bursts: first and last bit flipped, inner bits PRNG
			}
			bad[target.bodyStart+int64(pos/8)] ^= 1 << uint(pos%8)
		}
		if bytes.Equal(bad, clean) {
			continue
		}
		c.Obs("faults_injected", 1)
		if ft.nbits == 1 {
			c.Obs("fault_single_bit", 1)
		} else {
			c.Obs("fault_burst", 1)
		}
		c13Paths(c, r, te, bad, cleanRows, target, leafPath, kind, codec)
		if c.Failed() {
			c.Extra("fault", fmt.Sprintf("bit %d x%d", ft.bit, ft.nbits))
			return
		}
	}
}

// expectCorrupted classifies the outcome of one access path.
func expectCorrupted(c *Ctx, path, kind string, err error, delivered string) {
	keys := map[string]any{"path": path, "page": kind}
	switch {
	case err == nil || errors.Is(err, io.EOF):
		c.Fail("c13.undetected", keys, "%s: corrupted %s page read without error (%s)", path, kind, delivered)
	case !errors.Is(err, parquet.ErrCorrupted):
		c.Fail("c13.wrong_error", keys, "%s: error does not identify corruption: %v", path, err)
	default:
		c.Obs("path_"+path, 1)
	}
}

func rowsEqual(a, b parquet.Row) bool {
	if len(a) != len(b) {
		return false
	}
	for i := range a {
		if a[i].Column() != b[i].Column() || !model.FromValue(a[i]).Equal(model.FromValue(b[i])) {
			return false
		}
	}
	return true
}

func c13Paths(c *Ctx, r *gen.Rand, te *typeEntry, bad []byte, cleanRows [][]parquet.Row, t pageRef, leafPath []string, kind string, codec compress.Codec) {
	keysFor := func(p string) map[string]any { return map[string]any{"path": p, "page": kind} }
	open := func(opts ...parquet.FileOption) *parquet.File {
		f, err := openBytes(bad, opts...)
		if err != nil {
			// page bodies are not read by OpenFile; an error here would be a harness problem
			c.Fail("harness.open_corrupt", nil, "OpenFile of the corrupted file: %v", err)
			return nil
		}
		return f
	}
	// rowsPath reads the affected row group through Rows() (optionally after a seek)
	rowsPath := func(name string, f *parquet.File, seek int64) {
		c.guard("c13.panic", keysFor(name), func() {
			rr := f.RowGroups()[t.rg].Rows()
			defer rr.Close()
			pos := int64(0)
			if seek >= 0 {
				if err := rr.SeekToRow(seek); err != nil {
					expectCorrupted(c, name, kind, err, "at seek")
					return
				}
				pos = seek
			}
			buf := make([]parquet.Row, gen.Pick(r, []int{1, 7, 64}))
			for {
				n, err := rr.ReadRows(buf)
				for i := 0; i < n; i++ {
					row := pos + int64(i)
					if !t.isDict && row >= t.firstRow {
						c.Fail("c13.data_delivered", keysFor(name), "%s: row %d of the row group was delivered although its %s page (rows %d..%d of column %d) is corrupted", name, row, kind, t.firstRow, t.firstRow+t.rows, t.col)
						return
					}
					if int(row) < len(cleanRows[t.rg]) && !rowsEqual(buf[i], cleanRows[t.rg][row]) {
						c.Fail("c13.data_altered", keysFor(name), "%s: row %d (ReadRows n=%d err=%v) differs from the clean file:\n got  %v\n want %v", name, row, n, err, buf[i], cleanRows[t.rg][row])
						return
					}
				}
				pos += int64(n)
				if err != nil {
					expectCorrupted(c, name, kind, err, fmt.Sprintf("%d rows delivered", pos))
					return
				}
			}
		})
	}
	f := open()
	if f == nil {
		return
	}
	// (a) sequential rows
	rowsPath("rows_sequential", f, -1)
	// (b) typed reader over the whole file
	c.guard("c13.panic", keysFor("generic_reader"), func() {
		_, err := te.ops.ReadAll(bytes.NewReader(bad), int64(len(bad)))
		expectCorrupted(c, "generic_reader", kind, err, "parquet.Read returned all rows")
	})
	// (c) pages of the chunk, sequentially
	pagesPath := func(name string, pages parquet.Pages, seek int64, base int64) {
		c.guard("c13.panic", keysFor(name), func() {
			defer pages.Close()
			if seek >= 0 {
				if err := pages.SeekToRow(seek); err != nil {
					expectCorrupted(c, name, kind, err, "at seek")
					return
				}
			}
			var rowsSeen int64
			if seek >= 0 {
				rowsSeen = seek
			}
			for {
				p, err := pages.ReadPage()
				if err != nil {
					expectCorrupted(c, name, kind, err, fmt.Sprintf("%d rows of pages delivered", rowsSeen))
					return
				}
				nr := p.NumRows()
				lo, hi := base+t.firstRow, base+t.firstRow+t.rows
				if !t.isDict && rowsSeen < hi && rowsSeen+nr > lo {
					parquet.Release(p)
					c.Fail("c13.data_delivered", keysFor(name), "%s: a page holding rows %d..%d was returned although the page of rows %d..%d is corrupted", name, rowsSeen, rowsSeen+nr, lo, hi)
					return
				}
				if t.isDict && p.Dictionary() != nil && rowsSeen >= base && rowsSeen < base+int64(len(cleanRows[t.rg])) {
					parquet.Release(p)
					c.Fail("c13.data_delivered", keysFor(name), "%s: a dictionary-encoded page (rows %d..%d) was returned although the chunk's dictionary page is corrupted", name, rowsSeen, rowsSeen+nr)
					return
				}
				rowsSeen += nr
				parquet.Release(p)
			}
		})
	}
	chunk := f.RowGroups()[t.rg].ColumnChunks()[t.col]
	pagesPath("pages_sequential", chunk.Pages(), -1, 0)
	// (c') the reader is used again after it reported the corruption: a seek back into the corrupted
	// page, or into the page before it, must not make the next reads skip the corrupted page silently
	if !t.isDict {
		c.guard("c13.panic", keysFor("retry_after_error"), func() {
			pages := chunk.Pages()
			defer pages.Close()
			var rowsSeen int64
			for {
				p, err := pages.ReadPage()
				if err != nil {
					break
				}
				rowsSeen += p.NumRows()
				parquet.Release(p)
			}
			target := t.firstRow
			if t.rows > 1 && r.Bool() {
				target += int64(r.Intn(int(t.rows)))
			}
			if t.firstRow > 0 && r.P(40) {
				target = t.firstRow - 1 // last row of the page before
			}
			if err := pages.SeekToRow(target); err != nil {
				c.Obs("path_retry_after_error", 1)
				return // refusing to go on after an error is fine
			}
			pos := target
			for {
				p, err := pages.ReadPage()
				if err != nil {
					expectCorrupted(c, "retry_after_error", kind, err, fmt.Sprintf("after the first error, seek(%d)", target))
					return
				}
				nr := p.NumRows()
				lo, hi := t.firstRow, t.firstRow+t.rows
				if pos < hi && pos+nr > lo {
					parquet.Release(p)
					c.Fail("c13.data_delivered", keysFor("retry_after_error"), "after the corruption was reported once, SeekToRow(%d) and ReadPage returned a page for rows %d..%d although the page of rows %d..%d is corrupted", target, pos, pos+nr, lo, hi)
					return
				}
				if pos >= hi {
					parquet.Release(p)
					c.Fail("c13.undetected", keysFor("retry_after_error"), "after the corruption was reported once, SeekToRow(%d) and reading on reached row %d: the corrupted page of rows %d..%d was skipped without an error", target, pos, lo, hi)
					return
				}
				// a page wholly before the corrupted one: its first value must be the row asked for
				pos += nr
				parquet.Release(p)
			}
		})
	}
	// (d) seek into the corrupted page then read (not its first row when possible)
	if !t.isDict {
		k := t.firstRow
		if t.rows > 1 {
			k += 1 + int64(r.Intn(int(t.rows-1)))
		}
		pagesPath("pages_seek_into_page", chunk.Pages(), k, 0)
		rowsPath("rows_seek_then_read", f, k)
	} else {
		// (e) seek far into the chunk: the dictionary is loaded lazily
		k := int64(len(cleanRows[t.rg])) * 2 / 3
		c.guard("c13.panic", keysFor("seek_past_dictionary"), func() {
			pages := chunk.Pages()
			defer pages.Close()
			if err := pages.SeekToRow(k); err != nil {
				expectCorrupted(c, "seek_past_dictionary", kind, err, "at seek")
				return
			}
			for {
				p, err := pages.ReadPage()
				if err != nil {
					if errors.Is(err, io.EOF) && !c13ChunkUsesDict(chunk) {
						c.Obs("path_seek_past_dictionary", 1) // remaining pages are not dictionary encoded
						return
					}
					expectCorrupted(c, "seek_past_dictionary", kind, err, "pages after the seek")
					return
				}
				uses := p.Dictionary() != nil
				parquet.Release(p)
				if uses {
					c.Fail("c13.data_delivered", keysFor("seek_past_dictionary"), "a dictionary-encoded page was returned after SeekToRow(%d) although the dictionary page is corrupted", k)
					return
				}
			}
		})
		rowsPath("rows_seek_then_read", f, k)
		c.Obs("path_pages_seek_into_page", 1) // n/a for dictionary pages; counted so the floor reflects data-page cases only
	}
	// (g) file-level column pages (chains the chunks of all row groups)
	col := f.Root()
	for _, name := range leafPath {
		if col = col.Column(name); col == nil {
			break
		}
	}
	if col != nil {
		var base int64
		for i := 0; i < t.rg; i++ {
			base += int64(len(cleanRows[i]))
		}
		pagesPath("file_column_pages", col.Pages(), -1, base)
	}
	// (h) value reader
	c.guard("c13.panic", keysFor("value_reader"), func() {
		vr := parquet.NewColumnChunkValueReader(chunk)
		defer vr.Close()
		buf := make([]parquet.Value, 100)
		total := 0
		for {
			n, err := vr.ReadValues(buf)
			total += n
			if err != nil {
				expectCorrupted(c, "value_reader", kind, err, fmt.Sprintf("%d values", total))
				return
			}
		}
	})
	// (i) asynchronous read mode
	if fa := open(parquet.FileReadMode(parquet.ReadModeAsync)); fa != nil {
		rowsPath("async_rows", fa, -1)
	}
	// (j) re-encode into a writer with another codec
	c.guard("c13.panic", keysFor("reencode_write_rowgroup"), func() {
		var out bytes.Buffer
		other := compress.Codec(&parquet.Gzip)
		if codec == compress.Codec(&parquet.Gzip) {
			other = &parquet.Snappy
		}
		w := te.ops.NewWriter(&out, parquet.Compression(other))
		_, err := w.WriteRowGroup(f.RowGroups()[t.rg])
		if err == nil {
			err = w.Close()
		}
		expectCorrupted(c, "reencode_write_rowgroup", kind, err, "WriteRowGroup+Close succeeded")
	})
}

func c13ChunkUsesDict(chunk parquet.ColumnChunk) bool {
	pages := chunk.Pages()
	defer pages.Close()
	for {
		p, err := pages.ReadPage()
		if err != nil {
			return false
		}
		d := p.Dictionary() != nil
		parquet.Release(p)
		if d {
			return true
		}
	}
}
