package main

import (
	"bytes"
	"errors"
	"fmt"
	"io"
	"reflect"
	"sort"
	"strings"

	"github.com/parquet-go/parquet-go"

	"verif/gen"
)

// C09: merging sorted row groups yields a sorted, complete, per-input-stable sequence.

func init() {
	register(&PropDef{
		ID:    "C09",
		Level: "exploration",
		Cases: func(t string) int {
			if t == "thorough" {
				return 24000
			}
			return 2100
		},
		Batch: func(t string) int { return 30 },
		Floors: []string{"merges_checked", "inputs_0", "inputs_1", "inputs_2", "inputs_many", "consume_rows", "consume_row_readers", "consume_copy_rows", "consume_write_rowgroup", "nullable_key_merges", "null_keys_in_inputs", "desc_key_merges", "two_column_keys",
			"dedup_merges", "overlap_disjoint", "overlap_touching", "overlap_nested", "overlap_identical", "large_inputs_refinement", "inputs_without_page_index", "buffer_inputs", "duplicate_keys_across_inputs", "row_readers_recycling_sources"},
		Rule: "case = (k in {0,1,2,3,5,8,17} inputs, each a file row group (small pages, with or without page index) or a sorted buffer, sorted by 1-2 key columns with every direction x null placement; key ranges disjoint / touching / nested / identical, duplicates within and across inputs; " +
			"input sizes around 24, 192, 1024 and 5000 rows so that range refinement and run mode engage; consumed through MergeRowGroups().Rows() with batch sizes {1,2,3,24,64,1000}, MergeRowReaders (also over sources that overwrite their value memory at the next ReadRows call), CopyRows and Writer.WriteRowGroup then read back; optional duplicate dropping). " +
			"Every row carries (source, sequence): the oracle checks sortedness with an independent comparator, multiset equality with the union of inputs, per-source order, and for dedup one surviving input row per key. Distinct = descriptor hash",
		Assumptions: []string{"inputs are sorted by the independent comparator before being handed to the library (sort keys never hold NaN)", "ties across inputs may come out in any order; ties within one input keep their order"},
		Run:         runC09,
	})
}

func runC09(c *Ctx) {
	r := c.R
	te := typeByName("c10row")
	schema := te.ops.Schema()
	keys := c10PickKeys(r)
	if c.Case%3 == 0 {
		// single ascending nullable key: the simplest shape where null handling matters
		keys = []sortKey{{col: gen.Pick(r, []string{"k2", "os", "o3", "g.x"}), desc: r.P(30), nullsFirst: r.Bool()}}
	}
	var scs []parquet.SortingColumn
	var kdesc []string
	nullable := false
	for _, k := range keys {
		scs = append(scs, k.column())
		kdesc = append(kdesc, k.String())
		if k.col == "k2" || k.col == "os" || k.col == "o3" || k.col == "g.x" {
			nullable = true
		}
		if k.desc {
			c.Obs("desc_key_merges", 1)
		}
	}
	if nullable {
		c.Obs("nullable_key_merges", 1)
	}
	if len(keys) == 2 {
		c.Obs("two_column_keys", 1)
	}
	k := gen.Pick(r, []int{0, 1, 2, 2, 2, 3, 3, 5, 8, 17})
	overlap := gen.Pick(r, []string{"disjoint", "touching", "nested", "identical", "random"})
	dedup := r.P(25)
	refine := c.Case%5 == 4
	if refine {
		// partial overlap with long lone stretches, many ties on the first key column and a
		// deciding second column: the shape range refinement slices into row-range views
		keys = []sortKey{{col: "k1", desc: r.P(30)}, {col: gen.Pick(r, []string{"f", "s", "k2", "b"}), desc: r.P(30), nullsFirst: r.Bool()}}
		scs, kdesc = nil, nil
		for _, kk := range keys {
			scs = append(scs, kk.column())
			kdesc = append(kdesc, kk.String())
		}
		k = 2 + r.Intn(2)
		overlap = "partial"
		dedup = false
		c.Obs("refine_scenarios", 1)
	}
	consume := []string{"rows", "row_readers", "copy_rows", "write_rowgroup"}[c.Case%4]
	batch := gen.Pick(r, []int{1, 2, 3, 24, 64, 1000})
	c.D("inputs", k)
	c.D("keys", strings.Join(kdesc, ", "))
	c.D("overlap", overlap)
	c.D("dedup", dedup)
	c.D("consume", consume)
	c.D("batch", batch)
	kd := map[string]any{"consume": consume, "nullable_key": nullable, "dedup": dedup}

	// ---- build inputs
	type input struct {
		rows []c10Row
		rg   parquet.RowGroup
	}
	inputs := make([]input, k)
	all := map[int64]*c10Row{}
	sizes := make([]int, k)
	for i := range sizes {
		sizes[i] = gen.Pick(r, []int{0, 1, 5, 23, 24, 25, 60, 191, 192, 193})
		if r.P(15) {
			sizes[i] = gen.Pick(r, []int{1023, 1024, 1025, 2000})
			if c.Thorough() && r.P(30) {
				sizes[i] = 5000
			}
			c.Obs("large_inputs_refinement", 1)
		}
		if refine {
			sizes[i] = gen.Pick(r, []int{1100, 1500, 2500, 3500})
		}
	}
	nullKeys, dupAcross := false, map[string]int{}
	var partialCur int64
	var partialLeft int
	for i := 0; i < k; i++ {
		rows := c10GenRows(r, sizes[i], i*1000000)
		// shape the primary key ranges
		for j := range rows {
			row := &rows[j]
			var base int64
			switch overlap {
			case "disjoint":
				base = int64(i) * 100000
			case "touching":
				base = int64(i) * 50
			case "nested":
				base = int64(i) * 7
			case "identical":
				base = 0
			case "partial":
				base = 0
			default:
				base = int64(r.Intn(3)) * 40
			}
			span := int64(50)
			if overlap == "nested" {
				span = int64(200 - 14*i)
				if span < 5 {
					span = 5
				}
			}
			v := base + int64(r.Intn(int(span)))
			if overlap == "partial" {
				// runs of ties on the first key of length 1, 8, 200 or 700 (spanning several small
				// pages); input i starts 3 values after input i-1 so the inputs overlap partially
				if j == 0 {
					partialCur, partialLeft = int64(i*3), 0
				}
				if partialLeft == 0 {
					partialCur++
					partialLeft = gen.Pick(r, []int{1, 8, 200, 700})
				}
				partialLeft--
				v = partialCur
			}
			row.K1 = v
			if row.K2 != nil {
				*row.K2 = v
				if overlap == "partial" {
					*row.K2 = int64(r.Intn(2000))
				}
			}
			if row.OS != nil {
				s := fmt.Sprintf("%08d", v)
				row.OS = &s
			}
			if row.O3 != 0 {
				row.O3 = int32(v + 1)
			}
			row.S = fmt.Sprintf("%08d", v)
			row.F = float64(v) / 4
			if overlap == "partial" {
				row.S = fmt.Sprintf("%04d", r.Intn(2000))
				row.F = float64(r.Intn(2000))
			}
		}
		sort.SliceStable(rows, func(a, b int) bool { return c10Compare(&rows[a], &rows[b], keys) < 0 })
		for j := range rows {
			rows[j].ID = int64(i*1000000 + j) // source and sequence in sorted order
			rows[j].V = fmt.Sprintf("payload-%d", rows[j].ID)
			all[rows[j].ID] = &rows[j]
			for _, kk := range keys {
				if n, _ := c10KeyOf(&rows[j], kk.col); n {
					nullKeys = true
				}
			}
			ks := fmt.Sprint(c10Keys(&rows[j], keys))
			if dupAcross[ks] != 0 && dupAcross[ks] != i+1 {
				c.Obs("duplicate_keys_across_inputs", 1)
			}
			dupAcross[ks] = i + 1
		}
		inputs[i].rows = rows
		// materialize as a file row group or a buffer
		if r.P(25) {
			b := parquet.NewGenericBuffer[c10Row](parquet.SortingRowGroupConfig(parquet.SortingColumns(scs...)))
			if _, err := b.Write(rows); err != nil {
				c.Fail("harness.buffer", nil, "%v", err)
				return
			}
			inputs[i].rg = b
			c.Obs("buffer_inputs", 1)
		} else {
			var buf bytes.Buffer
			w := parquet.NewGenericWriter[c10Row](&buf, parquet.SortingWriterConfig(parquet.SortingColumns(scs...)),
				parquet.PageBufferSize(gen.Pick(r, []int{64, 512, 4096, 65536})), parquet.DataPageVersion(1+r.Intn(2)))
			if refine {
				// small pages written in batches of 7 rows: page boundaries of the columns do not line up
				w = parquet.NewGenericWriter[c10Row](&buf, parquet.SortingWriterConfig(parquet.SortingColumns(scs...)), parquet.PageBufferSize(gen.Pick(r, []int{64, 512})))
				for len(rows) > 7 {
					if _, err := w.Write(rows[:7]); err != nil {
						c.Fail("harness.write", nil, "%v", err)
						return
					}
					rows = rows[7:]
				}
			}
			if _, err := w.Write(rows); err != nil {
				c.Fail("harness.write", nil, "%v", err)
				return
			}
			if err := w.Close(); err != nil {
				c.Fail("harness.write", nil, "%v", err)
				return
			}
			var fopts []parquet.FileOption
			if r.P(25) {
				fopts = append(fopts, parquet.SkipPageIndex(true))
				c.Obs("inputs_without_page_index", 1)
			}
			f, err := openBytes(buf.Bytes(), fopts...)
			if err != nil {
				c.Fail("harness.open", nil, "%v", err)
				return
			}
			if len(f.RowGroups()) == 0 {
				// empty input: an empty buffer stands for it
				inputs[i].rg = parquet.NewGenericBuffer[c10Row](parquet.SortingRowGroupConfig(parquet.SortingColumns(scs...)))
			} else {
				inputs[i].rg = f.RowGroups()[0]
			}
		}
	}
	if nullKeys {
		c.Obs("null_keys_in_inputs", 1)
		kd["null_keys_in_inputs"] = true
	}
	c.Obs("overlap_"+overlap, 1)
	switch {
	case k == 0:
		c.Obs("inputs_0", 1)
	case k == 1:
		c.Obs("inputs_1", 1)
	case k == 2:
		c.Obs("inputs_2", 1)
	default:
		c.Obs("inputs_many", 1)
	}

	// ---- merge
	sopts := []parquet.SortingOption{parquet.SortingColumns(scs...)}
	if dedup {
		sopts = append(sopts, parquet.DropDuplicatedRows(true))
		c.Obs("dedup_merges", 1)
	}
	var out []c10Row
	var prows []parquet.Row
	failed := c.guard("c09.panic", kd, func() {
		rgs := make([]parquet.RowGroup, k)
		for i := range inputs {
			rgs[i] = inputs[i].rg
		}
		var err error
		switch consume {
		case "row_readers":
			if dedup {
				consume = "rows" // MergeRowReaders has no dedup option; fall through to rows
			} else {
				readers := make([]parquet.RowReader, k)
				var closers []io.Closer
				// half of the time every source hands out rows whose byte-array values live in memory that it
				// overwrites at its next ReadRows call (which the RowReader contract allows), in chunks of its own size
				recycle := r.Bool()
				chunk := gen.Pick(r, []int{5, 24, 64})
				for i, rg := range rgs {
					rr := rg.Rows()
					readers[i] = rr
					if recycle {
						readers[i] = &recyclingReader{inner: rr, chunk: chunk}
					}
					closers = append(closers, rr)
				}
				if recycle {
					c.Obs("row_readers_recycling_sources", 1)
				}
				m := parquet.MergeRowReaders(readers, schema.Comparator(scs...))
				prows, err = readRowsAll(m, batch)
				for _, cl := range closers {
					cl.Close()
				}
			}
		}
		if consume != "row_readers" {
			var merged parquet.RowGroup
			merged, err = parquet.MergeRowGroups(rgs, schema, parquet.SortingRowGroupConfig(sopts...))
			if err != nil {
				c.Fail("c09.merge_error", kd, "MergeRowGroups: %v", err)
				return
			}
			switch consume {
			case "rows":
				prows, err = rowGroupRows(merged, batch)
			case "copy_rows":
				b := parquet.NewBuffer(schema)
				rr := merged.Rows()
				_, err = parquet.CopyRows(b, rr)
				rr.Close()
				if err == nil {
					prows, err = rowGroupRows(b, 64)
				}
			case "write_rowgroup":
				var buf bytes.Buffer
				w := parquet.NewGenericWriter[c10Row](&buf, parquet.SortingWriterConfig(parquet.SortingColumns(scs...)), parquet.PageBufferSize(gen.Pick(r, []int{512, 65536})))
				if _, err = w.WriteRowGroup(merged); err == nil {
					err = w.Close()
				}
				if err == nil {
					var f *parquet.File
					if f, err = openBytes(buf.Bytes()); err == nil {
						prows, err = fileRows(f, batch)
					}
				}
			}
		}
		if err != nil && !errors.Is(err, io.EOF) {
			c.Fail("c09.read_error", kd, "%s: %v", consume, err)
			return
		}
		out = make([]c10Row, len(prows))
		for i, pr := range prows {
			if err := schema.Reconstruct(&out[i], pr); err != nil {
				c.Fail("c09.read_error", kd, "Reconstruct: %v", err)
				return
			}
		}
	})
	if failed || c.Failed() {
		return
	}
	c.Obs("consume_"+consume, 1)

	// ---- oracle
	seen := map[int64]bool{}
	lastSeq := map[int64]int64{}
	for i := range out {
		in, ok := all[out[i].ID]
		if !ok {
			c.Fail("c09.unknown_row", kd, "output row %d (id %d) is not an input row", i, out[i].ID)
			return
		}
		if seen[out[i].ID] {
			c.Fail("c09.duplicated_row", kd, "input row id %d appears twice in the merge output", out[i].ID)
			return
		}
		seen[out[i].ID] = true
		if ok2, diff := eqNorm(reflect.ValueOf(in).Elem(), reflect.ValueOf(&out[i]).Elem(), ""); !ok2 {
			c.Fail("c09.torn_row", kd, "output row id %d differs from the input row: %s", out[i].ID, diff)
			return
		}
		src, seq := out[i].ID/1000000, out[i].ID%1000000
		if last, ok := lastSeq[src]; ok && seq < last {
			c.Fail("c09.unstable", kd, "rows of input %d come out in inverted order: sequence %d after %d", src, seq, last)
			return
		}
		lastSeq[src] = seq
		if i > 0 {
			cm := c10Compare(&out[i-1], &out[i], keys)
			if cm > 0 {
				c.Fail("c09.unsorted", kd, "merge output rows %d and %d are out of order for [%s]: ids %d, %d (keys %v | %v)", i-1, i, strings.Join(kdesc, ", "), out[i-1].ID, out[i].ID, c10Keys(&out[i-1], keys), c10Keys(&out[i], keys))
				return
			}
			if dedup && cm == 0 {
				c.Fail("c09.dedup", kd, "rows %d and %d share a sort key although duplicates are dropped (ids %d, %d)", i-1, i, out[i-1].ID, out[i].ID)
				return
			}
		}
	}
	if !dedup {
		if len(out) != len(all) {
			c.Fail("c09.incomplete", kd, "inputs hold %d rows, the merge output %d", len(all), len(out))
			return
		}
	} else {
		rows := make([]*c10Row, 0, len(all))
		for _, in := range all {
			rows = append(rows, in)
		}
		sort.Slice(rows, func(i, j int) bool { return c10Compare(rows[i], rows[j], keys) < 0 })
		distinct := 0
		for i := range rows {
			if i == 0 || c10Compare(rows[i-1], rows[i], keys) != 0 {
				distinct++
			}
		}
		if distinct != len(out) {
			c.Fail("c09.dedup", kd, "inputs hold %d distinct keys, the deduplicated merge output %d rows", distinct, len(out))
			return
		}
	}
	c.Obs("merges_checked", 1)
	if len(all) == 0 {
		c.Trivial()
	}
}

// recyclingReader is a RowReader whose rows are valid until its next ReadRows call only: the bytes of
// byte-array values live in an arena that is overwritten at the start of every call.
type recyclingReader struct {
	inner parquet.RowReader
	chunk int
	arena []byte
	tmp   []parquet.Row
}

func (rr *recyclingReader) ReadRows(rows []parquet.Row) (int, error) {
	for i := range rr.arena {
		rr.arena[i] = '#'
	}
	if len(rr.tmp) < rr.chunk {
		rr.tmp = make([]parquet.Row, rr.chunk)
	}
	n, err := rr.inner.ReadRows(rr.tmp[:min(len(rows), rr.chunk)])
	size := 0
	for _, row := range rr.tmp[:n] {
		for _, v := range row {
			if !v.IsNull() && (v.Kind() == parquet.ByteArray || v.Kind() == parquet.FixedLenByteArray) {
				size += len(v.ByteArray())
			}
		}
	}
	if cap(rr.arena) < size {
		rr.arena = make([]byte, 0, 2*size)
	}
	rr.arena = rr.arena[:0]
	for i, row := range rr.tmp[:n] {
		rows[i] = rows[i][:0]
		for _, v := range row {
			if !v.IsNull() && (v.Kind() == parquet.ByteArray || v.Kind() == parquet.FixedLenByteArray) {
				off := len(rr.arena)
				rr.arena = append(rr.arena, v.ByteArray()...)
				b := rr.arena[off:len(rr.arena):len(rr.arena)]
				w := parquet.ByteArrayValue(b)
				if v.Kind() == parquet.FixedLenByteArray {
					w = parquet.FixedLenByteArrayValue(b)
				}
				v = w.Level(v.RepetitionLevel(), v.DefinitionLevel(), v.Column())
			}
			rows[i] = append(rows[i], v)
		}
	}
	return n, err
}
