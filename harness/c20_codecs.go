package main

import (
	"bytes"
	"fmt"
	"os"
	"sync"
	"sync/atomic"

	"github.com/parquet-go/parquet-go"
	"github.com/parquet-go/parquet-go/compress"
	"github.com/parquet-go/parquet-go/compress/brotli"
	"github.com/parquet-go/parquet-go/compress/gzip"
	"github.com/parquet-go/parquet-go/compress/lz4"
	"github.com/parquet-go/parquet-go/compress/snappy"
	"github.com/parquet-go/parquet-go/compress/zstd"

	"verif/gen"
	"verif/specreader"
)

// C20: Decode(Encode(x)) == x on shared codec values whatever happened before.

func init() {
	register(&PropDef{
		ID:    "C20",
		Level: "exploration",
		Cases: func(t string) int {
			if t == "thorough" {
				return 4000
			}
			return 240
		},
		Batch:  func(t string) int { return 20 },
		Floors: []string{"roundtrips", "failed_decodes_before_roundtrip", "independent_decodes", "concurrent_histories"},
		Rule: "case = (codec value: package-level shared or fresh with PRNG level; history of 20-200 ops Encode/Decode-valid/Decode-invalid with dst capacity from {nil,0,1,exact,2x,huge}; " +
			"inputs from boundary pool; 1 or 16 goroutines on one codec value). Distinct = distinct descriptor hash; non-trivial = at least one round trip after an earlier failed or differently-sized call.",
		Assumptions: []string{
			"independent decoders: hand-written snappy/lz4 block decoders, stdlib gzip, klauspost zstd and andybalholm brotli called directly (third-party, trusted)",
			"invalid input is never given to Lz4Raw.Decode (the wrapper retries forever on any error: observation O2, outside the statement)",
			"a panic of Decode on an invalid input is recovered and counted, not a violation of C20",
		},
		Run: runC20,
	})
}

var codecTestdata [][]byte
var codecTestdataOnce sync.Once

func loadCodecTestdata() {
	codecTestdataOnce.Do(func() {
		for _, n := range []string{"e.txt", "gettysburg.txt", "html.txt", "pi.txt", "pngdata.bin", "Mark.Twain-Tom.Sawyer.txt"} {
			if b, err := os.ReadFile("/repo/compress/testdata/" + n); err == nil {
				codecTestdata = append(codecTestdata, b)
			}
		}
	})
}

func codecInput(r *gen.Rand, big bool) []byte {
	loadCodecTestdata()
	switch r.Intn(12) {
	case 0:
		return []byte{}
	case 1:
		return []byte{byte(r.Intn(256))}
	case 2:
		return make([]byte, gen.Pick(r, []int{1, 7, 64, 4096, 65536}))
	case 3:
		n := gen.Pick(r, []int{15, 16, 17, 255, 256, 257, 4095, 4096, 4097, 65535, 65536, 65537})
		return r.Bytes(n)
	case 4:
		if len(codecTestdata) > 0 {
			b := gen.Pick(r, codecTestdata)
			if len(b) == 0 {
				return b
			}
			lo := r.Intn(len(b))
			hi := lo + r.Intn(len(b)-lo+1)
			if !big && hi-lo > 100000 {
				hi = lo + 100000
			}
			return b[lo:hi]
		}
		fallthrough
	case 5:
		// repetitive text
		w := []string{"parquet", "column", "page", " ", "\n", "0000", "abc"}
		var bb bytes.Buffer
		n := r.Intn(3000)
		for i := 0; i < n; i++ {
			bb.WriteString(gen.Pick(r, w))
		}
		return bb.Bytes()
	case 6:
		// long run then noise
		b := bytes.Repeat([]byte{byte(r.Intn(256))}, r.Intn(70000))
		return append(b, r.Bytes(r.Intn(100))...)
	case 7:
		if big {
			return r.Bytes(200000 + r.Intn(400000))
		}
		return r.Bytes(r.Intn(20000))
	default:
		return r.Bytes(r.Intn(600))
	}
}

type codecSpec struct {
	name   string
	shared bool
	codec  compress.Codec
	num    int
}

func pickCodec(r *gen.Rand) codecSpec {
	shared := r.P(60)
	switch r.Intn(6) {
	case 0:
		if shared {
			return codecSpec{"snappy", true, &parquet.Snappy, specreader.CodecSnappy}
		}
		return codecSpec{"snappy", false, &snappy.Codec{}, specreader.CodecSnappy}
	case 1:
		if shared {
			return codecSpec{"gzip", true, &parquet.Gzip, specreader.CodecGzip}
		}
		lv := gen.Pick(r, []int{gzip.NoCompression, gzip.BestSpeed, gzip.BestCompression, gzip.DefaultCompression, gzip.HuffmanOnly, 5})
		return codecSpec{fmt.Sprintf("gzip(%d)", lv), false, &gzip.Codec{Level: lv}, specreader.CodecGzip}
	case 2:
		if shared {
			return codecSpec{"brotli", true, &parquet.Brotli, specreader.CodecBrotli}
		}
		q := gen.Pick(r, []int{0, 1, 4, 9, 11})
		lg := gen.Pick(r, []int{0, 10, 16, 24})
		return codecSpec{fmt.Sprintf("brotli(q%d,w%d)", q, lg), false, &brotli.Codec{Quality: q, LGWin: lg}, specreader.CodecBrotli}
	case 3:
		if shared {
			return codecSpec{"zstd", true, &parquet.Zstd, specreader.CodecZstd}
		}
		lv := gen.Pick(r, []zstd.Level{0, zstd.SpeedFastest, zstd.SpeedDefault, zstd.SpeedBetterCompression, zstd.SpeedBestCompression})
		return codecSpec{fmt.Sprintf("zstd(%d)", lv), false, &zstd.Codec{Level: lv, Concurrency: uint(r.Intn(3))}, specreader.CodecZstd}
	case 4:
		if shared {
			return codecSpec{"lz4raw", true, &parquet.Lz4Raw, specreader.CodecLZ4Raw}
		}
		lv := gen.Pick(r, []lz4.Level{lz4.Fastest, lz4.Fast, lz4.Level1, lz4.Level5, lz4.Level9})
		return codecSpec{fmt.Sprintf("lz4raw(%d)", lv), false, &lz4.Codec{Level: lv}, specreader.CodecLZ4Raw}
	}
	return codecSpec{"uncompressed", true, &parquet.Uncompressed, specreader.CodecUncompressed}
}

func mkDst(r *gen.Rand, want int) []byte {
	var d []byte
	switch r.Intn(7) {
	case 0:
		return nil
	case 1:
		d = make([]byte, 0)
	case 2:
		d = make([]byte, 1)
	case 3:
		d = make([]byte, want)
	case 4:
		d = make([]byte, 2*want+3)
	case 5:
		d = make([]byte, want/2)
	default:
		d = make([]byte, r.Intn(300000))
	}
	for i := range d {
		d[i] = 0xAA
	}
	if r.Bool() {
		return d[:0]
	}
	return d
}

var codecFailed sync.Map // codec value -> *atomic.Bool

type held struct {
	buf  []byte
	snap []byte
	what string
}

func corrupt(r *gen.Rand, enc []byte) []byte {
	b := append([]byte{}, enc...)
	switch r.Intn(5) {
	case 0:
		if len(b) > 0 {
			b = b[:r.Intn(len(b))]
		}
	case 1:
		for k := 0; k < 1+r.Intn(4) && len(b) > 0; k++ {
			b[r.Intn(len(b))] ^= 1 << r.Intn(8)
		}
	case 2:
		b = r.Bytes(1 + r.Intn(200))
	case 3:
		b = []byte{}
	default:
		b = append(b, r.Bytes(1+r.Intn(8))...)
	}
	return b
}

func codecHistory(c *Ctx, r *gen.Rand, cs codecSpec, steps int, gid int) {
	var helds []held
	// "a failed decode happened earlier on this codec value" is a fact about the
	// shared instance (other goroutines and earlier cases of this process count).
	fb, _ := codecFailed.LoadOrStore(cs.codec, new(atomic.Bool))
	failedFlag := fb.(*atomic.Bool)
	failedBefore := failedFlag.Load()
	var lastEnc, lastPlain []byte
	for step := 0; step < steps; step++ {
		if c.Failed() {
			return
		}
		failedBefore = failedFlag.Load()
		op := r.Intn(10)
		switch {
		case op < 6 || lastEnc == nil: // encode + full round trip
			x := codecInput(r, c.Thorough() && r.Intn(10) == 0)
			snapX := append([]byte{}, x...)
			dst := mkDst(r, len(x))
			var enc []byte
			var err error
			if c.guard("codec.panic", map[string]any{"codec": cs.name, "op": "encode"}, func() { enc, err = cs.codec.Encode(dst, x) }) {
				return
			}
			if err != nil {
				c.Fail("codec.encode_error", map[string]any{"codec": cs.name}, "step %d g%d: Encode(len=%d) error: %v", step, gid, len(x), err)
				return
			}
			if !bytes.Equal(x, snapX) {
				c.Fail("codec.src_modified", map[string]any{"codec": cs.name}, "step %d: Encode modified its source", step)
				return
			}
			encSnap := append([]byte{}, enc...)
			// independent decoder
			ind, ierr := specreader.Decompress(cs.num, encSnap, len(x))
			c.Obs("independent_decodes", 1)
			if ierr != nil || !bytes.Equal(ind, x) {
				c.Fail("codec.independent", map[string]any{"codec": cs.name}, "step %d g%d: independent decoder on Encode(len=%d) output: err=%v equal=%v", step, gid, len(x), ierr, bytes.Equal(ind, x))
				return
			}
			ddst := mkDst(r, len(x))
			var dec []byte
			if c.guard("codec.panic", map[string]any{"codec": cs.name, "op": "decode"}, func() { dec, err = cs.codec.Decode(ddst, enc) }) {
				return
			}
			if err != nil || !bytes.Equal(dec, x) {
				c.Fail("codec.roundtrip", map[string]any{"codec": cs.name, "after_failed_decode": failedBefore},
					"step %d g%d: Decode(Encode(x)) len(x)=%d len(enc)=%d: err=%v equal=%v (failed decode earlier in history: %v)", step, gid, len(x), len(enc), err, bytes.Equal(dec, x), failedBefore)
				return
			}
			if !bytes.Equal(enc, encSnap) {
				c.Fail("codec.alias", map[string]any{"codec": cs.name}, "step %d: Encode output changed during Decode", step)
				return
			}
			c.Obs("roundtrips", 1)
			if failedBefore {
				c.Obs("failed_decodes_before_roundtrip", 1)
			}
			lastEnc, lastPlain = encSnap, snapX
			if r.P(30) && len(helds) < 6 {
				helds = append(helds, held{enc, encSnap, "enc"}, held{dec, append([]byte{}, dec...), "dec"})
			}
		case op < 8: // decode a valid earlier encoding again, different dst
			ddst := mkDst(r, len(lastPlain))
			var dec []byte
			var err error
			if c.guard("codec.panic", map[string]any{"codec": cs.name, "op": "decode"}, func() { dec, err = cs.codec.Decode(ddst, lastEnc) }) {
				return
			}
			if err != nil || !bytes.Equal(dec, lastPlain) {
				c.Fail("codec.roundtrip", map[string]any{"codec": cs.name, "after_failed_decode": failedBefore}, "step %d g%d: re-Decode of valid data: err=%v", step, gid, err)
				return
			}
			c.Obs("roundtrips", 1)
			if failedBefore {
				c.Obs("failed_decodes_before_roundtrip", 1)
			}
		default: // decode an invalid input
			if cs.num == specreader.CodecLZ4Raw || cs.num == specreader.CodecUncompressed {
				continue
			}
			bad := corrupt(r, lastEnc)
			var err error
			var out []byte
			func() {
				defer func() {
					if p := recover(); p != nil {
						c.Obs("decode_invalid_panics", 1)
						err = fmt.Errorf("panic: %v", p)
					}
				}()
				d := mkDst(r, 100)
				if len(bad) == 0 && cap(d) == 0 {
					// observation O2c: the streaming wrapper spins forever on an empty
					// *invalid* input with a zero-capacity dst (Read(p[:0]) returns 0,nil);
					// a diverging call on invalid input is outside C20's statement.
					d = make([]byte, 0, 16)
				}
				out, err = cs.codec.Decode(d, bad)
			}()
			_ = out
			if err != nil {
				failedFlag.Store(true)
				c.Obs("failed_decodes", 1)
			}
		}
		for _, h := range helds {
			if !bytes.Equal(h.buf, h.snap) {
				c.Fail("codec.alias", map[string]any{"codec": cs.name, "what": h.what}, "step %d g%d: a %s buffer returned earlier was modified by later calls", step, gid, h.what)
				return
			}
		}
	}
}

func runC20(c *Ctx) {
	r := c.R
	cs := pickCodec(r)
	steps := r.Range(20, 120)
	if c.Thorough() {
		steps = r.Range(20, 200)
	}
	conc := 1
	if c.Case%4 == 3 {
		conc = 16
		steps = steps/4 + 5
	}
	c.D("codec", cs.name)
	c.D("shared", cs.shared)
	c.D("steps", steps)
	c.D("goroutines", conc)
	c.D("hseed", r.U64()%100000)
	if conc == 1 {
		codecHistory(c, r, cs, steps, 0)
		return
	}
	c.Obs("concurrent_histories", conc)
	c.Heavy()
	var wg sync.WaitGroup
	for g := 0; g < conc; g++ {
		rr := gen.New(r.U64())
		wg.Add(1)
		go func(g int) {
			defer wg.Done()
			c.guard("panic", map[string]any{"codec": cs.name}, func() { codecHistory(c, rr, cs, steps, g) })
		}(g)
	}
	wg.Wait()
}
