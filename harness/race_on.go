//go:build race

package main

// raceEnabled: this binary was built with the race detector.
const raceEnabled = true
