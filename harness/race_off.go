//go:build !race

package main

const raceEnabled = false
