package main

import (
	"bytes"
	"encoding/binary"
	"fmt"
	"sort"

	"github.com/parquet-go/parquet-go"

	"verif/gen"
)

// c06FromSchemaFile searches the column indexes of files written through an explicit schema whose
// columns have logical types with their own sort order (signed decimals over BYTE_ARRAY / FIXED_LEN_BYTE_ARRAY /
// INT32, unsigned integers, floats, timestamps), with keys of both signs, over several row groups; the
// chunks of each row group and the concatenated chunks of parquet.MultiRowGroup are probed.

var c06Cols = []struct {
	name string
	node parquet.Node
	val  func(k int64, r *gen.Rand) parquet.Value
}{
	{"dba", parquet.Decimal(0, 18, parquet.ByteArrayType), func(k int64, _ *gen.Rand) parquet.Value { return parquet.ByteArrayValue(c06MinimalBE(k)) }},
	{"dfl", parquet.Decimal(0, 18, parquet.FixedLenByteArrayType(8)), func(k int64, _ *gen.Rand) parquet.Value {
		var b [8]byte
		binary.BigEndian.PutUint64(b[:], uint64(k))
		return parquet.FixedLenByteArrayValue(b[:])
	}},
	{"di32", parquet.Decimal(2, 9, parquet.Int32Type), func(k int64, _ *gen.Rand) parquet.Value { return parquet.Int32Value(int32(k)) }},
	{"i64", parquet.Int(64), func(k int64, _ *gen.Rand) parquet.Value { return parquet.Int64Value(k) }},
	{"u32", parquet.Uint(32), func(k int64, _ *gen.Rand) parquet.Value { return parquet.Int32Value(int32(uint32(k))) }},
	{"u64", parquet.Uint(64), func(k int64, _ *gen.Rand) parquet.Value { return parquet.Int64Value(k) }},
	{"f32", parquet.Leaf(parquet.FloatType), func(k int64, _ *gen.Rand) parquet.Value { return parquet.FloatValue(float32(k) / 2) }},
	{"f64", parquet.Leaf(parquet.DoubleType), func(k int64, _ *gen.Rand) parquet.Value { return parquet.DoubleValue(float64(k) / 2) }},
	{"str", parquet.String(), func(k int64, r *gen.Rand) parquet.Value {
		return parquet.ByteArrayValue([]byte(fmt.Sprintf("%s%07d", gen.Pick(r, []string{"", "", "key/", "\xff\xff\xff\xff\xff"}), k+100000)))
	}},
	{"ts", parquet.Timestamp(parquet.Millisecond), func(k int64, _ *gen.Rand) parquet.Value { return parquet.Int64Value(k * 1000) }},
	{"date", parquet.Date(), func(k int64, _ *gen.Rand) parquet.Value { return parquet.Int32Value(int32(k)) }},
}

// c06MinimalBE is the shortest big-endian two's complement form of k.
func c06MinimalBE(k int64) []byte {
	var b [8]byte
	binary.BigEndian.PutUint64(b[:], uint64(k))
	s := b[:]
	for len(s) > 1 && ((s[0] == 0x00 && s[1]&0x80 == 0) || (s[0] == 0xFF && s[1]&0x80 != 0)) {
		s = s[1:]
	}
	return append([]byte{}, s...)
}

func c06FromSchemaFile(c *Ctx, r *gen.Rand) {
	group := parquet.Group{}
	for _, col := range c06Cols {
		group[col.name] = parquet.Optional(col.node)
	}
	schema := parquet.NewSchema("c06", group)
	colOf := map[string]int{}
	for i, p := range schema.Columns() {
		colOf[p[0]] = i
	}
	ncols := len(schema.Columns())
	nrg := gen.Pick(r, []int{1, 2, 3, 5})
	per := gen.Pick(r, []int{20, 90, 300})
	shape := r.Intn(7)
	limit := gen.Pick(r, []int{1, 4, 16})
	c.D("source", "schema_file")
	c.D("row_groups", nrg)
	c.D("rows_per_group", per)
	c.D("shape", []string{"ascending", "descending", "unordered", "outlier", "rowgroup_overlap", "null_rowgroup_between", "descending_groups_rising"}[shape])
	c.D("cisize", limit)
	var buf bytes.Buffer
	w := parquet.NewWriter(&buf, schema, parquet.PageBufferSize(gen.Pick(r, []int{32, 128, 1024})), parquet.ColumnIndexSizeLimit(func([]string) int { return limit }), parquet.DataPageVersion(1+r.Intn(2)))
	base := int64(-(nrg * per) / 6) // keys of both signs
	for g := 0; g < nrg; g++ {
		rows := make([]parquet.Row, per)
		nulls := r.NullPattern(per)
		for i := 0; i < per; i++ {
			gi := g*per + i
			var k int64
			switch shape {
			case 0:
				k = base + int64(gi/3)
			case 1:
				k = -base - int64(gi/3)
			case 2:
				k = base + int64(r.Intn(60))
			case 3:
				k = base + int64(gi/3)
				if i%97 == 5 && i < per/2 {
					k = int64(nrg * per)
				}
			case 6:
				// every row group descending on its own, but its first rows lie above the last rows of the group
				// before it: [11 10][2 1] then [9 8][0 0]
				k = base + int64(per) - int64(i) + int64(g%2)*int64(per/2)
			case 5:
				// every row group ascending on its own, the groups in falling order, and every other group
				// holds nulls only: neighbours with values are never adjacent
				k = base + int64((nrg-g)*per) + int64(i/3)
			default:
				// every row group ascending on its own; its last rows reach into the next group's range
				k = base + int64(gi/3)
				if i >= per-2 {
					k += int64(per/3) + 3
				}
			}
			row := make(parquet.Row, ncols)
			for _, col := range c06Cols {
				ci := colOf[col.name]
				if nulls[i] && !(shape == 5 && g%2 == 1) {
					row[ci] = col.val(k, r).Level(0, 1, ci)
				} else {
					row[ci] = parquet.Value{}.Level(0, 0, ci)
				}
			}
			rows[i] = row
		}
		if _, err := w.WriteRows(rows); err != nil {
			c.Fail("harness.write", nil, "%v", err)
			return
		}
		if err := w.Flush(); err != nil {
			c.Fail("harness.write", nil, "%v", err)
			return
		}
	}
	if err := w.Close(); err != nil {
		c.Fail("harness.write", nil, "%v", err)
		return
	}
	f, err := openBytes(buf.Bytes())
	if err != nil {
		c.Fail("harness.open", nil, "%v", err)
		return
	}
	c.Obs("layouts_from_schema_files", 1)
	names := make([]string, 0, len(colOf))
	for n := range colOf {
		names = append(names, n)
	}
	sort.Strings(names)
	for _, rg := range f.RowGroups() {
		for _, n := range names {
			if !c06ProbeChunk(c, rg.ColumnChunks()[colOf[n]], "schema_file", n) {
				return
			}
		}
	}
	if len(f.RowGroups()) > 1 {
		multi := parquet.MultiRowGroup(f.RowGroups()...)
		for _, n := range names {
			if !c06ProbeChunk(c, multi.ColumnChunks()[colOf[n]], "multi_row_group", n) {
				return
			}
		}
		c.Obs("multi_row_group_indexes", 1)
	}
}

// c06ProbeChunk probes Search with every value the chunk holds; the page contents are read through Pages().
func c06ProbeChunk(c *Ctx, chunk parquet.ColumnChunk, src, col string) bool {
	index, err := chunk.ColumnIndex()
	if err != nil || index == nil {
		return true
	}
	typ := chunk.Type()
	pages := chunk.Pages()
	var contents [][]parquet.Value
	for {
		p, err := pages.ReadPage()
		if err != nil {
			break
		}
		vals := make([]parquet.Value, p.NumValues())
		k, _ := p.Values().ReadValues(vals)
		var nn []parquet.Value
		for _, v := range vals[:k] {
			if !v.IsNull() {
				nn = append(nn, v.Clone())
			}
		}
		contents = append(contents, nn)
		parquet.Release(p)
	}
	pages.Close()
	if len(contents) != index.NumPages() {
		c.Fail("c06.index_pages", map[string]any{"source": src, "column": col}, "column %s: the column index has %d pages, Pages() returned %d", col, index.NumPages(), len(contents))
		return false
	}
	switch {
	case index.IsAscending():
		c.Obs("order_ascending", 1)
		c.Obs(src+"_ascending", 1)
	case index.IsDescending():
		c.Obs("order_descending", 1)
	default:
		c.Obs("order_unordered", 1)
	}
	c.Obs("logical_"+col, 1)
	// the order claim that selects the search algorithm must be true of the recorded bounds (for file chunks C05
	// checks the stored claim; the concatenated index of a MultiRowGroup computes its own)
	asc, desc := true, true
	prev := -1
	for q := 0; q < index.NumPages(); q++ {
		if index.NullPage(q) {
			continue
		}
		if prev >= 0 {
			cmin, cmax := typ.Compare(index.MinValue(prev), index.MinValue(q)), typ.Compare(index.MaxValue(prev), index.MaxValue(q))
			asc = asc && cmin <= 0 && cmax <= 0
			desc = desc && cmin >= 0 && cmax >= 0
		}
		prev = q
	}
	c.Obs("order_claims_checked", 1)
	if (index.IsAscending() && !asc) || (index.IsDescending() && !desc) {
		c.Fail("c06.false_order_claim", map[string]any{"source": src, "column": col, "claim": map[bool]string{true: "ascending", false: "descending"}[index.IsAscending()]}, "column %s (%s): IsAscending=%v IsDescending=%v but the recorded bounds of the %d pages are not in that order", col, src, index.IsAscending(), index.IsDescending(), index.NumPages())
		return false
	}
	keys := map[string]any{"api": "Search", "source": src, "column": col}
	for pi, vs := range contents {
		for _, v := range vs {
			first := pi
		scan:
			for q := 0; q < pi; q++ {
				for _, w := range contents[q] {
					if typ.Compare(w, v) == 0 {
						first = q
						break scan
					}
				}
			}
			got := parquet.Search(index, v, typ)
			c.Obs("probes", 1)
			c.Obs("probe_present", 1)
			if got > first {
				layout := ""
				for q := 0; q < index.NumPages() && q < 24; q++ {
					if index.NullPage(q) {
						layout += " null"
					} else {
						layout += fmt.Sprintf(" [%v,%v]", index.MinValue(q), index.MaxValue(q))
					}
				}
				c.Fail("c06.missed_page", keys, "Search returned %d but value %v occurs in page %d of %d (%s, column %s, ascending=%v descending=%v); pages:%s", got, v, first, index.NumPages(), src, col, index.IsAscending(), index.IsDescending(), layout)
				return false
			}
			if got < index.NumPages() && !index.NullPage(got) && (typ.Compare(v, index.MinValue(got)) < 0 || typ.Compare(v, index.MaxValue(got)) > 0) {
				c.Fail("c06.page_excludes_value", keys, "Search returned page %d whose bounds [%v,%v] exclude %v (%s, column %s)", got, index.MinValue(got), index.MaxValue(got), v, src, col)
				return false
			}
		}
	}
	return true
}
