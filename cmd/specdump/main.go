// Command specdump runs the independent decoder over parquet files and, for
// self-validation, compares its decoded streams with the library's reader.
package main

import (
	"bytes"
	"fmt"
	"os"

	"github.com/parquet-go/parquet-go"

	"verif/model"
	"verif/specreader"
)

func main() {
	bad := 0
	for _, path := range os.Args[1:] {
		data, err := os.ReadFile(path)
		if err != nil || len(data) == 0 {
			fmt.Printf("%-60s SKIP (%v, %d bytes)\n", path, err, len(data))
			continue
		}
		res := specreader.Validate(data, specreader.Expect{Codec: -1})
		status := "ok"
		if len(res.Problems) > 0 {
			status = fmt.Sprintf("%d problems", len(res.Problems))
		}
		nvals := 0
		for _, s := range res.Streams {
			nvals += len(s)
		}
		fmt.Printf("%-60s %s leaves=%d values=%d leniencies=%v\n", path, status, len(res.Streams), nvals, lenOf(res))
		for i, p := range res.Problems {
			if i < 6 {
				fmt.Printf("    [%s] %s\n", p.Rule, p.Msg)
			}
		}
		// cross-check against the library's reader
		f, err := parquet.OpenFile(bytes.NewReader(data), int64(len(data)))
		if err != nil {
			fmt.Printf("    library cannot open: %v\n", err)
			continue
		}
		if res.File == nil {
			bad++
			continue
		}
		ncols := len(f.Schema().Columns())
		var rows []parquet.Row
		ok := true
		for _, rg := range f.RowGroups() {
			rr := rg.Rows()
			buf := make([]parquet.Row, 64)
			for {
				n, err := rr.ReadRows(buf)
				for _, r := range buf[:n] {
					rows = append(rows, r.Clone())
				}
				if err != nil {
					if err.Error() != "EOF" {
						fmt.Printf("    library read error: %v\n", err)
						ok = false
					}
					break
				}
			}
			rr.Close()
		}
		decodeBad := false
		for _, p := range res.Problems {
			if p.Rule == "chunk.decode" || p.Rule == "chunk.page_walk" || p.Rule == "envelope" || p.Rule == "rowgroup.columns" {
				decodeBad = true
			}
		}
		if !ok || decodeBad {
			bad++
			continue
		}
		lib := model.RowsToStreams(rows, ncols)
		for c := 0; c < ncols && c < len(res.Streams); c++ {
			if len(lib[c]) != len(res.Streams[c]) {
				fmt.Printf("    column %d: library %d entries, specreader %d\n", c, len(lib[c]), len(res.Streams[c]))
				bad++
				break
			}
			for i := range lib[c] {
				e := res.Streams[c][i]
				l := lib[c][i]
				same := l.Null == e.Null && l.R == e.R && l.D == e.D && (l.Null || (l.I == e.I && bytes.Equal(l.B, e.B)))
				if !same {
					fmt.Printf("    column %d entry %d: library %s, specreader %+v\n", c, i, l, e)
					bad++
					break
				}
			}
		}
	}
	if bad > 0 {
		fmt.Printf("%d files with disagreements\n", bad)
		os.Exit(1)
	}
}

func lenOf(r *specreader.Result) map[string]int {
	if r.File == nil {
		return nil
	}
	return r.File.Len
}
