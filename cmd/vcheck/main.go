// Command vcheck is the driver of the runtime-monitoring checks (DESIGN §2).
// It never runs a workload itself: it builds the harness variants from /repo's
// current working tree, spawns one child per batch of cases, reads the event
// logs, runs the offline checkers (cross-variant digest join, race-log dedup),
// classifies violations against known_findings.json and writes the evidence.
package main

import (
	"bufio"
	"bytes"
	"crypto/sha256"
	"encoding/hex"
	"encoding/json"
	"flag"
	"fmt"
	"os"
	"os/exec"
	"path/filepath"
	"regexp"
	"sort"
	"strconv"
	"strings"
	"sync"
	"time"
)

const root = "/verif"

type variant struct {
	Name  string
	Build []string // extra go build args
	Tags  string
	Env   []string
	Go    string   // go binary (default "go")
	GoEnv []string // env for the build
	Tiers string   // "" = both, "thorough" = thorough only
	NoLim bool     // no ulimit -v (race/asan need the address space)
	Par   int      // max parallel children (0 = default)
}

var (
	vStd    = variant{Name: "std", Tags: "verif"}
	vRace   = variant{Name: "race", Tags: "verif", Build: []string{"-race"}, NoLim: true, Par: 8}
	vPurego = variant{Name: "purego", Tags: "verif,purego"}
	vNoAVX  = variant{Name: "noavx", Tags: "verif", Env: []string{"GODEBUG=cpu.avx512f=off,cpu.avx2=off,cpu.avx512vl=off,cpu.avx512bw=off"}}
	vAsan   = variant{Name: "asan", Tags: "verif", Build: []string{"-asan"}, NoLim: true, Par: 8, Tiers: "thorough"}
	vRaceT  = variant{Name: "race", Tags: "verif", Build: []string{"-race"}, NoLim: true, Par: 8, Tiers: "thorough"}
)

// which variants a property runs under
var propVariants = map[string][]variant{
	"C04": {vStd, vPurego, vNoAVX},
	"C17": {vStd, vPurego, vNoAVX},
	"C15": {vStd, vRace},
	"C16": {vStd, vRaceT},
	"C20": {vStd, vRace},
	"C08": {vStd, vRaceT},
	"C03": {vStd, vAsan},
	"C01": {vStd, vAsan},
	"C05": {vStd, vPurego, vNoAVX},
	"C10": {vStd, vPurego},
}

type violation struct {
	Detector string         `json:"detector"`
	Keys     map[string]any `json:"keys,omitempty"`
	Msg      string         `json:"msg"`
}

type record struct {
	T       string            `json:"t"`
	Case    int               `json:"case"`
	Variant string            `json:"variant,omitempty"`
	Desc    map[string]any    `json:"desc,omitempty"`
	Key     string            `json:"key,omitempty"`
	Trivial bool              `json:"trivial,omitempty"`
	Obs     map[string]int64  `json:"obs,omitempty"`
	Viols   []violation       `json:"viols,omitempty"`
	Dig     map[string]string `json:"dig,omitempty"`
	Extra   map[string]any    `json:"extra,omitempty"`
}

type describe struct {
	ID          string   `json:"id"`
	Level       string   `json:"level"`
	Cases       int      `json:"cases"`
	Batch       int      `json:"batch"`
	Floors      []string `json:"floors"`
	Rule        string   `json:"rule"`
	Assumptions []string `json:"assumptions"`
}

type knownFinding struct {
	ID       string `json:"id"`
	Property string `json:"property"`
	Status   string `json:"status"` // known | fixed
	Commit   string `json:"commit,omitempty"`
	Match    struct {
		Detector string         `json:"detector"`
		Keys     map[string]any `json:"keys"`
	} `json:"match"`
	Text string `json:"text"`
}

type found struct {
	v       violation
	rec     record
	variant string
}

func goEnv(extra []string) []string {
	env := []string{}
	for _, e := range os.Environ() {
		if strings.HasPrefix(e, "GOFLAGS=") || strings.HasPrefix(e, "GOPROXY=") || strings.HasPrefix(e, "GOTOOLCHAIN=") || strings.HasPrefix(e, "GOSUMDB=") {
			continue
		}
		env = append(env, e)
	}
	env = append(env, "GOFLAGS=-mod=mod", "GOPROXY=off")
	return append(env, extra...)
}

func buildVariant(v variant) (string, error) {
	bin := filepath.Join(root, "bin", "harness-"+buildName(v))
	args := []string{"build", "-tags", v.Tags}
	args = append(args, v.Build...)
	args = append(args, "-o", bin, "./harness")
	gobin := v.Go
	if gobin == "" {
		gobin = "go"
	}
	cmd := exec.Command(gobin, args...)
	cmd.Dir = root
	cmd.Env = goEnv(v.GoEnv)
	out, err := cmd.CombinedOutput()
	if err != nil {
		return "", fmt.Errorf("build %s failed: %v\n%s", v.Name, err, out)
	}
	return bin, nil
}

// noavx shares the std binary.
func buildName(v variant) string {
	if v.Name == "noavx" {
		return "std"
	}
	return v.Name
}

func main() {
	prop := flag.String("prop", "", "property id")
	tier := flag.String("tier", "", "quick|thorough")
	replay := flag.String("replay", "", "replay file")
	flag.Parse()
	if *tier == "" {
		*tier = os.Getenv("VERIF_TIER")
	}
	if *tier == "" {
		*tier = "quick"
	}
	seed := uint64(1)
	if s := os.Getenv("VERIF_SEED"); s != "" {
		if n, err := strconv.ParseUint(s, 10, 64); err == nil {
			seed = n
		}
	}
	if *replay != "" {
		os.Exit(doReplay(*replay))
	}
	os.Exit(run(*prop, *tier, seed))
}

type replayFile struct {
	Property  string         `json:"property"`
	Seed      uint64         `json:"seed"`
	Tier      string         `json:"tier"`
	Case      int            `json:"case"`
	Variant   string         `json:"variant"`
	Desc      map[string]any `json:"desc"`
	Violation violation      `json:"violation"`
	Extra     map[string]any `json:"extra,omitempty"`
	Command   string         `json:"command"`
}

func variantsFor(prop, tier string) []variant {
	vs := propVariants[prop]
	if vs == nil {
		vs = []variant{vStd}
	}
	var out []variant
	for _, v := range vs {
		if v.Tiers == "" || v.Tiers == tier {
			out = append(out, v)
		}
	}
	return out
}

func doReplay(path string) int {
	b, err := os.ReadFile(path)
	if err != nil {
		fmt.Println(err)
		return 2
	}
	var rf replayFile
	if err := json.Unmarshal(b, &rf); err != nil {
		fmt.Println(err)
		return 2
	}
	var v variant
	okv := false
	for _, x := range append(propVariants[rf.Property], vStd) {
		if x.Name == rf.Variant {
			v, okv = x, true
			break
		}
	}
	if !okv {
		v = vStd
	}
	bin, err := buildVariant(v)
	if err != nil {
		fmt.Println(err)
		return 2
	}
	if rf.Case < 0 {
		fmt.Println("this replay file describes a whole-run observation (race report / cross-variant split); re-run the check itself")
		return 2
	}
	cmd := exec.Command(bin, "-prop", rf.Property, "-tier", rf.Tier, "-seed", fmt.Sprint(rf.Seed),
		"-from", fmt.Sprint(rf.Case), "-to", fmt.Sprint(rf.Case+1), "-variant", v.Name)
	cmd.Env = append(os.Environ(), v.Env...)
	cmd.Env = append(cmd.Env, "GOTRACEBACK=all")
	out, err := cmd.CombinedOutput()
	os.Stdout.Write(out)
	if err != nil {
		fmt.Println("child:", err)
		return 1
	}
	if bytes.Contains(out, []byte(`"viols":[`)) {
		return 1
	}
	return 0
}

func run(prop, tier string, seed uint64) int {
	t0 := time.Now()
	vs := variantsFor(prop, tier)
	// build all variants (sequentially per distinct binary; go build is parallel inside)
	bins := map[string]string{}
	for _, v := range vs {
		bn := buildName(v)
		if _, ok := bins[bn]; ok {
			continue
		}
		bin, err := buildVariant(v)
		if err != nil {
			fmt.Printf("BUILD-FAILED property=%s %v\n", prop, err)
			return 2
		}
		bins[bn] = bin
	}
	// describe
	var d describe
	{
		out, err := exec.Command(bins[buildName(vs[0])], "-prop", prop, "-tier", tier, "-describe").Output()
		if err != nil {
			fmt.Printf("describe failed: %v\n", err)
			return 2
		}
		if err := json.Unmarshal(out, &d); err != nil {
			fmt.Printf("describe: %v\n", err)
			return 2
		}
	}
	runDir := filepath.Join(root, "run", fmt.Sprintf("%s-%s-%d", prop, tier, os.Getpid()))
	os.RemoveAll(runDir)
	os.MkdirAll(runDir, 0o755)
	if os.Getenv("VERIF_KEEP_RUN") == "" {
		defer os.RemoveAll(runDir)
	}

	type job struct {
		v        variant
		from, to int
		idx      int
	}
	var jobs []job
	for _, v := range vs {
		for from, k := 0, 0; from < d.Cases; from, k = from+d.Batch, k+1 {
			to := from + d.Batch
			if to > d.Cases {
				to = d.Cases
			}
			jobs = append(jobs, job{v, from, to, k})
		}
	}
	var mu sync.Mutex
	var recs []record
	var founds []found
	inconclusive := []string{}
	par := 16
	if p := os.Getenv("VERIF_PAR"); p != "" {
		if n, err := strconv.Atoi(p); err == nil && n > 0 {
			par = n
		}
	}
	sem := make(chan struct{}, par)
	semRace := make(chan struct{}, 8)
	var wg sync.WaitGroup
	batchTimeout := 900
	if tier == "thorough" {
		batchTimeout = 3600
	}
	if s := os.Getenv("VERIF_BATCH_TIMEOUT"); s != "" {
		if n, err := strconv.Atoi(s); err == nil {
			batchTimeout = n
		}
	}
	for _, j := range jobs {
		wg.Add(1)
		go func(j job) {
			defer wg.Done()
			sem <- struct{}{}
			defer func() { <-sem }()
			if j.v.Par > 0 {
				semRace <- struct{}{}
				defer func() { <-semRace }()
			}
			from := j.from
			hangs := 0
			for attempt := 0; from < j.to && attempt < 6; attempt++ {
				tag := fmt.Sprintf("%s-%d-%d", j.v.Name, j.idx, attempt)
				logf := filepath.Join(runDir, tag+".jsonl")
				outf := filepath.Join(runDir, tag+".out")
				bin := bins[buildName(j.v)]
				lim := "ulimit -v 12582912; "
				if j.v.NoLim {
					lim = ""
				}
				sh := fmt.Sprintf("%sexec timeout -s QUIT %d %s -prop %s -tier %s -seed %d -from %d -to %d -variant %s -log %s >%s 2>&1",
					lim, batchTimeout, bin, prop, tier, seed, from, j.to, j.v.Name, logf, outf)
				cmd := exec.Command("sh", "-c", sh)
				cmd.Dir = runDir
				cmd.Env = append(os.Environ(), j.v.Env...)
				cmd.Env = append(cmd.Env, "GOTRACEBACK=all", "VERIF_RUNDIR="+runDir)
				if strings.Contains(strings.Join(j.v.Build, " "), "-race") {
					cmd.Env = append(cmd.Env, "GORACE=halt_on_error=0 log_path="+filepath.Join(runDir, "race-"+tag))
				}
				err := cmd.Run()
				rs, open, hung := readLog2(logf)
				mu.Lock()
				recs = append(recs, rs...)
				mu.Unlock()
				if err == nil && open < 0 {
					return
				}
				if hung >= 0 && open < 0 {
					// the child's watchdog ended that case and reported it; go on with the
					// next one, but give up on the batch at the second hang (each costs minutes)
					hangs++
					if hangs >= 1 {
						return
					}
					from = hung + 1
					continue
				}
				// child died
				outb, _ := os.ReadFile(outf)
				tail := string(outb)
				if len(tail) > 6000 {
					tail = tail[:3000] + "\n…\n" + tail[len(tail)-3000:]
				}
				code := -1
				if ee, ok := err.(*exec.ExitError); ok {
					code = ee.ExitCode()
				}
				if open < 0 {
					// died between cases or at start
					raceExit := false
					if code == 66 {
						// the race detector's exit status after all cases ran: its reports are in the race log and become `race` violations
						if m, _ := filepath.Glob(filepath.Join(runDir, "race-"+tag+".*")); len(m) > 0 {
							raceExit = true
						}
					}
					if err != nil && !raceExit {
						mu.Lock()
						inconclusive = append(inconclusive, fmt.Sprintf("child %s exited %d outside any case: %s", tag, code, firstLine(tail)))
						mu.Unlock()
					}
					return
				}
				isTimeout := code == 124 || strings.Contains(string(outb), "SIGQUIT: quit")
				isOOM := strings.Contains(string(outb), "out of memory") || strings.Contains(string(outb), "cannot allocate memory")
				mu.Lock()
				if isTimeout {
					inconclusive = append(inconclusive, fmt.Sprintf("watchdog: case %d (%s) did not finish in %ds", open, j.v.Name, batchTimeout))
				} else if isOOM && absurdAllocation(prop, string(outb)) {
					// not the machine's limit: one block of tens of gigabytes requested while a few megabytes
					// are in use, on a workload whose inputs are all valid and small - a length read from the wrong memory
					founds = append(founds, found{
						v:       violation{Detector: "crash", Keys: map[string]any{"func": topRepoFrame(string(outb)), "kind": "absurd_allocation"}, Msg: tail},
						rec:     record{Case: open, Variant: j.v.Name},
						variant: j.v.Name,
					})
				} else if isOOM {
					inconclusive = append(inconclusive, fmt.Sprintf("memory limit: case %d (%s)", open, j.v.Name))
				} else {
					founds = append(founds, found{
						v:       violation{Detector: "crash", Keys: map[string]any{"func": topRepoFrame(string(outb)), "kind": crashKind(string(outb))}, Msg: tail},
						rec:     record{Case: open, Variant: j.v.Name},
						variant: j.v.Name,
					})
				}
				mu.Unlock()
				from = open + 1
			}
		}(j)
	}
	wg.Wait()

	// ---- aggregate
	evals := 0
	distinct := map[string]bool{}
	obs := map[string]int64{}
	var samples []any
	digs := map[string]map[string]string{} // "case/name" -> variant -> digest
	perVariant := map[string]int{}
	sort.Slice(recs, func(i, j int) bool {
		if recs[i].Case != recs[j].Case {
			return recs[i].Case < recs[j].Case
		}
		return recs[i].Variant < recs[j].Variant
	})
	for _, r := range recs {
		if r.T != "end" {
			continue
		}
		evals++
		perVariant[r.Variant]++
		if !r.Trivial {
			distinct[r.Key] = true
		}
		for k, v := range r.Obs {
			obs[k] += v
		}
		if len(samples) < 4 && r.Variant == vs[0].Name && !r.Trivial && (r.Case%(max(1, d.Cases/4)) == 0) {
			s := map[string]any{"case": r.Case, "desc": r.Desc}
			if r.Extra != nil && len(samples) == 0 {
				s["extra"] = r.Extra
			}
			samples = append(samples, s)
		}
		for _, v := range r.Viols {
			if v.Detector == "hang" && fmt.Sprint(v.Keys["kind"]) == "stalled" {
				inconclusive = append(inconclusive, fmt.Sprintf("case %d (%s) stalled without being provably dead-locked", r.Case, r.Variant))
				continue
			}
			founds = append(founds, found{v: v, rec: r, variant: r.Variant})
		}
		for name, dg := range r.Dig {
			k := fmt.Sprintf("%d/%s", r.Case, name)
			if digs[k] == nil {
				digs[k] = map[string]string{}
			}
			digs[k][r.Variant] = dg
		}
	}
	if len(samples) == 0 {
		for _, r := range recs {
			if r.T == "end" {
				samples = append(samples, map[string]any{"case": r.Case, "desc": r.Desc})
				break
			}
		}
	}
	// cross-variant digest join
	joined := 0
	for k, m := range digs {
		if len(m) < 2 {
			continue
		}
		joined++
		var first, fv string
		names := make([]string, 0, len(m))
		for v := range m {
			names = append(names, v)
		}
		sort.Strings(names)
		for _, v := range names {
			if first == "" {
				first, fv = m[v], v
			} else if m[v] != first {
				cs, _ := strconv.Atoi(strings.SplitN(k, "/", 2)[0])
				founds = append(founds, found{
					v:       violation{Detector: "xvariant", Keys: map[string]any{"digest": strings.SplitN(k, "/", 2)[1], "a": fv, "b": v}, Msg: fmt.Sprintf("digest %s differs between variants %s=%s and %s=%s", k, fv, first, v, m[v])},
					rec:     record{Case: cs, Variant: v},
					variant: v,
				})
			}
		}
	}
	if joined > 0 {
		obs["xvariant_digests_joined"] = int64(joined)
	}
	// race logs
	raceReports, raceDistinct := scanRaceLogs(runDir)
	if len(raceDistinct) > 0 || hasRace(vs) {
		obs["race_reports"] = int64(raceReports)
		obs["race_distinct"] = int64(len(raceDistinct))
	}
	for sig, text := range raceDistinct {
		founds = append(founds, found{
			v:       violation{Detector: "race", Keys: map[string]any{"pair": sig}, Msg: text},
			rec:     record{Case: -1, Variant: "race"},
			variant: "race",
		})
	}

	// ---- classify
	known := loadKnown()
	exit := 0
	printedKnown := map[string]bool{}
	nviol := 0
	seenV := map[string]bool{}
	sort.SliceStable(founds, func(i, j int) bool { return founds[i].rec.Case < founds[j].rec.Case })
	for _, f := range founds {
		if kf := matchKnown(known, prop, f.v); kf != nil {
			if !printedKnown[kf.ID] {
				printedKnown[kf.ID] = true
				fmt.Printf("KNOWN-FINDING: property=%s %s [%s] (e.g. case %d, variant %s)\n", prop, kf.Text, kf.ID, f.rec.Case, f.variant)
			}
			obs["known_finding_hits"]++
			continue
		}
		nviol++
		exit = 1
		sig := f.v.Detector + "|" + fmt.Sprint(f.v.Keys)
		if seenV[sig] && nviol > 3 {
			continue
		}
		seenV[sig] = true
		if len(seenV) > 12 {
			continue
		}
		rf := replayFile{Property: prop, Seed: seed, Tier: tier, Case: f.rec.Case, Variant: f.variant, Desc: f.rec.Desc, Violation: f.v, Extra: f.rec.Extra}
		rb, _ := json.Marshal(rf)
		h := sha256.Sum256(rb)
		dir := filepath.Join(root, "replay", prop)
		os.MkdirAll(dir, 0o755)
		path := filepath.Join(dir, hex.EncodeToString(h[:6])+".json")
		rf.Command = fmt.Sprintf("./check %s --replay %s", prop, path)
		rb, _ = json.MarshalIndent(rf, "", " ")
		os.WriteFile(path, rb, 0o644)
		fmt.Printf("VIOLATION property=%s replay=%s\n", prop, path)
		fmt.Printf("  detector=%s keys=%v case=%d variant=%s\n  %s\n", f.v.Detector, f.v.Keys, f.rec.Case, f.variant, indent(firstLines(f.v.Msg, 12)))
	}
	// floors
	for _, fl := range d.Floors {
		if obs[fl] <= 0 {
			inconclusive = append(inconclusive, "observation floor not met: "+fl+" = 0")
		}
	}
	expected := d.Cases * len(vs)
	if evals < expected && exit == 0 && len(inconclusive) == 0 {
		inconclusive = append(inconclusive, fmt.Sprintf("only %d of %d cases completed", evals, expected))
	}
	for _, s := range inconclusive {
		fmt.Printf("INCONCLUSIVE property=%s %s\n", prop, s)
	}

	// ---- evidence
	wall := time.Since(t0).Seconds()
	cov := map[string]any{
		"evaluations":         evals,
		"distinct_nontrivial": len(distinct),
		"rule":                d.Rule,
		"samples":             samples,
		"observations":        obs,
		"variants":            perVariant,
		"cases_per_variant":   d.Cases,
		"inconclusive":        inconclusive,
		"known_findings_hit":  keys(printedKnown),
	}
	ev := map[string]any{
		"property_id": prop, "tier": tier, "seed": seed, "level": d.Level,
		"coverage": cov, "assumptions": d.Assumptions, "wall_s": wall, "violations": nviol,
	}
	eb, _ := json.MarshalIndent(ev, "", " ")
	os.MkdirAll(filepath.Join(root, "evidence"), 0o755)
	os.WriteFile(filepath.Join(root, "evidence", prop+".json"), eb, 0o644)
	verdict := "held"
	if exit != 0 {
		verdict = "VIOLATED"
	} else if len(inconclusive) > 0 {
		verdict = "inconclusive"
	}
	fmt.Printf("%s %s seed=%d: %s — %d evaluations (%d distinct non-trivial) over variants %v, %d violations, %d known-finding hits, %.1fs\n",
		prop, tier, seed, verdict, evals, len(distinct), keysInt(perVariant), nviol, obs["known_finding_hits"], wall)
	ks := make([]string, 0, len(obs))
	for k := range obs {
		ks = append(ks, k)
	}
	sort.Strings(ks)
	var sb strings.Builder
	for _, k := range ks {
		fmt.Fprintf(&sb, " %s=%d", k, obs[k])
	}
	fmt.Printf("  observed:%s\n", sb.String())
	return exit
}

func hasRace(vs []variant) bool {
	for _, v := range vs {
		if v.Name == "race" {
			return true
		}
	}
	return false
}

func keys(m map[string]bool) []string {
	out := []string{}
	for k := range m {
		out = append(out, k)
	}
	sort.Strings(out)
	return out
}
func keysInt(m map[string]int) []string {
	out := []string{}
	for k, v := range m {
		out = append(out, fmt.Sprintf("%s:%d", k, v))
	}
	sort.Strings(out)
	return out
}

func firstLine(s string) string { return firstLines(s, 1) }
func firstLines(s string, n int) string {
	ls := strings.Split(s, "\n")
	if len(ls) > n {
		ls = ls[:n]
	}
	return strings.Join(ls, "\n")
}
func indent(s string) string { return strings.ReplaceAll(s, "\n", "\n  ") }

func readLog(path string) (recs []record, open int) {
	recs, open, _ = readLog2(path)
	return
}

func readLog2(path string) (recs []record, open int, hung int) {
	open, hung = -1, -1
	f, err := os.Open(path)
	if err != nil {
		return nil, -1, -1
	}
	defer f.Close()
	sc := bufio.NewScanner(f)
	sc.Buffer(make([]byte, 1<<20), 1<<28)
	for sc.Scan() {
		var r record
		if err := json.Unmarshal(sc.Bytes(), &r); err != nil {
			continue
		}
		switch r.T {
		case "begin":
			open = r.Case
		case "end":
			open = -1
			recs = append(recs, r)
		case "hang":
			// the child's own watchdog ended the case (livelock / deadlock / stalled)
			open = -1
			r.T = "end"
			r.Extra = map[string]any{"hang_next": r.Case + 1}
			recs = append(recs, r)
			hung = r.Case
		}
	}
	return recs, open, hung
}

var reAllocBlock = regexp.MustCompile(`cannot allocate (\d+)-byte block \((\d+) in use\)`)

// absurdAllocation reports whether an out-of-memory death is a single request
// of >= 64 GiB made while < 1 GiB was in use, in a property whose workloads
// only feed valid inputs of a few megabytes (the hostile-input properties C13,
// C14, C18, C20 are excluded: there a size read from damaged bytes is possible
// without the property being violated).
func absurdAllocation(prop, out string) bool {
	switch prop {
	case "C13", "C14", "C18", "C20":
		return false
	}
	m := reAllocBlock.FindStringSubmatch(out)
	if m == nil {
		return false
	}
	block, _ := strconv.ParseInt(m[1], 10, 64)
	inUse, _ := strconv.ParseInt(m[2], 10, 64)
	return block >= 64<<30 && inUse < 1<<30
}

func crashKind(out string) string {
	switch {
	case strings.Contains(out, "checkptr"):
		return "checkptr"
	case strings.Contains(out, "AddressSanitizer"):
		return "asan"
	case strings.Contains(out, "concurrent map"):
		return "concurrent-map"
	case strings.Contains(out, "all goroutines are asleep"):
		return "deadlock"
	case strings.Contains(out, "fatal error:"):
		return "fatal"
	case strings.Contains(out, "panic:"):
		return "panic"
	case strings.Contains(out, "SIGSEGV"):
		return "sigsegv"
	}
	return "exit"
}

func topRepoFrame(stack string) string {
	lines := strings.Split(stack, "\n")
	for i := 0; i+1 < len(lines); i++ {
		if strings.Contains(lines[i+1], "/repo/") && !strings.HasPrefix(lines[i], "\t") && !strings.HasPrefix(lines[i], " ") {
			fn := lines[i]
			if j := strings.LastIndex(fn, "("); j > 0 {
				fn = fn[:j]
			}
			if j := strings.LastIndex(fn, "/"); j >= 0 {
				fn = fn[j+1:]
			}
			return fn
		}
	}
	return ""
}

func loadKnown() []knownFinding {
	b, err := os.ReadFile(filepath.Join(root, "known_findings.json"))
	if err != nil {
		return nil
	}
	var f struct {
		Findings []knownFinding `json:"findings"`
	}
	if err := json.Unmarshal(b, &f); err != nil {
		fmt.Printf("known_findings.json: %v\n", err)
		return nil
	}
	return f.Findings
}

func matchKnown(ks []knownFinding, prop string, v violation) *knownFinding {
	for i := range ks {
		k := &ks[i]
		if k.Status != "known" || k.Property != prop || k.Match.Detector != v.Detector || len(k.Match.Keys) == 0 {
			continue
		}
		ok := true
		for a, b := range k.Match.Keys {
			if fmt.Sprint(v.Keys[a]) != fmt.Sprint(b) {
				ok = false
				break
			}
		}
		if ok {
			return k
		}
	}
	return nil
}

var reGoroutine = regexp.MustCompile(`(?m)^(Previous |Read|Write|Goroutine).*$`)

// scanRaceLogs counts "WARNING: DATA RACE" blocks and de-duplicates them by the
// pair of first library frames of the two accesses (line numbers stripped).
func scanRaceLogs(dir string) (int, map[string]string) {
	files, _ := filepath.Glob(filepath.Join(dir, "race-*"))
	outs, _ := filepath.Glob(filepath.Join(dir, "*.out"))
	files = append(files, outs...)
	total := 0
	distinct := map[string]string{}
	for _, f := range files {
		b, err := os.ReadFile(f)
		if err != nil {
			continue
		}
		blocks := strings.Split(string(b), "WARNING: DATA RACE")
		for _, blk := range blocks[1:] {
			total++
			if i := strings.Index(blk, "=================="); i >= 0 {
				blk = blk[:i]
			}
			sig := raceSig(blk)
			if _, ok := distinct[sig]; !ok {
				if len(blk) > 5000 {
					blk = blk[:5000]
				}
				distinct[sig] = "WARNING: DATA RACE" + blk
			}
		}
	}
	return total, distinct
}

func raceSig(blk string) string {
	// sections start with "Read at"/"Write at"/"Previous read at"/"Previous write at"
	lines := strings.Split(blk, "\n")
	var sigs []string
	inAccess := false
	got := false
	for _, l := range lines {
		t := strings.TrimSpace(l)
		if strings.HasPrefix(t, "Read at") || strings.HasPrefix(t, "Write at") || strings.HasPrefix(t, "Previous read at") || strings.HasPrefix(t, "Previous write at") {
			inAccess, got = true, false
			continue
		}
		if strings.HasPrefix(t, "Goroutine ") {
			inAccess = false
		}
		if inAccess && !got && t != "" && !strings.HasPrefix(t, "/") && !strings.HasPrefix(t, "runtime.") && !strings.Contains(t, "racecall") {
			fn := t
			if j := strings.LastIndex(fn, "("); j > 0 {
				fn = fn[:j]
			}
			sigs = append(sigs, fn)
			got = true
		}
	}
	sort.Strings(sigs)
	return strings.Join(sigs, " <-> ")
}

var _ = reGoroutine
