// Package model is the reference model (DESIGN §3.2): Dremel striping of Go
// values under the documented Go<->Parquet mapping, the spec's sort orders,
// sorted merge and projection. It is written from the specification text and
// the SchemaOf documentation; the only thing taken from the library is the
// node tree it reports through the public Node interface (trusted base).
package model

import (
	"bytes"
	"encoding/binary"
	"fmt"
	"math"
	"reflect"
	"sort"
	"strings"
	"time"

	"github.com/parquet-go/parquet-go"
	"github.com/parquet-go/parquet-go/format"
)

// LV is one entry of a leaf column stream.
type LV struct {
	Null bool
	Kind int8   // parquet physical type number: 0 bool,1 i32,2 i64,3 i96,4 float,5 double,6 byte array,7 flba
	I    int64  // bool/int32/int64 value, or float/double bit pattern
	B    []byte // byte array / flba / int96 (12 bytes LE)
	R, D int
}

const (
	KBool = iota
	KInt32
	KInt64
	KInt96
	KFloat
	KDouble
	KByteArray
	KFixed
)

func (a LV) Equal(b LV) bool {
	if a.Null != b.Null || a.R != b.R || a.D != b.D {
		return false
	}
	if a.Null {
		return true
	}
	return a.Kind == b.Kind && a.I == b.I && bytes.Equal(a.B, b.B)
}

func (a LV) String() string {
	if a.Null {
		return fmt.Sprintf("null(r%d,d%d)", a.R, a.D)
	}
	switch a.Kind {
	case KByteArray, KFixed, KInt96:
		if len(a.B) > 20 {
			return fmt.Sprintf("%x…/%d(r%d,d%d)", a.B[:20], len(a.B), a.R, a.D)
		}
		return fmt.Sprintf("%x(r%d,d%d)", a.B, a.R, a.D)
	case KFloat, KDouble:
		return fmt.Sprintf("f%#x(r%d,d%d)", uint64(a.I), a.R, a.D)
	}
	return fmt.Sprintf("%d(r%d,d%d)", a.I, a.R, a.D)
}

// FromValue converts a library Value into the model's representation.
func FromValue(v parquet.Value) LV {
	lv := LV{R: v.RepetitionLevel(), D: v.DefinitionLevel()}
	if v.IsNull() {
		lv.Null = true
		return lv
	}
	switch v.Kind() {
	case parquet.Boolean:
		lv.Kind = KBool
		if v.Boolean() {
			lv.I = 1
		}
	case parquet.Int32:
		lv.Kind, lv.I = KInt32, int64(v.Int32())
	case parquet.Int64:
		lv.Kind, lv.I = KInt64, v.Int64()
	case parquet.Int96:
		lv.Kind = KInt96
		x := v.Int96()
		lv.B = make([]byte, 12)
		binary.LittleEndian.PutUint32(lv.B[0:], x[0])
		binary.LittleEndian.PutUint32(lv.B[4:], x[1])
		binary.LittleEndian.PutUint32(lv.B[8:], x[2])
	case parquet.Float:
		lv.Kind, lv.I = KFloat, int64(math.Float32bits(v.Float()))
	case parquet.Double:
		lv.Kind, lv.I = KDouble, int64(math.Float64bits(v.Double()))
	case parquet.ByteArray:
		lv.Kind, lv.B = KByteArray, append([]byte{}, v.ByteArray()...)
	case parquet.FixedLenByteArray:
		lv.Kind, lv.B = KFixed, append([]byte{}, v.ByteArray()...)
	}
	return lv
}

// Streams is one (value, r, d) sequence per leaf column, in schema order.
type Streams [][]LV

type shredder struct {
	out      Streams
	leafBase map[parquet.Node]int
	next     int
}

// LeafCount returns the number of leaves under node.
func LeafCount(node parquet.Node) int {
	if node.Leaf() {
		return 1
	}
	n := 0
	for _, f := range node.Fields() {
		n += LeafCount(f)
	}
	return n
}

// Shred stripes rows (a slice of structs) into column streams following the
// Dremel algorithm and the documented Go mapping.
func Shred(schema parquet.Node, rows reflect.Value) (s Streams, err error) {
	defer func() {
		if r := recover(); r != nil {
			err = fmt.Errorf("model.Shred: %v", r)
		}
	}()
	sh := &shredder{out: make(Streams, LeafCount(schema))}
	for i := 0; i < rows.Len(); i++ {
		sh.group(schema, rows.Index(i), 0, 0, 0, 0)
	}
	return sh.out, nil
}

func deref(v reflect.Value) reflect.Value {
	for v.Kind() == reflect.Ptr || v.Kind() == reflect.Interface {
		if v.IsNil() {
			return v
		}
		v = v.Elem()
	}
	return v
}

func (s *shredder) emitNull(node parquet.Node, col, r, d int) {
	n := LeafCount(node)
	for i := 0; i < n; i++ {
		s.out[col+i] = append(s.out[col+i], LV{Null: true, R: r, D: d})
	}
}

// node: the schema node; v: Go value holding it; col: index of the node's first leaf;
// r: repetition level to emit for the first value; d: definition level reached so far;
// rep: the repetition depth of the enclosing repeated fields.
func (s *shredder) walk(node parquet.Node, v reflect.Value, col, r, d, rep int) {
	switch {
	case node.Optional():
		if goNull(node, v) {
			s.emitNull(node, col, r, d)
			return
		}
		s.required(node, deref(v), col, r, d+1, rep)
	case node.Repeated():
		v = deref(v)
		if !v.IsValid() || (v.Kind() == reflect.Ptr) || v.Len() == 0 {
			s.emitNull(node, col, r, d)
			return
		}
		for i := 0; i < v.Len(); i++ {
			ri := rep + 1
			if i == 0 {
				ri = r
			}
			s.required(node, deref(v.Index(i)), col, ri, d+1, rep+1)
		}
	default:
		s.required(node, deref(v), col, r, d, rep)
	}
}

func isList(node parquet.Node) bool {
	if node.Leaf() {
		return false
	}
	lt := node.Type().LogicalType()
	if lt == nil {
		return false
	}
	_, ok := lt.Value.(*format.ListType)
	return ok
}

func isMap(node parquet.Node) bool {
	if node.Leaf() {
		return false
	}
	lt := node.Type().LogicalType()
	if lt == nil {
		return false
	}
	_, ok := lt.Value.(*format.MapType)
	return ok
}

func goNull(node parquet.Node, v reflect.Value) bool {
	if !v.IsValid() {
		return true
	}
	switch v.Kind() {
	case reflect.Ptr, reflect.Interface:
		if v.IsNil() {
			return true
		}
		return goNull(node, v.Elem()) && v.Elem().Kind() == reflect.Ptr
	case reflect.Slice:
		if isList(node) {
			return v.IsNil()
		}
		return v.Len() == 0 // optional []byte: the zero value is null
	case reflect.Map:
		return v.IsNil()
	case reflect.Struct:
		if v.Type() == reflect.TypeOf(time.Time{}) {
			return v.Interface().(time.Time).IsZero()
		}
		return v.IsZero() // the zero value of an optional non-pointer struct is null, like any other optional non-pointer field
	default:
		return v.IsZero()
	}
}

func (s *shredder) required(node parquet.Node, v reflect.Value, col, r, d, rep int) {
	if node.Leaf() {
		s.out[col] = append(s.out[col], leafValue(node, v, r, d))
		return
	}
	switch {
	case isList(node) && v.Kind() == reflect.Slice:
		listNode := node.Fields()[0]
		elemNode := listNode.Fields()[0]
		if v.Len() == 0 {
			s.emitNull(listNode, col, r, d)
			return
		}
		for i := 0; i < v.Len(); i++ {
			ri := rep + 1
			if i == 0 {
				ri = r
			}
			s.walk(elemNode, v.Index(i), col, ri, d+1, rep+1)
		}
	case isMap(node) && v.Kind() == reflect.Map:
		kv := node.Fields()[0]
		keyNode, valNode := kv.Fields()[0], kv.Fields()[1]
		if v.Len() == 0 {
			s.emitNull(kv, col, r, d)
			return
		}
		keys := v.MapKeys()
		sort.Slice(keys, func(i, j int) bool { return fmt.Sprint(keys[i].Interface()) < fmt.Sprint(keys[j].Interface()) })
		kl := LeafCount(keyNode)
		for i, k := range keys {
			ri := rep + 1
			if i == 0 {
				ri = r
			}
			s.walk(keyNode, k, col, ri, d+1, rep+1)
			s.walk(valNode, v.MapIndex(k), col+kl, ri, d+1, rep+1)
		}
	default:
		s.group(node, v, col, r, d, rep)
	}
}

func (s *shredder) group(node parquet.Node, v reflect.Value, col, r, d, rep int) {
	v = deref(v)
	if v.Kind() != reflect.Struct {
		panic(fmt.Sprintf("group node over Go kind %s", v.Kind()))
	}
	for _, f := range node.Fields() {
		fv, ok := goField(v, f.Name())
		if !ok {
			panic("no Go field for column " + f.Name())
		}
		s.walk(f, fv, col, r, d, rep)
		col += LeafCount(f)
	}
}

// goField finds the struct field mapped to a column name (own tag parsing;
// anonymous structs are flattened as documented).
func goField(v reflect.Value, name string) (reflect.Value, bool) {
	t := v.Type()
	for i := 0; i < t.NumField(); i++ {
		f := t.Field(i)
		if !f.IsExported() {
			continue
		}
		tag := f.Tag.Get("parquet")
		if tag == "-" {
			continue
		}
		if f.Anonymous && f.Type.Kind() == reflect.Struct && strings.Split(tag, ",")[0] == "" {
			if fv, ok := goField(v.Field(i), name); ok {
				return fv, true
			}
			continue
		}
		n := strings.Split(tag, ",")[0]
		if n == "" {
			n = f.Name
		}
		if n == name {
			return v.Field(i), true
		}
	}
	return reflect.Value{}, false
}

func leafValue(node parquet.Node, v reflect.Value, r, d int) LV {
	lv := LV{R: r, D: d}
	kind := node.Type().Kind()
	lt := node.Type().LogicalType()
	if v.IsValid() && v.Type() == reflect.TypeOf(time.Time{}) {
		t := v.Interface().(time.Time)
		switch kind {
		case parquet.Int32: // DATE
			lv.Kind = KInt32
			lv.I = floorDiv(t.Unix(), 86400)
		default:
			lv.Kind = KInt64
			unit := int64(time.Millisecond)
			if lt != nil {
				if ts, ok := lt.Value.(*format.TimestampType); ok && ts.Unit.Value != nil {
					unit = int64(ts.Unit.Value.Duration())
				}
			}
			switch unit {
			case int64(time.Millisecond):
				lv.I = t.UnixMilli() // reaches beyond what int64 nanoseconds hold
			case int64(time.Microsecond):
				lv.I = t.UnixMicro()
			default:
				lv.I = floorDiv(t.UnixNano(), unit)
			}
		}
		return lv
	}
	if v.IsValid() && v.Type() == reflect.TypeOf(time.Duration(0)) && lt != nil {
		if tt, ok := lt.Value.(*format.TimeType); ok && tt.Unit.Value != nil {
			// a time.Duration field tagged time(unit): nanoseconds in Go, the column's unit in the file
			lv.Kind = KInt64
			if kind == parquet.Int32 {
				lv.Kind = KInt32
			}
			lv.I = v.Int() / int64(tt.Unit.Value.Duration())
			return lv
		}
	}
	switch kind {
	case parquet.Boolean:
		lv.Kind = KBool
		if v.Bool() {
			lv.I = 1
		}
	case parquet.Int32:
		lv.Kind = KInt32
		lv.I = int64(int32(intBits(v)))
	case parquet.Int64:
		lv.Kind = KInt64
		lv.I = int64(intBits(v))
	case parquet.Int96:
		lv.Kind = KInt96
		lv.B = make([]byte, 12)
		for i := 0; i < 3; i++ {
			binary.LittleEndian.PutUint32(lv.B[4*i:], uint32(v.Index(i).Uint()))
		}
	case parquet.Float:
		lv.Kind, lv.I = KFloat, int64(math.Float32bits(float32(v.Float())))
	case parquet.Double:
		lv.Kind, lv.I = KDouble, int64(math.Float64bits(v.Float()))
	case parquet.ByteArray:
		lv.Kind, lv.B = KByteArray, goBytes(v)
	case parquet.FixedLenByteArray:
		lv.Kind, lv.B = KFixed, goBytes(v)
		if v.Kind() == reflect.String && lt != nil && isUUID(lt) {
			// a string field tagged uuid holds the text form; the column stores the 16 bytes
			lv.B = uuidBytes(v.String())
		}
	}
	return lv
}

// uuidBytes parses the canonical text form xxxxxxxx-xxxx-xxxx-xxxx-xxxxxxxxxxxx; the empty string is 16 zero bytes.
func uuidBytes(s string) []byte {
	out := make([]byte, 0, 16)
	hex := strings.ReplaceAll(s, "-", "")
	for i := 0; i+1 < len(hex) && len(out) < 16; i += 2 {
		var b byte
		for _, c := range []byte(hex[i : i+2]) {
			b <<= 4
			switch {
			case c >= '0' && c <= '9':
				b |= c - '0'
			case c >= 'a' && c <= 'f':
				b |= c - 'a' + 10
			case c >= 'A' && c <= 'F':
				b |= c - 'A' + 10
			}
		}
		out = append(out, b)
	}
	for len(out) < 16 {
		out = append(out, 0)
	}
	return out
}

func floorDiv(a, b int64) int64 {
	q := a / b
	if (a%b != 0) && ((a < 0) != (b < 0)) {
		q--
	}
	return q
}

func intBits(v reflect.Value) uint64 {
	switch v.Kind() {
	case reflect.Int, reflect.Int8, reflect.Int16, reflect.Int32, reflect.Int64:
		return uint64(v.Int())
	case reflect.Uint, reflect.Uint8, reflect.Uint16, reflect.Uint32, reflect.Uint64:
		return v.Uint()
	}
	panic("model: integer column over Go kind " + v.Kind().String())
}

func goBytes(v reflect.Value) []byte {
	switch v.Kind() {
	case reflect.String:
		return []byte(v.String())
	case reflect.Slice:
		return append([]byte{}, v.Bytes()...)
	case reflect.Array:
		b := make([]byte, v.Len())
		for i := range b {
			b[i] = byte(v.Index(i).Uint())
		}
		return b
	}
	panic("model: byte column over Go kind " + v.Kind().String())
}

// DiffStreams returns "" when equal, else a description of the first difference.
func DiffStreams(a, b Streams) string {
	if len(a) != len(b) {
		return fmt.Sprintf("column count %d != %d", len(a), len(b))
	}
	for c := range a {
		if len(a[c]) != len(b[c]) {
			return fmt.Sprintf("column %d: %d values != %d values%s", c, len(a[c]), len(b[c]), firstDiff(a[c], b[c]))
		}
		for i := range a[c] {
			if !a[c][i].Equal(b[c][i]) {
				return fmt.Sprintf("column %d value %d: %s != %s", c, i, a[c][i], b[c][i])
			}
		}
	}
	return ""
}

func firstDiff(a, b []LV) string {
	for i := 0; i < len(a) && i < len(b); i++ {
		if !a[i].Equal(b[i]) {
			return fmt.Sprintf(" (first difference at %d: %s != %s)", i, a[i], b[i])
		}
	}
	return ""
}

// RowsToStreams groups library rows into per-column streams.
func RowsToStreams(rows []parquet.Row, ncols int) Streams {
	s := make(Streams, ncols)
	for _, row := range rows {
		for _, v := range row {
			c := v.Column()
			if c < 0 || c >= ncols {
				continue
			}
			s[c] = append(s[c], FromValue(v))
		}
	}
	return s
}

// ToValue converts a model leaf entry into a library Value of column col.
func ToValue(lv LV, col int) parquet.Value {
	var v parquet.Value
	if lv.Null {
		v = parquet.NullValue()
	} else {
		switch lv.Kind {
		case KBool:
			v = parquet.BooleanValue(lv.I != 0)
		case KInt32:
			v = parquet.Int32Value(int32(lv.I))
		case KInt64:
			v = parquet.Int64Value(lv.I)
		case KInt96:
			var x [3]uint32
			for i := 0; i < 3; i++ {
				x[i] = binary.LittleEndian.Uint32(lv.B[4*i:])
			}
			v = parquet.Int96Value(x)
		case KFloat:
			v = parquet.FloatValue(math.Float32frombits(uint32(lv.I)))
		case KDouble:
			v = parquet.DoubleValue(math.Float64frombits(uint64(lv.I)))
		case KByteArray:
			v = parquet.ByteArrayValue(lv.B)
		case KFixed:
			v = parquet.FixedLenByteArrayValue(lv.B)
		}
	}
	return v.Level(lv.R, lv.D, col)
}

// SplitRows cuts one column stream into per-row slices (a row starts at r == 0).
func SplitRows(col []LV) [][]LV {
	var out [][]LV
	for i, v := range col {
		if v.R == 0 || i == 0 {
			out = append(out, nil)
		}
		out[len(out)-1] = append(out[len(out)-1], v)
	}
	return out
}

func isUUID(lt *format.LogicalType) bool {
	_, ok := lt.Value.(*format.UUIDType)
	return ok
}
