#!/bin/bash
# Runs the repository's own test suite with the `verif` guard OFF and checks
# that every test listed in BASELINE.json's stable_pass passed (the pristine
# tree exits non-zero because of an emptied test-data file, so the exit code of
# `go test` is not the criterion; see DESIGN §2.2).
set -u
unset GOTOOLCHAIN GOSUMDB
export GOFLAGS=-mod=mod GOPROXY=off
out="$(mktemp /tmp/baseline_off.XXXXXX.json)"
(cd /repo && go test -json -vet=off -count=1 -timeout 25m ./... > "$out" 2>/dev/null)
python3 - "$out" <<'PY'
import json, sys
passed=set(); failed=set()
for line in open(sys.argv[1], errors='replace'):
    line=line.strip()
    if not line.startswith('{'): continue
    try: e=json.loads(line)
    except Exception: continue
    if e.get('Test') and e.get('Action') in ('pass','fail'):
        k=e['Package']+'::'+e['Test']
        (passed if e['Action']=='pass' else failed).add(k)
base=json.load(open('/root/.vp/BASELINE.json'))['stable_pass']
missing=[t for t in base if t not in passed]
print(f"baseline(off): stable_pass={len(base)} passed_now={len(passed)} failed_now={len(failed)} missing_from_passed={len(missing)}")
for t in missing[:20]: print("  NOT PASSING:", t)
sys.exit(1 if missing else 0)
PY
rc=$?
rm -f "$out"
exit $rc
