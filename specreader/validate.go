package specreader

import (
	"bytes"
	"fmt"
	"math"
)

func f32frombits(u uint32) float32 { return math.Float32frombits(u) }
func f64frombits(u uint64) float64 { return math.Float64frombits(u) }

// Problem is one violated well-formedness invariant. Rule is a stable id.
type Problem struct {
	Rule string
	Msg  string
	Col  int // leaf column the problem is about, -1 if none
}

// Expect carries what the writer was configured with (optional checks).
type Expect struct {
	MaxRowsPerRowGroup int64 // 0 = unknown
	KeyValues          [][2]string
	PageVersion        int // 0 unknown, 1, 2
	Codec              int // -1 unknown
}

// ChunkData is everything decoded from one chunk.
type ChunkData struct {
	Chunk *Chunk
	Leaf  *Leaf
	Pages []PageInfo
	Data  []DecodedPage
	Dict  *Vals
	CI    *ColumnIndex
	OI    *OffsetIndex
}

// Result of Validate.
type Result struct {
	File     *File
	Problems []Problem
	Chunks   [][]*ChunkData // [row group][column]
	Streams  [][]Entry      // per leaf, all row groups concatenated
	Counts   map[string]int // what was evaluated (evidence)
	curCol   int
}

func (r *Result) bad(rule, format string, a ...any) {
	if len(r.Problems) < 40 {
		r.Problems = append(r.Problems, Problem{Rule: rule, Msg: fmt.Sprintf(format, a...), Col: r.curCol})
	}
}

func (r *Result) seen(rule string) { r.Counts[rule]++ }

// Validate checks every invariant of DESIGN §4 C02 that can be decided from
// the bytes alone and decodes all column streams.
func Validate(data []byte, ex Expect) *Result {
	res := &Result{Counts: map[string]int{}, curCol: -1}
	f, err := Parse(data)
	if err != nil {
		res.bad("envelope", "%v", err)
		return res
	}
	res.File = f
	res.seen("envelope")
	if f.Trailing != 0 {
		res.bad("footer.trailing", "%d bytes of the footer are not part of FileMetaData", f.Trailing)
	}
	res.seen("footer.trailing")
	if f.Version < 1 {
		res.bad("footer.version", "version=%d", f.Version)
	}
	res.Streams = make([][]Entry, len(f.Leaves))
	var totalRows int64
	prevEnd := int64(4)
	_ = prevEnd
	for gi := range f.RowGroups {
		rg := &f.RowGroups[gi]
		totalRows += rg.NumRows
		res.seen("rowgroup.columns")
		if len(rg.Chunks) != len(f.Leaves) {
			res.bad("rowgroup.columns", "row group %d has %d column chunks, schema has %d leaves", gi, len(rg.Chunks), len(f.Leaves))
			return res
		}
		if rg.HasOrdinal {
			res.seen("rowgroup.ordinal")
			if rg.Ordinal != int64(gi) {
				res.bad("rowgroup.ordinal", "row group %d has ordinal %d", gi, rg.Ordinal)
			}
		}
		if ex.MaxRowsPerRowGroup > 0 {
			res.seen("rowgroup.maxrows")
			if rg.NumRows > ex.MaxRowsPerRowGroup {
				res.bad("rowgroup.maxrows", "row group %d has %d rows, MaxRowsPerRowGroup=%d", gi, rg.NumRows, ex.MaxRowsPerRowGroup)
			}
		}
		if rg.NumRows <= 0 {
			res.bad("rowgroup.numrows", "row group %d has num_rows=%d", gi, rg.NumRows)
		}
		var sumUnc, sumComp int64
		var cds []*ChunkData
		for ci := range rg.Chunks {
			ch := &rg.Chunks[ci]
			leaf := &f.Leaves[ci]
			cd := &ChunkData{Chunk: ch, Leaf: leaf}
			cds = append(cds, cd)
			if !ch.HasMeta {
				res.bad("chunk.meta", "row group %d column %d has no meta_data", gi, ci)
				continue
			}
			sumUnc += ch.TotalUncompressed
			sumComp += ch.TotalCompressed
			res.curCol = ci
			res.validateChunk(f, gi, ci, cd, ex)
			res.curCol = -1
			for _, dp := range cd.Data {
				res.Streams[ci] = append(res.Streams[ci], dp.Entries...)
			}
		}
		res.Chunks = append(res.Chunks, cds)
		res.seen("rowgroup.total_byte_size")
		if rg.TotalByteSize != sumUnc {
			res.bad("rowgroup.total_byte_size", "row group %d total_byte_size=%d, sum of total_uncompressed_size=%d", gi, rg.TotalByteSize, sumUnc)
		}
		if rg.HasTotalCompressed {
			res.seen("rowgroup.total_compressed_size")
			if rg.TotalCompressed != sumComp {
				res.bad("rowgroup.total_compressed_size", "row group %d total_compressed_size=%d, sum over chunks=%d", gi, rg.TotalCompressed, sumComp)
			}
		}
		if rg.HasFileOffset && len(rg.Chunks) > 0 && rg.Chunks[0].HasMeta {
			res.seen("rowgroup.file_offset")
			first := rg.Chunks[0].DataPageOffset
			if rg.Chunks[0].HasDictOffset && rg.Chunks[0].DictPageOffset > 0 && rg.Chunks[0].DictPageOffset < first {
				first = rg.Chunks[0].DictPageOffset
			}
			if rg.FileOffset != first {
				res.bad("rowgroup.file_offset", "row group %d file_offset=%d, first page of its first column at %d", gi, rg.FileOffset, first)
			}
		}
		for _, s := range rg.Sorting {
			res.seen("rowgroup.sorting_column_idx")
			if s[0] < 0 || s[0] >= int64(len(f.Leaves)) {
				res.bad("rowgroup.sorting_column_idx", "row group %d sorting column index %d out of range", gi, s[0])
			}
		}
	}
	res.seen("footer.num_rows")
	if totalRows != f.NumRows {
		res.bad("footer.num_rows", "file num_rows=%d, sum over row groups=%d", f.NumRows, totalRows)
	}
	// chunks must not overlap
	spans := f.chunkSpans()
	for i := 1; i < len(spans); i++ {
		res.seen("chunk.overlap")
		if spans[i][0] < spans[i-1][1] {
			res.bad("chunk.overlap", "chunks %d and %d overlap: [%d,%d) and [%d,%d)", spans[i-1][2], spans[i][2], spans[i-1][0], spans[i-1][1], spans[i][0], spans[i][1])
		}
	}
	if ex.KeyValues != nil {
		res.seen("footer.key_values")
		for _, want := range ex.KeyValues {
			found := false
			for _, kv := range f.KeyValues {
				if kv == want {
					found = true
				}
			}
			if !found {
				res.bad("footer.key_values", "key/value %q=%q not in the footer", want[0], want[1])
			}
		}
	}
	return res
}

func pathEq(a, b []string) bool {
	if len(a) != len(b) {
		return false
	}
	for i := range a {
		if a[i] != b[i] {
			return false
		}
	}
	return true
}

func (res *Result) validateChunk(f *File, gi, ci int, cd *ChunkData, ex Expect) {
	ch, leaf := cd.Chunk, cd.Leaf
	where := fmt.Sprintf("row group %d column %d (%s)", gi, ci, leaf.Name())
	rg := &f.RowGroups[gi]
	res.seen("chunk.path_in_schema")
	if !pathEq(ch.Path, leaf.Path) {
		res.bad("chunk.path_in_schema", "%s: path_in_schema=%q", where, ch.Path)
	}
	res.seen("chunk.type")
	if ch.Type != leaf.Type {
		res.bad("chunk.type", "%s: type %d, schema says %d", where, ch.Type, leaf.Type)
	}
	if ex.Codec >= 0 {
		res.seen("chunk.codec")
	}
	if ch.HasBloomLength && !ch.HasBloomOffset {
		res.bad("chunk.bloom_length_without_offset", "%s: bloom_filter_length=%d without bloom_filter_offset", where, ch.BloomLength)
	}
	res.seen("chunk.bloom_length_without_offset")
	if ch.HasBloomOffset {
		res.seen("chunk.bloom_filter")
		if ch.BloomOffset < 4 || ch.BloomOffset >= int64(f.FooterPos) {
			res.bad("chunk.bloom_filter", "%s: bloom_filter_offset=%d outside the file body", where, ch.BloomOffset)
		} else if h, n, err := DecodeStruct(f.Data[ch.BloomOffset:f.FooterPos]); err != nil {
			res.bad("chunk.bloom_filter", "%s: bloom filter header: %v", where, err)
		} else {
			nb := h.Int(1, -1)
			if nb <= 0 || nb%32 != 0 || ch.BloomOffset+int64(n)+nb > int64(f.FooterPos) {
				if !(h.F(4) != nil && h.F(4).Has(2)) { // library extension: compressed filters
					res.bad("chunk.bloom_filter", "%s: bloom filter numBytes=%d (header %d bytes at %d)", where, nb, n, ch.BloomOffset)
				}
			}
			if ch.HasBloomLength && ch.BloomLength > 0 && ch.BloomOffset+ch.BloomLength > int64(f.FooterPos) {
				res.bad("chunk.bloom_filter", "%s: bloom_filter_length=%d runs past the file body", where, ch.BloomLength)
			}
		}
	}
	pages, err := f.WalkPages(ch)
	cd.Pages = pages
	res.seen("chunk.page_walk")
	if err != nil {
		res.bad("chunk.page_walk", "%s: %v", where, err)
		return
	}
	// page-level facts
	var sumUnc, sumComp int64
	var nvals int64
	ndict := 0
	used := map[int]bool{}
	stats := map[[2]int]int{}
	firstData := int64(-1)
	for i := range pages {
		p := &pages[i]
		sumUnc += int64(p.HeaderLen) + int64(p.Uncompressed)
		sumComp += int64(p.HeaderLen) + int64(p.Compressed)
		stats[[2]int{p.Type, p.Encoding}]++
		if p.HasCRC {
			res.seen("page.crc")
			if uint32(p.CRC) != PageCRC(p.Body) {
				res.bad("page.crc", "%s: page at %d: crc=%#x, computed %#x over the %d body bytes", where, p.Offset, uint32(p.CRC), PageCRC(p.Body), len(p.Body))
			}
		}
		switch p.Type {
		case PageDictionary:
			ndict++
			res.seen("page.dictionary_first")
			if i != 0 {
				res.bad("page.dictionary_first", "%s: dictionary page at %d is page #%d of the chunk", where, p.Offset, i)
			}
			used[p.Encoding] = true
			if ch.HasDictOffset && ch.DictPageOffset != p.Offset {
				res.bad("chunk.dictionary_page_offset", "%s: dictionary_page_offset=%d, dictionary page is at %d", where, ch.DictPageOffset, p.Offset)
			}
		case PageData, PageDataV2:
			if firstData < 0 {
				firstData = p.Offset
			}
			nvals += int64(p.NumValues)
			used[p.Encoding] = true
			if p.Type == PageData {
				if leaf.MaxDef > 0 {
					used[p.DefEncoding] = true
				}
				if leaf.MaxRep > 0 {
					used[p.RepEncoding] = true
				}
			} else if leaf.MaxDef > 0 || leaf.MaxRep > 0 {
				used[ERLE] = true
			}
			if ex.PageVersion == 1 && p.Type != PageData || ex.PageVersion == 2 && p.Type != PageDataV2 {
				res.bad("page.version", "%s: page at %d has type %d, writer configured with DataPageVersion(%d)", where, p.Offset, p.Type, ex.PageVersion)
			}
			if ex.PageVersion != 0 {
				res.seen("page.version")
			}
		}
	}
	res.seen("chunk.dictionary_count")
	if ndict > 1 {
		res.bad("chunk.dictionary_count", "%s: %d dictionary pages", where, ndict)
	}
	if ndict == 0 && ch.HasDictOffset && ch.DictPageOffset > 0 {
		res.bad("chunk.dictionary_page_offset", "%s: dictionary_page_offset=%d but the chunk has no dictionary page", where, ch.DictPageOffset)
	}
	res.seen("chunk.dictionary_page_offset")
	res.seen("chunk.data_page_offset")
	if firstData >= 0 && ch.DataPageOffset != firstData {
		res.bad("chunk.data_page_offset", "%s: data_page_offset=%d, first data page at %d", where, ch.DataPageOffset, firstData)
	}
	res.seen("chunk.total_compressed_size")
	if sumComp != ch.TotalCompressed {
		res.bad("chunk.total_compressed_size", "%s: total_compressed_size=%d, pages (headers+bodies) sum to %d", where, ch.TotalCompressed, sumComp)
	}
	res.seen("chunk.total_uncompressed_size")
	if sumUnc != ch.TotalUncompressed {
		res.bad("chunk.total_uncompressed_size", "%s: total_uncompressed_size=%d, pages (headers+uncompressed bodies) sum to %d", where, ch.TotalUncompressed, sumUnc)
	}
	res.seen("chunk.num_values")
	if nvals != ch.NumValues {
		res.bad("chunk.num_values", "%s: num_values=%d, data pages hold %d", where, ch.NumValues, nvals)
	}
	res.seen("chunk.encodings")
	for e := range used {
		found := false
		for _, x := range ch.Encodings {
			if x == e {
				found = true
			}
		}
		if !found {
			res.bad("chunk.encodings", "%s: encoding %d is used by a page but not listed in encodings=%v", where, e, ch.Encodings)
		}
	}
	if ch.HasEncodingStats {
		res.seen("chunk.encoding_stats")
		got := map[[2]int]int{}
		for _, es := range ch.EncodingStats {
			got[[2]int{es[0], es[1]}] += es[2]
		}
		for k, v := range stats {
			if got[k] != v {
				res.bad("chunk.encoding_stats", "%s: encoding_stats says %d pages of (type %d, encoding %d), the chunk has %d", where, got[k], k[0], k[1], v)
			}
		}
		for k, v := range got {
			if stats[k] == 0 && v != 0 {
				res.bad("chunk.encoding_stats", "%s: encoding_stats lists %d pages of (type %d, encoding %d), the chunk has none", where, v, k[0], k[1])
			}
		}
	}
	// decode
	data, dict, err := f.DecodeChunk(ch, leaf, pages)
	cd.Data, cd.Dict = data, dict
	res.seen("chunk.decode")
	if err != nil {
		res.bad("chunk.decode", "%s: %v", where, err)
		return
	}
	var rows int64
	for i := range data {
		dp := &data[i]
		p := dp.Info
		res.seen("page.starts_on_row")
		if len(dp.Entries) > 0 && dp.Entries[0].R != 0 {
			res.bad("page.starts_on_row", "%s: page at %d starts with repetition level %d (pages must start on a row boundary)", where, p.Offset, dp.Entries[0].R)
		}
		if p.Type == PageDataV2 {
			res.seen("page.v2_num_nulls")
			if p.NumNulls != p.NumValues-dp.NonNull {
				res.bad("page.v2_num_nulls", "%s: page at %d num_nulls=%d, levels say %d", where, p.Offset, p.NumNulls, p.NumValues-dp.NonNull)
			}
			res.seen("page.v2_num_rows")
			if p.NumRows != dp.Rows {
				res.bad("page.v2_num_rows", "%s: page at %d num_rows=%d, repetition levels say %d", where, p.Offset, p.NumRows, dp.Rows)
			}
		}
		rows += int64(dp.Rows)
	}
	res.seen("chunk.rows")
	if rows != rg.NumRows {
		res.bad("chunk.rows", "%s: pages hold %d rows, row group num_rows=%d", where, rows, rg.NumRows)
	}
	// offset index
	oi, err := f.ReadOffsetIndex(ch)
	if err != nil {
		res.bad("offset_index.decode", "%s: %v", where, err)
	}
	cd.OI = oi
	if oi != nil {
		res.seen("offset_index.pages")
		if len(oi.Pages) != len(data) {
			res.bad("offset_index.pages", "%s: offset index has %d page locations, chunk has %d data pages", where, len(oi.Pages), len(data))
		} else {
			var first int64
			for i := range data {
				p := data[i].Info
				pl := oi.Pages[i]
				if pl.Offset != p.Offset || int(pl.Size) != p.HeaderLen+p.Compressed || pl.FirstRow != first {
					res.bad("offset_index.location", "%s: page %d: offset index says (offset %d, size %d, first_row %d), actual (%d, %d, %d)", where, i, pl.Offset, pl.Size, pl.FirstRow, p.Offset, p.HeaderLen+p.Compressed, first)
				}
				res.seen("offset_index.location")
				first += int64(data[i].Rows)
			}
		}
	}
	// column index: structural
	ci2, err := f.ReadColumnIndex(ch)
	if err != nil {
		res.bad("column_index.decode", "%s: %v", where, err)
	}
	cd.CI = ci2
	if ci2 != nil {
		res.seen("column_index.lengths")
		n := len(data)
		if len(ci2.NullPages) != n || len(ci2.MinValues) != n || len(ci2.MaxValues) != n || (ci2.HasNullCounts && len(ci2.NullCounts) != n) {
			res.bad("column_index.lengths", "%s: %d data pages but null_pages=%d min_values=%d max_values=%d null_counts=%d", where, n, len(ci2.NullPages), len(ci2.MinValues), len(ci2.MaxValues), len(ci2.NullCounts))
		} else if data != nil {
			// the counts the page index records per page: nulls and the level histograms
			if ci2.HasNullCounts {
				res.seen("column_index.page_null_counts")
				for pi := range data {
					nulls := 0
					for _, e := range data[pi].Entries {
						if e.Null {
							nulls++
						}
					}
					if ci2.NullCounts[pi] != int64(nulls) {
						res.bad("column_index.page_null_counts", "%s: column index null_counts[%d]=%d, the page holds %d nulls", where, pi, ci2.NullCounts[pi], nulls)
						break
					}
				}
			}
			for _, h := range []struct {
				name string
				has  bool
				vals []int64
				max  int
				get  func(Entry) int
			}{{"repetition", ci2.HasRepHist, ci2.RepHist, leaf.MaxRep, func(e Entry) int { return e.R }}, {"definition", ci2.HasDefHist, ci2.DefHist, leaf.MaxDef, func(e Entry) int { return e.D }}} {
				if !h.has || len(h.vals) == 0 {
					continue
				}
				res.seen("column_index.page_" + h.name + "_histograms")
				if len(h.vals) != n*(h.max+1) {
					res.bad("column_index.page_"+h.name+"_histograms", "%s: %s_level_histograms has %d entries for %d pages x %d levels", where, h.name, len(h.vals), n, h.max+1)
					continue
				}
			pages:
				for pi := range data {
					want := make([]int64, h.max+1)
					for _, e := range data[pi].Entries {
						want[h.get(e)]++
					}
					got := h.vals[pi*(h.max+1) : (pi+1)*(h.max+1)]
					for k := range want {
						if want[k] != got[k] {
							res.bad("column_index.page_"+h.name+"_histograms", "%s page %d: %s level histogram %v, the page holds %v", where, pi, h.name, got, want)
							break pages
						}
					}
				}
			}
		}
	}
	// size statistics
	if ss := ch.SizeStats; ss != nil {
		if ss.Has(1) && leaf.Type == TByteArr {
			res.seen("size_stats.unencoded_bytes")
			var want int64
			for _, dp := range data {
				for _, e := range dp.Entries {
					if !e.Null {
						want += int64(len(e.B))
					}
				}
			}
			if ss.Int(1, -1) != want {
				res.bad("size_stats.unencoded_bytes", "%s: unencoded_byte_array_data_bytes=%d, actual %d", where, ss.Int(1, -1), want)
			}
		}
		for _, hv := range []struct {
			id   int16
			max  int
			name string
			get  func(Entry) int
		}{{2, leaf.MaxRep, "repetition", func(e Entry) int { return e.R }}, {3, leaf.MaxDef, "definition", func(e Entry) int { return e.D }}} {
			if !ss.Has(hv.id) || len(ss.Items(hv.id)) == 0 {
				continue
			}
			res.seen("size_stats." + hv.name + "_histogram")
			want := make([]int64, hv.max+1)
			for _, dp := range data {
				for _, e := range dp.Entries {
					want[hv.get(e)]++
				}
			}
			got := ss.Items(hv.id)
			ok := len(got) == len(want)
			for i := 0; ok && i < len(want); i++ {
				ok = got[i].I == want[i]
			}
			if !ok {
				gs := []int64{}
				for _, g := range got {
					gs = append(gs, g.I)
				}
				res.bad("size_stats."+hv.name+"_histogram", "%s: %s_level_histogram=%v, actual %v", where, hv.name, gs, want)
			}
		}
	}
}

// EntriesEqual compares two decoded streams.
func EntriesEqual(a, b Entry) bool {
	if a.Null != b.Null || a.R != b.R || a.D != b.D {
		return false
	}
	if a.Null {
		return true
	}
	return a.I == b.I && bytes.Equal(a.B, b.B)
}
