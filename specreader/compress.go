// Package specreader is an independent decoder of the Parquet file format and
// of the formats nested in it. It never calls into parquet-go. It is written
// from the format specifications (parquet-format's README/Encodings/
// Compression/BloomFilter/VariantEncoding documents, the Snappy and LZ4 block
// format descriptions, RFC 1952) and is the oracle the library's output is
// compared with (DESIGN §3.3).
package specreader

import (
	"bytes"
	"compress/gzip"
	"errors"
	"fmt"
	"io"

	"github.com/andybalholm/brotli"
	"github.com/klauspost/compress/zstd"
)

// Codec numbers of parquet.thrift's CompressionCodec.
const (
	CodecUncompressed = 0
	CodecSnappy       = 1
	CodecGzip         = 2
	CodecLZO          = 3
	CodecBrotli       = 4
	CodecLZ4          = 5
	CodecZstd         = 6
	CodecLZ4Raw       = 7
)

var zstdDec, _ = zstd.NewReader(nil, zstd.WithDecoderConcurrency(1))

// Decompress decodes src with the given codec. sizeHint is the expected
// uncompressed size (needed by LZ4 raw, which does not carry it); pass -1 if
// unknown.
func Decompress(codec int, src []byte, sizeHint int) ([]byte, error) {
	switch codec {
	case CodecUncompressed:
		return append([]byte{}, src...), nil
	case CodecSnappy:
		return SnappyDecode(src)
	case CodecGzip:
		// RFC 1952; members may be concatenated.
		zr, err := gzip.NewReader(bytes.NewReader(src))
		if err != nil {
			return nil, err
		}
		return io.ReadAll(zr)
	case CodecBrotli:
		return io.ReadAll(brotli.NewReader(bytes.NewReader(src)))
	case CodecZstd:
		return zstdDec.DecodeAll(src, nil)
	case CodecLZ4Raw:
		return LZ4BlockDecode(src, sizeHint)
	}
	return nil, fmt.Errorf("specreader: unsupported codec %d", codec)
}

// SnappyDecode decodes the Snappy block format (format_description.txt).
func SnappyDecode(src []byte) ([]byte, error) {
	// preamble: uncompressed length as a little-endian varint
	var n uint64
	var shift uint
	i := 0
	for {
		if i >= len(src) {
			return nil, errors.New("snappy: truncated preamble")
		}
		b := src[i]
		i++
		n |= uint64(b&0x7f) << shift
		if b < 0x80 {
			break
		}
		shift += 7
		if shift > 35 {
			return nil, errors.New("snappy: preamble too long")
		}
	}
	if n > 1<<31 {
		return nil, errors.New("snappy: length too large")
	}
	dst := make([]byte, 0, n)
	for i < len(src) {
		tag := src[i]
		i++
		switch tag & 3 {
		case 0: // literal
			l := int(tag >> 2)
			if l >= 60 {
				nb := l - 59
				if i+nb > len(src) {
					return nil, errors.New("snappy: truncated literal length")
				}
				l = 0
				for k := 0; k < nb; k++ {
					l |= int(src[i+k]) << (8 * k)
				}
				i += nb
			}
			l++
			if l < 0 || i+l > len(src) {
				return nil, errors.New("snappy: truncated literal")
			}
			dst = append(dst, src[i:i+l]...)
			i += l
		case 1:
			if i >= len(src) {
				return nil, errors.New("snappy: truncated copy1")
			}
			l := 4 + int(tag>>2)&7
			off := int(tag>>5)<<8 | int(src[i])
			i++
			var err error
			if dst, err = lzCopy(dst, off, l); err != nil {
				return nil, err
			}
		case 2:
			if i+2 > len(src) {
				return nil, errors.New("snappy: truncated copy2")
			}
			l := 1 + int(tag>>2)
			off := int(src[i]) | int(src[i+1])<<8
			i += 2
			var err error
			if dst, err = lzCopy(dst, off, l); err != nil {
				return nil, err
			}
		case 3:
			if i+4 > len(src) {
				return nil, errors.New("snappy: truncated copy4")
			}
			l := 1 + int(tag>>2)
			off := int(src[i]) | int(src[i+1])<<8 | int(src[i+2])<<16 | int(src[i+3])<<24
			i += 4
			var err error
			if dst, err = lzCopy(dst, off, l); err != nil {
				return nil, err
			}
		}
	}
	if uint64(len(dst)) != n {
		return nil, fmt.Errorf("snappy: decoded %d bytes, preamble says %d", len(dst), n)
	}
	return dst, nil
}

func lzCopy(dst []byte, off, l int) ([]byte, error) {
	if off <= 0 || off > len(dst) {
		return nil, fmt.Errorf("lz: bad offset %d at %d", off, len(dst))
	}
	for k := 0; k < l; k++ {
		dst = append(dst, dst[len(dst)-off])
	}
	return dst, nil
}

// LZ4BlockDecode decodes one LZ4 block (lz4_Block_format.md).
func LZ4BlockDecode(src []byte, sizeHint int) ([]byte, error) {
	if len(src) == 0 {
		return []byte{}, nil
	}
	var dst []byte
	if sizeHint > 0 {
		dst = make([]byte, 0, sizeHint)
	}
	i := 0
	for {
		if i >= len(src) {
			return nil, errors.New("lz4: truncated token")
		}
		tok := src[i]
		i++
		ll := int(tok >> 4)
		if ll == 15 {
			for {
				if i >= len(src) {
					return nil, errors.New("lz4: truncated literal length")
				}
				b := src[i]
				i++
				ll += int(b)
				if b != 255 {
					break
				}
			}
		}
		if i+ll > len(src) {
			return nil, errors.New("lz4: truncated literals")
		}
		dst = append(dst, src[i:i+ll]...)
		i += ll
		if i == len(src) {
			break // last sequence: literals only
		}
		if i+2 > len(src) {
			return nil, errors.New("lz4: truncated offset")
		}
		off := int(src[i]) | int(src[i+1])<<8
		i += 2
		ml := int(tok & 15)
		if ml == 15 {
			for {
				if i >= len(src) {
					return nil, errors.New("lz4: truncated match length")
				}
				b := src[i]
				i++
				ml += int(b)
				if b != 255 {
					break
				}
			}
		}
		ml += 4
		var err error
		if dst, err = lzCopy(dst, off, ml); err != nil {
			return nil, err
		}
	}
	if sizeHint >= 0 && len(dst) != sizeHint {
		return nil, fmt.Errorf("lz4: decoded %d bytes, expected %d", len(dst), sizeHint)
	}
	return dst, nil
}
