package specreader

import (
	"encoding/binary"
	"fmt"
	"math"
)

// Statistics checks (DESIGN §4 C05): every recorded bound must be a true
// bound of the non-null, non-NaN values of its unit in the column's sort
// order; every count must be exact; order claims must be true.

// StatValue decodes a statistics min/max field into an Entry of the leaf's type.
func (l *Leaf) StatValue(b []byte) (Entry, error) {
	switch l.Type {
	case TBoolean:
		if len(b) != 1 {
			return Entry{}, fmt.Errorf("boolean statistic of %d bytes", len(b))
		}
		return Entry{I: int64(b[0] & 1)}, nil
	case TInt32:
		if len(b) != 4 {
			return Entry{}, fmt.Errorf("int32 statistic of %d bytes", len(b))
		}
		return Entry{I: int64(int32(binary.LittleEndian.Uint32(b)))}, nil
	case TFloat:
		if len(b) != 4 {
			return Entry{}, fmt.Errorf("float statistic of %d bytes", len(b))
		}
		return Entry{I: int64(binary.LittleEndian.Uint32(b))}, nil
	case TInt64, TDouble:
		if len(b) != 8 {
			return Entry{}, fmt.Errorf("8-byte statistic of %d bytes", len(b))
		}
		return Entry{I: int64(binary.LittleEndian.Uint64(b))}, nil
	case TInt96:
		return Entry{B: b}, nil
	default:
		return Entry{B: b}, nil
	}
}

func (l *Leaf) isNaN(e Entry) bool {
	switch l.Type {
	case TFloat:
		f := math.Float32frombits(uint32(e.I))
		return f != f
	case TDouble:
		f := math.Float64frombits(uint64(e.I))
		return f != f
	}
	return false
}

// unitFacts summarises the entries of a page or chunk.
type unitFacts struct {
	values, nulls, nonNull int
	min, max               Entry
	has                    bool // at least one non-null non-NaN value
	nan                    int
}

func (l *Leaf) facts(es []Entry) unitFacts {
	var u unitFacts
	for _, e := range es {
		u.values++
		if e.Null {
			u.nulls++
			continue
		}
		u.nonNull++
		if l.isNaN(e) {
			u.nan++
			continue
		}
		if !u.has {
			u.min, u.max, u.has = e, e, true
			continue
		}
		if c, ok := l.Compare(e, u.min); ok && c < 0 {
			u.min = e
		}
		if c, ok := l.Compare(e, u.max); ok && c > 0 {
			u.max = e
		}
	}
	return u
}

func entryStr(l *Leaf, e Entry) string {
	switch l.Type {
	case TFloat:
		return fmt.Sprintf("%v(%#x)", math.Float32frombits(uint32(e.I)), uint32(e.I))
	case TDouble:
		return fmt.Sprintf("%v(%#x)", math.Float64frombits(uint64(e.I)), uint64(e.I))
	case TBoolean, TInt32, TInt64:
		return fmt.Sprint(e.I)
	}
	if len(e.B) > 24 {
		return fmt.Sprintf("%x…(%d bytes)", e.B[:24], len(e.B))
	}
	return fmt.Sprintf("%x", e.B)
}

// checkBounds verifies min <= all values <= max for one unit.
func (res *Result) checkBounds(l *Leaf, where, rulePrefix string, u unitFacts, hasMin bool, minB []byte, hasMax bool, maxB []byte) {
	if _, ordered := l.Compare(Entry{}, Entry{}); !ordered {
		// INT96: undefined order; bounds must be ignored by readers
		res.seen(rulePrefix + ".undefined_order_ignored")
		return
	}
	if !u.has {
		return // nothing to bound (all null / all NaN): any recorded bound is vacuous
	}
	if hasMin {
		res.seen(rulePrefix + ".min")
		if mv, err := l.StatValue(minB); err != nil {
			res.bad(rulePrefix+".min", "%s: %v", where, err)
		} else if l.isNaN(mv) {
			res.seen(rulePrefix + ".nan_bound_ignored")
		} else if c, _ := l.Compare(mv, u.min); c > 0 {
			res.bad(rulePrefix+".min", "%s: recorded min %s is greater than the value %s present in the unit", where, entryStr(l, mv), entryStr(l, u.min))
		}
	}
	if hasMax {
		res.seen(rulePrefix + ".max")
		if mv, err := l.StatValue(maxB); err != nil {
			res.bad(rulePrefix+".max", "%s: %v", where, err)
		} else if l.isNaN(mv) {
			res.seen(rulePrefix + ".nan_bound_ignored")
		} else if c, _ := l.Compare(mv, u.max); c < 0 {
			res.bad(rulePrefix+".max", "%s: recorded max %s is lower than the value %s present in the unit", where, entryStr(l, mv), entryStr(l, u.max))
		}
	}
}

// CheckStatistics runs the C05 checks over an already validated file.
func (res *Result) CheckStatistics() {
	f := res.File
	if f == nil {
		return
	}
	for gi := range res.Chunks {
		for ci, cd := range res.Chunks[gi] {
			if cd == nil || cd.Data == nil && len(cd.Pages) > 0 && cd.Chunk.NumValues > 0 {
				continue
			}
			l := cd.Leaf
			res.curCol = ci
			where := fmt.Sprintf("row group %d column %d (%s)", gi, ci, l.Name())
			var all []Entry
			for pi := range cd.Data {
				dp := &cd.Data[pi]
				all = append(all, dp.Entries...)
				u := l.facts(dp.Entries)
				pw := fmt.Sprintf("%s page %d", where, pi)
				st := dp.Info.Stats
				if st.Present {
					res.checkBounds(l, pw, "page_stats", u, st.HasMinValue, st.MinValue, st.HasMaxValue, st.MaxValue)
					if st.HasMin || st.HasMax {
						res.checkBounds(l, pw+" (deprecated min/max)", "page_stats_deprecated", u, st.HasMin, st.Min, st.HasMax, st.Max)
					}
					if st.HasNullCount {
						res.seen("page_stats.null_count")
						if st.NullCount != int64(u.nulls) {
							res.bad("page_stats.null_count", "%s: null_count=%d, the page has %d nulls", pw, st.NullCount, u.nulls)
						}
					}
				}
			}
			cu := l.facts(all)
			st := cd.Chunk.Stats
			if st.Present {
				res.checkBounds(l, where, "chunk_stats", cu, st.HasMinValue, st.MinValue, st.HasMaxValue, st.MaxValue)
				if st.HasMin || st.HasMax {
					res.checkBounds(l, where+" (deprecated min/max)", "chunk_stats_deprecated", cu, st.HasMin, st.Min, st.HasMax, st.Max)
				}
				if st.HasNullCount {
					res.seen("chunk_stats.null_count")
					if st.NullCount != int64(cu.nulls) {
						res.bad("chunk_stats.null_count", "%s: null_count=%d, the chunk has %d nulls", where, st.NullCount, cu.nulls)
					}
				}
			}
			cix := cd.CI
			if cix == nil {
				continue
			}
			n := len(cd.Data)
			if len(cix.NullPages) != n || len(cix.MinValues) != n || len(cix.MaxValues) != n {
				continue // reported by Validate (column_index.lengths)
			}
			type pb struct {
				min, max Entry
				ok       bool
			}
			bounds := make([]pb, n)
			for pi := range cd.Data {
				u := l.facts(cd.Data[pi].Entries)
				pw := fmt.Sprintf("%s column-index entry %d", where, pi)
				res.seen("column_index.null_pages")
				isNullPage := u.nonNull == 0
				if cix.NullPages[pi] != isNullPage {
					res.bad("column_index.null_pages", "%s: null_pages=%v but the page has %d non-null values", pw, cix.NullPages[pi], u.nonNull)
				}
				if cix.HasNullCounts && len(cix.NullCounts) == n {
					res.seen("column_index.null_counts")
					if cix.NullCounts[pi] != int64(u.nulls) {
						res.bad("column_index.null_counts", "%s: null_counts=%d, the page has %d nulls", pw, cix.NullCounts[pi], u.nulls)
					}
				}
				if !cix.NullPages[pi] {
					res.checkBounds(l, pw, "column_index", u, true, cix.MinValues[pi], true, cix.MaxValues[pi])
					mn, e1 := l.StatValue(cix.MinValues[pi])
					mx, e2 := l.StatValue(cix.MaxValues[pi])
					if e1 == nil && e2 == nil && !l.isNaN(mn) && !l.isNaN(mx) {
						bounds[pi] = pb{mn, mx, true}
					}
				}
			}
			// boundary order claim over the recorded bounds of non-null pages
			if _, ordered := l.Compare(Entry{}, Entry{}); ordered && (cix.BoundaryOrder == 1 || cix.BoundaryOrder == 2) {
				res.seen("column_index.boundary_order")
				prev := -1
				for pi := 0; pi < n; pi++ {
					if cix.NullPages[pi] || !bounds[pi].ok {
						continue
					}
					if prev >= 0 {
						cmin, _ := l.Compare(bounds[prev].min, bounds[pi].min)
						cmax, _ := l.Compare(bounds[prev].max, bounds[pi].max)
						if cix.BoundaryOrder == 1 && (cmin > 0 || cmax > 0) {
							res.bad("column_index.boundary_order", "%s: boundary_order=ASCENDING but entries %d and %d are not ascending", where, prev, pi)
						}
						if cix.BoundaryOrder == 2 && (cmin < 0 || cmax < 0) {
							res.bad("column_index.boundary_order", "%s: boundary_order=DESCENDING but entries %d and %d are not descending", where, prev, pi)
						}
					}
					prev = pi
				}
			}
			// per-page level histograms
			for _, h := range []struct {
				name string
				has  bool
				vals []int64
				max  int
				get  func(Entry) int
			}{{"repetition", cix.HasRepHist, cix.RepHist, l.MaxRep, func(e Entry) int { return e.R }}, {"definition", cix.HasDefHist, cix.DefHist, l.MaxDef, func(e Entry) int { return e.D }}} {
				if !h.has || len(h.vals) == 0 {
					continue
				}
				res.seen("column_index." + h.name + "_histograms")
				if len(h.vals) != n*(h.max+1) {
					res.bad("column_index."+h.name+"_histograms", "%s: %s_level_histograms has %d entries for %d pages x %d levels", where, h.name, len(h.vals), n, h.max+1)
					continue
				}
				for pi := range cd.Data {
					want := make([]int64, h.max+1)
					for _, e := range cd.Data[pi].Entries {
						want[h.get(e)]++
					}
					got := h.vals[pi*(h.max+1) : (pi+1)*(h.max+1)]
					for k := range want {
						if want[k] != got[k] {
							res.bad("column_index."+h.name+"_histograms", "%s page %d: %s level histogram %v, actual %v", where, pi, h.name, got, want)
							break
						}
					}
				}
			}
		}
	}
}
