package specreader

import (
	"encoding/binary"
	"errors"
	"fmt"
	"math/bits"
)

// Physical types (parquet.thrift Type).
const (
	TBoolean = 0
	TInt32   = 1
	TInt64   = 2
	TInt96   = 3
	TFloat   = 4
	TDouble  = 5
	TByteArr = 6
	TFixed   = 7
)

// Encodings (parquet.thrift Encoding).
const (
	EPlain                = 0
	EPlainDictionary      = 2
	ERLE                  = 3
	EBitPacked            = 4
	EDeltaBinaryPacked    = 5
	EDeltaLengthByteArray = 6
	EDeltaByteArray       = 7
	ERLEDictionary        = 8
	EByteStreamSplit      = 9
)

// Vals is a decoded value sequence: I holds bool (0/1), int32, int64 and the
// bit patterns of float/double; B holds byte arrays, FLBA and INT96 (12 bytes).
type Vals struct {
	Kind int
	I    []int64
	B    [][]byte
}

func (v *Vals) Len() int {
	if v.Kind == TInt96 || v.Kind == TByteArr || v.Kind == TFixed {
		return len(v.B)
	}
	return len(v.I)
}

// Leniencies counts, per name, where this decoder accepted something a
// strict reading of the spec would not (DESIGN §3.3); reported as observations.
type Leniencies map[string]int

func (l Leniencies) add(name string) {
	if l != nil {
		l[name]++
	}
}

func uvarint(b []byte) (uint64, int, error) {
	v, n := binary.Uvarint(b)
	if n <= 0 {
		return 0, 0, errors.New("bad varint")
	}
	return v, n, nil
}

func zigzag(u uint64) int64 { return int64(u>>1) ^ -int64(u&1) }

// DecodeHybrid decodes the RLE/bit-packing hybrid (without any length prefix).
// n < 0 means "until the data ends".
func DecodeHybrid(data []byte, bitWidth int, n int, ln Leniencies) ([]uint32, error) {
	if bitWidth < 0 || bitWidth > 32 {
		return nil, fmt.Errorf("hybrid: bit width %d", bitWidth)
	}
	var out []uint32
	byteWidth := (bitWidth + 7) / 8
	mask := uint64(1)<<uint(bitWidth) - 1
	i := 0
	for i < len(data) && (n < 0 || len(out) < n) {
		h, k, err := uvarint(data[i:])
		if err != nil {
			return nil, fmt.Errorf("hybrid: run header: %v", err)
		}
		i += k
		if h&1 == 1 {
			groups := int(h >> 1)
			nbytes := groups * bitWidth
			if groups < 0 || nbytes < 0 || i+nbytes > len(data) {
				// the spec allows the last bit-packed run to be truncated to the values needed
				avail := len(data) - i
				if n >= 0 && bitWidth > 0 && (avail*8)/bitWidth >= n-len(out) {
					ln.add("hybrid.truncated_last_bitpacked_run")
					nbytes = avail
				} else {
					return nil, fmt.Errorf("hybrid: bit-packed run of %d groups exceeds data (%d bytes left)", groups, avail)
				}
			}
			vals := unpackLSB(data[i:i+nbytes], bitWidth, groups*8)
			out = append(out, vals...)
			i += nbytes
		} else {
			cnt := int(h >> 1)
			if i+byteWidth > len(data) {
				return nil, errors.New("hybrid: truncated rle value")
			}
			var v uint64
			for b := 0; b < byteWidth; b++ {
				v |= uint64(data[i+b]) << (8 * uint(b))
			}
			i += byteWidth
			if v&^mask != 0 {
				ln.add("hybrid.rle_value_wider_than_bit_width")
				v &= mask
			}
			if cnt < 0 || cnt > 1<<28 {
				return nil, fmt.Errorf("hybrid: rle run of %d", cnt)
			}
			for c := 0; c < cnt; c++ {
				out = append(out, uint32(v))
			}
		}
	}
	if n >= 0 {
		if len(out) < n {
			return nil, fmt.Errorf("hybrid: decoded %d values, need %d", len(out), n)
		}
		out = out[:n]
	}
	return out, nil
}

// unpackLSB unpacks n values of the given width, least significant bit first.
func unpackLSB(data []byte, width, n int) []uint32 {
	out := make([]uint32, 0, n)
	if width == 0 {
		for i := 0; i < n; i++ {
			out = append(out, 0)
		}
		return out
	}
	var acc uint64
	var nbits uint
	pos := 0
	for len(out) < n {
		for nbits < uint(width) && pos < len(data) {
			acc |= uint64(data[pos]) << nbits
			nbits += 8
			pos++
		}
		if nbits < uint(width) {
			break
		}
		out = append(out, uint32(acc&(1<<uint(width)-1)))
		acc >>= uint(width)
		nbits -= uint(width)
	}
	return out
}

// unpackLSB64 is unpackLSB for widths up to 64.
func unpackLSB64(data []byte, width, n int) []uint64 {
	out := make([]uint64, 0, n)
	if width == 0 {
		for i := 0; i < n; i++ {
			out = append(out, 0)
		}
		return out
	}
	bitpos := 0
	for len(out) < n {
		var v uint64
		for b := 0; b < width; b++ {
			p := bitpos + b
			if p/8 >= len(data) {
				return out
			}
			if data[p/8]>>(uint(p)%8)&1 == 1 {
				v |= 1 << uint(b)
			}
		}
		out = append(out, v)
		bitpos += width
	}
	return out
}

// DecodeBitPackedLevels decodes the deprecated BIT_PACKED level encoding
// (values packed back to back, most significant bit first).
func DecodeBitPackedLevels(data []byte, width, n int) ([]uint32, error) {
	out := make([]uint32, 0, n)
	bitpos := 0
	for len(out) < n {
		var v uint32
		for b := 0; b < width; b++ {
			p := bitpos + b
			if p/8 >= len(data) {
				return nil, errors.New("bit-packed levels: truncated")
			}
			bit := data[p/8] >> (7 - uint(p)%8) & 1
			v = v<<1 | uint32(bit)
		}
		out = append(out, v)
		bitpos += width
	}
	return out, nil
}

// DecodeDeltaBinaryPacked decodes DELTA_BINARY_PACKED. is32 selects 32-bit
// wrap-around arithmetic. It returns the values and the number of bytes consumed.
func DecodeDeltaBinaryPacked(data []byte, is32 bool) ([]int64, int, error) {
	i := 0
	rd := func() (uint64, error) {
		v, k, err := uvarint(data[i:])
		if err != nil {
			return 0, fmt.Errorf("delta: header at %d: %v", i, err)
		}
		i += k
		return v, nil
	}
	blockSize, err := rd()
	if err != nil {
		return nil, 0, err
	}
	miniBlocks, err := rd()
	if err != nil {
		return nil, 0, err
	}
	total, err := rd()
	if err != nil {
		return nil, 0, err
	}
	fz, err := rd()
	if err != nil {
		return nil, 0, err
	}
	if total == 0 {
		return []int64{}, i, nil
	}
	if blockSize == 0 || blockSize%128 != 0 || miniBlocks == 0 || blockSize%miniBlocks != 0 || (blockSize/miniBlocks)%32 != 0 {
		return nil, 0, fmt.Errorf("delta: invalid block size %d / miniblocks %d", blockSize, miniBlocks)
	}
	if total > 1<<28 {
		return nil, 0, fmt.Errorf("delta: %d values", total)
	}
	perMini := int(blockSize / miniBlocks)
	out := make([]int64, 0, total)
	cur := zigzag(fz)
	if is32 {
		cur = int64(int32(cur))
	}
	out = append(out, cur)
	for uint64(len(out)) < total {
		mz, err := rd()
		if err != nil {
			return nil, 0, err
		}
		minDelta := zigzag(mz)
		if i+int(miniBlocks) > len(data) {
			return nil, 0, errors.New("delta: truncated bit widths")
		}
		widths := data[i : i+int(miniBlocks)]
		i += int(miniBlocks)
		for m := 0; m < int(miniBlocks) && uint64(len(out)) < total; m++ {
			w := int(widths[m])
			if w > 64 {
				return nil, 0, fmt.Errorf("delta: bit width %d", w)
			}
			nbytes := perMini * w / 8
			if i+nbytes > len(data) {
				return nil, 0, fmt.Errorf("delta: truncated miniblock (need %d bytes, %d left)", nbytes, len(data)-i)
			}
			ds := unpackLSB64(data[i:i+nbytes], w, perMini)
			i += nbytes
			for _, d := range ds {
				if uint64(len(out)) >= total {
					break
				}
				if is32 {
					cur = int64(int32(cur) + int32(minDelta) + int32(uint32(d)))
				} else {
					cur = cur + minDelta + int64(d)
				}
				out = append(out, cur)
			}
		}
	}
	return out, i, nil
}

// DecodePlain decodes n PLAIN values (n < 0: as many as the data holds).
func DecodePlain(kind, typeLen int, data []byte, n int) (*Vals, error) {
	v := &Vals{Kind: kind}
	switch kind {
	case TBoolean:
		if n < 0 {
			n = len(data) * 8
		}
		if (n+7)/8 > len(data) {
			return nil, fmt.Errorf("plain bool: %d values in %d bytes", n, len(data))
		}
		for i := 0; i < n; i++ {
			v.I = append(v.I, int64(data[i/8]>>(uint(i)%8)&1))
		}
	case TInt32, TFloat:
		if n < 0 {
			n = len(data) / 4
		}
		if n*4 > len(data) {
			return nil, fmt.Errorf("plain: %d 4-byte values in %d bytes", n, len(data))
		}
		for i := 0; i < n; i++ {
			u := binary.LittleEndian.Uint32(data[4*i:])
			if kind == TInt32 {
				v.I = append(v.I, int64(int32(u)))
			} else {
				v.I = append(v.I, int64(u))
			}
		}
	case TInt64, TDouble:
		if n < 0 {
			n = len(data) / 8
		}
		if n*8 > len(data) {
			return nil, fmt.Errorf("plain: %d 8-byte values in %d bytes", n, len(data))
		}
		for i := 0; i < n; i++ {
			v.I = append(v.I, int64(binary.LittleEndian.Uint64(data[8*i:])))
		}
	case TInt96:
		if n < 0 {
			n = len(data) / 12
		}
		if n*12 > len(data) {
			return nil, fmt.Errorf("plain: %d int96 in %d bytes", n, len(data))
		}
		for i := 0; i < n; i++ {
			v.B = append(v.B, append([]byte{}, data[12*i:12*i+12]...))
		}
	case TFixed:
		if typeLen <= 0 {
			return nil, errors.New("plain flba: no type length")
		}
		if n < 0 {
			n = len(data) / typeLen
		}
		if n*typeLen > len(data) {
			return nil, fmt.Errorf("plain: %d flba(%d) in %d bytes", n, typeLen, len(data))
		}
		for i := 0; i < n; i++ {
			v.B = append(v.B, append([]byte{}, data[typeLen*i:typeLen*(i+1)]...))
		}
	case TByteArr:
		i := 0
		for (n < 0 && i < len(data)) || (n >= 0 && len(v.B) < n) {
			if i+4 > len(data) {
				return nil, errors.New("plain byte array: truncated length")
			}
			l := int(binary.LittleEndian.Uint32(data[i:]))
			i += 4
			if l < 0 || i+l > len(data) {
				return nil, fmt.Errorf("plain byte array: length %d exceeds data", l)
			}
			v.B = append(v.B, append([]byte{}, data[i:i+l]...))
			i += l
		}
		if v.B == nil {
			v.B = [][]byte{}
		}
	default:
		return nil, fmt.Errorf("plain: kind %d", kind)
	}
	return v, nil
}

// DecodeValues decodes n values of a (non-dictionary) encoding.
func DecodeValues(enc, kind, typeLen int, data []byte, n int, len_ Leniencies) (*Vals, error) {
	switch enc {
	case EPlain:
		return DecodePlain(kind, typeLen, data, n)
	case ERLE:
		if kind != TBoolean {
			return nil, fmt.Errorf("RLE values on kind %d", kind)
		}
		if len(data) < 4 {
			if n <= 0 && len(data) == 0 {
				return &Vals{Kind: kind}, nil
			}
			return nil, errors.New("rle boolean: missing length prefix")
		}
		l := int(binary.LittleEndian.Uint32(data))
		if 4+l > len(data) {
			return nil, fmt.Errorf("rle boolean: length prefix %d exceeds %d", l, len(data)-4)
		}
		u, err := DecodeHybrid(data[4:4+l], 1, n, len_)
		if err != nil {
			return nil, err
		}
		v := &Vals{Kind: kind}
		for _, x := range u {
			v.I = append(v.I, int64(x))
		}
		return v, nil
	case EDeltaBinaryPacked:
		if kind != TInt32 && kind != TInt64 {
			return nil, fmt.Errorf("DELTA_BINARY_PACKED on kind %d", kind)
		}
		xs, _, err := DecodeDeltaBinaryPacked(data, kind == TInt32)
		if err != nil {
			return nil, err
		}
		if n >= 0 && len(xs) != n {
			return nil, fmt.Errorf("delta: %d values, page says %d", len(xs), n)
		}
		return &Vals{Kind: kind, I: xs}, nil
	case EDeltaLengthByteArray:
		lens, used, err := DecodeDeltaBinaryPacked(data, true)
		if err != nil {
			return nil, err
		}
		if n >= 0 && len(lens) != n {
			return nil, fmt.Errorf("delta length: %d lengths, page says %d", len(lens), n)
		}
		v := &Vals{Kind: kind, B: [][]byte{}}
		i := used
		for _, l := range lens {
			if l < 0 || i+int(l) > len(data) {
				return nil, fmt.Errorf("delta length: value of %d bytes exceeds data", l)
			}
			v.B = append(v.B, append([]byte{}, data[i:i+int(l)]...))
			i += int(l)
		}
		return v, nil
	case EDeltaByteArray:
		prefixes, used, err := DecodeDeltaBinaryPacked(data, true)
		if err != nil {
			return nil, fmt.Errorf("prefix lengths: %v", err)
		}
		suffixes, used2, err := DecodeDeltaBinaryPacked(data[used:], true)
		if err != nil {
			return nil, fmt.Errorf("suffix lengths: %v", err)
		}
		if len(prefixes) != len(suffixes) {
			return nil, fmt.Errorf("delta byte array: %d prefixes, %d suffixes", len(prefixes), len(suffixes))
		}
		if n >= 0 && len(prefixes) != n {
			return nil, fmt.Errorf("delta byte array: %d values, page says %d", len(prefixes), n)
		}
		i := used + used2
		v := &Vals{Kind: kind, B: [][]byte{}}
		var prev []byte
		for k := range prefixes {
			p, s := int(prefixes[k]), int(suffixes[k])
			if p < 0 || p > len(prev) || s < 0 || i+s > len(data) {
				return nil, fmt.Errorf("delta byte array: value %d: prefix %d of %d, suffix %d, %d bytes left", k, p, len(prev), s, len(data)-i)
			}
			cur := append(append([]byte{}, prev[:p]...), data[i:i+s]...)
			i += s
			if kind == TFixed && len(cur) != typeLen {
				return nil, fmt.Errorf("delta byte array: flba value of %d bytes, type length %d", len(cur), typeLen)
			}
			v.B = append(v.B, cur)
			prev = cur
		}
		return v, nil
	case EByteStreamSplit:
		w := 0
		switch kind {
		case TFloat, TInt32:
			w = 4
		case TDouble, TInt64:
			w = 8
		case TFixed:
			w = typeLen
		default:
			return nil, fmt.Errorf("BYTE_STREAM_SPLIT on kind %d", kind)
		}
		if w == 0 || len(data)%w != 0 {
			return nil, fmt.Errorf("byte stream split: %d bytes not a multiple of %d", len(data), w)
		}
		cnt := len(data) / w
		if n >= 0 && cnt != n {
			return nil, fmt.Errorf("byte stream split: %d values, page says %d", cnt, n)
		}
		plain := make([]byte, len(data))
		for i := 0; i < cnt; i++ {
			for j := 0; j < w; j++ {
				plain[i*w+j] = data[j*cnt+i]
			}
		}
		return DecodePlain(kind, typeLen, plain, cnt)
	}
	return nil, fmt.Errorf("unsupported encoding %d", enc)
}

// DecodeDictIndexes decodes RLE_DICTIONARY / PLAIN_DICTIONARY data page values
// (one byte of bit width followed by the hybrid encoding).
func DecodeDictIndexes(data []byte, n int, len_ Leniencies) ([]uint32, error) {
	if len(data) == 0 {
		if n <= 0 {
			return nil, nil
		}
		return nil, errors.New("dictionary indexes: empty data")
	}
	return DecodeHybrid(data[1:], int(data[0]), n, len_)
}

// BitWidthOf returns the number of bits needed to store max.
func BitWidthOf(max int) int { return bits.Len(uint(max)) }
