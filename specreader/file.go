package specreader

import (
	"bytes"
	"encoding/binary"
	"errors"
	"fmt"
	"hash/crc32"
	"math/bits"
	"sort"
	"strings"
)

// Page types (parquet.thrift PageType).
const (
	PageData       = 0
	PageIndex      = 1
	PageDictionary = 2
	PageDataV2     = 3
)

// Leaf describes one leaf column of the schema.
type Leaf struct {
	Path       []string
	Type       int
	TypeLength int
	MaxRep     int
	MaxDef     int
	Converted  int64 // converted_type or -1
	Logical    *TV   // logicalType union or nil
	Repetition int   // 0 required 1 optional 2 repeated (of the leaf itself)
}

func (l Leaf) Name() string { return strings.Join(l.Path, ".") }

// Stats is a parsed Statistics struct.
type Stats struct {
	Present                  bool
	Max, Min                 []byte // deprecated fields
	HasMax, HasMin           bool
	MaxValue, MinValue       []byte
	HasMaxValue, HasMinValue bool
	NullCount                int64
	HasNullCount             bool
	DistinctCount            int64
	HasDistinctCount         bool
}

func parseStats(v *TV) Stats {
	if v == nil {
		return Stats{}
	}
	return Stats{Present: true, Max: v.Bytes(1), HasMax: v.Has(1), Min: v.Bytes(2), HasMin: v.Has(2),
		NullCount: v.Int(3, 0), HasNullCount: v.Has(3), DistinctCount: v.Int(4, 0), HasDistinctCount: v.Has(4),
		MaxValue: v.Bytes(5), HasMaxValue: v.Has(5), MinValue: v.Bytes(6), HasMinValue: v.Has(6)}
}

// Chunk is one column chunk's metadata.
type Chunk struct {
	RowGroup, Column                     int
	FileOffset                           int64
	HasMeta                              bool
	Type                                 int
	Encodings                            []int
	Path                                 []string
	Codec                                int
	NumValues                            int64
	TotalUncompressed                    int64
	TotalCompressed                      int64
	DataPageOffset                       int64
	DictPageOffset                       int64
	HasDictOffset                        bool
	Stats                                Stats
	EncodingStats                        [][3]int // page type, encoding, count
	HasEncodingStats                     bool
	BloomOffset                          int64
	BloomLength                          int64
	HasBloomOffset                       bool
	HasBloomLength                       bool
	SizeStats                            *TV
	OffsetIndexOffset, OffsetIndexLength int64
	ColumnIndexOffset, ColumnIndexLength int64
	HasOffsetIndex, HasColumnIndex       bool
	Crypto                               *TV
	EncryptedMeta                        []byte
}

type RowGroup struct {
	Chunks             []Chunk
	TotalByteSize      int64
	NumRows            int64
	Sorting            [][3]int64 // column_idx, descending, nulls_first
	FileOffset         int64
	HasFileOffset      bool
	TotalCompressed    int64
	HasTotalCompressed bool
	Ordinal            int64
	HasOrdinal         bool
}

type File struct {
	Data      []byte
	FooterLen int
	FooterPos int
	Version   int64
	NumRows   int64
	CreatedBy string
	KeyValues [][2]string
	Leaves    []Leaf
	RowGroups []RowGroup
	Raw       *TV
	Trailing  int // bytes of the footer not consumed by the thrift decoder
	Len       Leniencies
}

// Parse reads the envelope (magic, footer length), the footer and the schema.
func Parse(data []byte) (*File, error) {
	if len(data) < 12 {
		return nil, fmt.Errorf("file of %d bytes is too short", len(data))
	}
	if string(data[:4]) != "PAR1" {
		return nil, fmt.Errorf("bad leading magic %q", data[:4])
	}
	if string(data[len(data)-4:]) != "PAR1" {
		return nil, fmt.Errorf("bad trailing magic %q", data[len(data)-4:])
	}
	fl := int(binary.LittleEndian.Uint32(data[len(data)-8:]))
	if fl <= 0 || fl > len(data)-12 {
		return nil, fmt.Errorf("footer length %d does not fit a file of %d bytes", fl, len(data))
	}
	f := &File{Data: data, FooterLen: fl, FooterPos: len(data) - 8 - fl, Len: Leniencies{}}
	raw, used, err := DecodeStruct(data[f.FooterPos : len(data)-8])
	if err != nil {
		return nil, fmt.Errorf("footer: %w", err)
	}
	f.Raw = raw
	f.Trailing = fl - used
	f.Version = raw.Int(1, -1)
	f.NumRows = raw.Int(3, -1)
	f.CreatedBy = raw.Str(6)
	for _, kv := range raw.Items(5) {
		kv := kv
		f.KeyValues = append(f.KeyValues, [2]string{kv.Str(1), kv.Str(2)})
	}
	if err := f.parseSchema(raw.Items(2)); err != nil {
		return nil, err
	}
	for gi, g := range raw.Items(4) {
		g := g
		rg := RowGroup{TotalByteSize: g.Int(2, -1), NumRows: g.Int(3, -1), FileOffset: g.Int(5, 0), HasFileOffset: g.Has(5),
			TotalCompressed: g.Int(6, 0), HasTotalCompressed: g.Has(6), Ordinal: g.Int(7, 0), HasOrdinal: g.Has(7)}
		for _, s := range g.Items(4) {
			s := s
			rg.Sorting = append(rg.Sorting, [3]int64{s.Int(1, -1), s.Int(2, 0), s.Int(3, 0)})
		}
		for ci, c := range g.Items(1) {
			c := c
			ch := Chunk{RowGroup: gi, Column: ci, FileOffset: c.Int(2, 0),
				OffsetIndexOffset: c.Int(4, 0), OffsetIndexLength: c.Int(5, 0), HasOffsetIndex: c.Has(4),
				ColumnIndexOffset: c.Int(6, 0), ColumnIndexLength: c.Int(7, 0), HasColumnIndex: c.Has(6),
				Crypto: c.F(8), EncryptedMeta: c.Bytes(9)}
			if m := c.F(3); m != nil {
				ch.HasMeta = true
				ch.Type = int(m.Int(1, -1))
				for _, e := range m.Items(2) {
					ch.Encodings = append(ch.Encodings, int(e.I))
				}
				for _, p := range m.Items(3) {
					ch.Path = append(ch.Path, string(p.Bin))
				}
				ch.Codec = int(m.Int(4, -1))
				ch.NumValues = m.Int(5, -1)
				ch.TotalUncompressed = m.Int(6, -1)
				ch.TotalCompressed = m.Int(7, -1)
				ch.DataPageOffset = m.Int(9, -1)
				ch.DictPageOffset = m.Int(11, 0)
				ch.HasDictOffset = m.Has(11)
				ch.Stats = parseStats(m.F(12))
				if m.Has(13) {
					ch.HasEncodingStats = true
					for _, e := range m.Items(13) {
						e := e
						ch.EncodingStats = append(ch.EncodingStats, [3]int{int(e.Int(1, -1)), int(e.Int(2, -1)), int(e.Int(3, -1))})
					}
				}
				ch.BloomOffset, ch.HasBloomOffset = m.Int(14, 0), m.Has(14)
				ch.BloomLength, ch.HasBloomLength = m.Int(15, 0), m.Has(15)
				ch.SizeStats = m.F(16)
			}
			rg.Chunks = append(rg.Chunks, ch)
		}
		f.RowGroups = append(f.RowGroups, rg)
	}
	return f, nil
}

func (f *File) parseSchema(elems []TV) error {
	if len(elems) == 0 {
		return errors.New("schema: empty")
	}
	pos := 0
	var walk func(path []string, rep, def int) error
	walk = func(path []string, rep, def int) error {
		if pos >= len(elems) {
			return errors.New("schema: num_children exceeds the element list")
		}
		e := &elems[pos]
		isRoot := pos == 0
		pos++
		name := e.Str(4)
		r := int(e.Int(3, 0))
		if !isRoot {
			path = append(append([]string{}, path...), name)
			switch r {
			case 1:
				def++
			case 2:
				rep++
				def++
			}
		}
		nc := int(e.Int(5, 0))
		if nc > 0 || !e.Has(1) {
			if e.Has(1) && nc > 0 {
				return fmt.Errorf("schema: element %q has both a type and children", name)
			}
			for i := 0; i < nc; i++ {
				if err := walk(path, rep, def); err != nil {
					return err
				}
			}
			return nil
		}
		f.Leaves = append(f.Leaves, Leaf{Path: path, Type: int(e.Int(1, -1)), TypeLength: int(e.Int(2, 0)), MaxRep: rep, MaxDef: def,
			Converted: e.Int(6, -1), Logical: e.F(10), Repetition: r})
		return nil
	}
	if err := walk(nil, 0, 0); err != nil {
		return err
	}
	if pos != len(elems) {
		return fmt.Errorf("schema: %d elements listed, %d reachable from the root", len(elems), pos)
	}
	return nil
}

// PageInfo is one page found by walking a column chunk.
type PageInfo struct {
	Offset       int64 // of the header
	HeaderLen    int
	Type         int
	Uncompressed int
	Compressed   int
	CRC          int64
	HasCRC       bool
	Hdr          *TV // the type-specific header struct
	Body         []byte
	NumValues    int
	Encoding     int
	// v2
	NumNulls, NumRows        int
	DefLen, RepLen           int
	IsCompressed             bool
	Stats                    Stats
	DefEncoding, RepEncoding int
}

// WalkPages walks the pages of a chunk from its first page offset over
// exactly total_compressed_size bytes.
func (f *File) WalkPages(ch *Chunk) ([]PageInfo, error) {
	start := ch.DataPageOffset
	if ch.HasDictOffset && ch.DictPageOffset > 0 && ch.DictPageOffset < start {
		start = ch.DictPageOffset
	}
	end := start + ch.TotalCompressed
	if start < 4 || end > int64(f.FooterPos) || end < start {
		return nil, fmt.Errorf("chunk spans [%d,%d) outside the data area [4,%d)", start, end, f.FooterPos)
	}
	var pages []PageInfo
	pos := start
	for pos < end {
		h, n, err := DecodeStruct(f.Data[pos:end])
		if err != nil {
			return pages, fmt.Errorf("page header at %d: %w", pos, err)
		}
		p := PageInfo{Offset: pos, HeaderLen: n, Type: int(h.Int(1, -1)), Uncompressed: int(h.Int(2, -1)), Compressed: int(h.Int(3, -1)),
			CRC: h.Int(4, 0), HasCRC: h.Has(4)}
		if p.Compressed < 0 || pos+int64(n)+int64(p.Compressed) > end {
			return pages, fmt.Errorf("page at %d: compressed_page_size %d runs past the chunk end %d", pos, p.Compressed, end)
		}
		p.Body = f.Data[pos+int64(n) : pos+int64(n)+int64(p.Compressed)]
		switch p.Type {
		case PageData:
			d := h.F(5)
			if d == nil {
				return pages, fmt.Errorf("page at %d: DATA_PAGE without data_page_header", pos)
			}
			p.Hdr = d
			p.NumValues = int(d.Int(1, -1))
			p.Encoding = int(d.Int(2, -1))
			p.DefEncoding = int(d.Int(3, -1))
			p.RepEncoding = int(d.Int(4, -1))
			p.Stats = parseStats(d.F(5))
		case PageDictionary:
			d := h.F(7)
			if d == nil {
				return pages, fmt.Errorf("page at %d: DICTIONARY_PAGE without dictionary_page_header", pos)
			}
			p.Hdr = d
			p.NumValues = int(d.Int(1, -1))
			p.Encoding = int(d.Int(2, -1))
		case PageDataV2:
			d := h.F(8)
			if d == nil {
				return pages, fmt.Errorf("page at %d: DATA_PAGE_V2 without data_page_header_v2", pos)
			}
			p.Hdr = d
			p.NumValues = int(d.Int(1, -1))
			p.NumNulls = int(d.Int(2, -1))
			p.NumRows = int(d.Int(3, -1))
			p.Encoding = int(d.Int(4, -1))
			p.DefLen = int(d.Int(5, -1))
			p.RepLen = int(d.Int(6, -1))
			p.IsCompressed = d.Bool(7, true)
			p.Stats = parseStats(d.F(8))
		default:
			return pages, fmt.Errorf("page at %d: unexpected page type %d", pos, p.Type)
		}
		pages = append(pages, p)
		pos += int64(n) + int64(p.Compressed)
	}
	return pages, nil
}

// Entry is one decoded (value, r, d) entry of a column.
type Entry struct {
	Null bool
	I    int64
	B    []byte
	R, D int
}

// PageData is a decoded data page.
type DecodedPage struct {
	Info             *PageInfo
	Entries          []Entry
	NonNull          int
	Rows             int    // number of entries with r == 0
	UncompressedBody []byte // v1: whole body; v2: levels + decompressed values
}

func levelWidth(max int) int { return bits.Len(uint(max)) }

// DecodeChunk decodes all pages of a chunk.
func (f *File) DecodeChunk(ch *Chunk, leaf *Leaf, pages []PageInfo) ([]DecodedPage, *Vals, error) {
	var dict *Vals
	var out []DecodedPage
	for i := range pages {
		p := &pages[i]
		switch p.Type {
		case PageDictionary:
			if dict != nil {
				return out, dict, fmt.Errorf("second dictionary page at %d", p.Offset)
			}
			body, err := Decompress(ch.Codec, p.Body, p.Uncompressed)
			if err != nil {
				return out, dict, fmt.Errorf("dictionary page at %d: decompress: %w", p.Offset, err)
			}
			if len(body) != p.Uncompressed {
				return out, dict, fmt.Errorf("dictionary page at %d: decompressed to %d bytes, header says %d", p.Offset, len(body), p.Uncompressed)
			}
			if p.Encoding != EPlain && p.Encoding != EPlainDictionary {
				return out, dict, fmt.Errorf("dictionary page at %d: encoding %d", p.Offset, p.Encoding)
			}
			dict, err = DecodePlain(leaf.Type, leaf.TypeLength, body, p.NumValues)
			if err != nil {
				return out, dict, fmt.Errorf("dictionary page at %d: %w", p.Offset, err)
			}
		case PageData, PageDataV2:
			dp, err := f.decodeDataPage(ch, leaf, p, dict)
			if err != nil {
				return out, dict, fmt.Errorf("data page at %d: %w", p.Offset, err)
			}
			out = append(out, *dp)
		}
	}
	return out, dict, nil
}

func (f *File) decodeDataPage(ch *Chunk, leaf *Leaf, p *PageInfo, dict *Vals) (*DecodedPage, error) {
	var reps, defs []uint32
	var values []byte
	n := p.NumValues
	if n < 0 {
		return nil, errors.New("negative num_values")
	}
	dp := &DecodedPage{Info: p}
	if p.Type == PageData {
		body, err := Decompress(ch.Codec, p.Body, p.Uncompressed)
		if err != nil {
			return nil, fmt.Errorf("decompress: %w", err)
		}
		if len(body) != p.Uncompressed {
			return nil, fmt.Errorf("decompressed to %d bytes, header says uncompressed_page_size=%d", len(body), p.Uncompressed)
		}
		dp.UncompressedBody = body
		pos := 0
		readLevels := func(max int, enc int) ([]uint32, error) {
			if max == 0 {
				return nil, nil
			}
			switch enc {
			case ERLE:
				if pos+4 > len(body) {
					return nil, errors.New("truncated level length")
				}
				l := int(binary.LittleEndian.Uint32(body[pos:]))
				pos += 4
				if l < 0 || pos+l > len(body) {
					return nil, fmt.Errorf("level section of %d bytes exceeds the page", l)
				}
				lv, err := DecodeHybrid(body[pos:pos+l], levelWidth(max), n, f.Len)
				pos += l
				return lv, err
			case EBitPacked:
				w := levelWidth(max)
				nb := (n*w + 7) / 8
				if pos+nb > len(body) {
					return nil, errors.New("truncated bit-packed levels")
				}
				lv, err := DecodeBitPackedLevels(body[pos:pos+nb], w, n)
				pos += nb
				return lv, err
			}
			return nil, fmt.Errorf("level encoding %d", enc)
		}
		if reps, err = readLevels(leaf.MaxRep, p.RepEncoding); err != nil {
			return nil, fmt.Errorf("repetition levels: %w", err)
		}
		if defs, err = readLevels(leaf.MaxDef, p.DefEncoding); err != nil {
			return nil, fmt.Errorf("definition levels: %w", err)
		}
		values = body[pos:]
	} else {
		if p.RepLen < 0 || p.DefLen < 0 || p.RepLen+p.DefLen > len(p.Body) {
			return nil, fmt.Errorf("level byte lengths %d+%d exceed the page body of %d", p.RepLen, p.DefLen, len(p.Body))
		}
		if leaf.MaxRep == 0 && p.RepLen != 0 {
			f.Len.add("v2.repetition_levels_on_flat_column")
		}
		if leaf.MaxDef == 0 && p.DefLen != 0 {
			f.Len.add("v2.definition_levels_on_required_column")
		}
		var err error
		if leaf.MaxRep > 0 {
			if reps, err = DecodeHybrid(p.Body[:p.RepLen], levelWidth(leaf.MaxRep), n, f.Len); err != nil {
				return nil, fmt.Errorf("repetition levels: %w", err)
			}
		}
		if leaf.MaxDef > 0 {
			if defs, err = DecodeHybrid(p.Body[p.RepLen:p.RepLen+p.DefLen], levelWidth(leaf.MaxDef), n, f.Len); err != nil {
				return nil, fmt.Errorf("definition levels: %w", err)
			}
		}
		raw := p.Body[p.RepLen+p.DefLen:]
		want := p.Uncompressed - p.RepLen - p.DefLen
		if p.IsCompressed && ch.Codec != CodecUncompressed {
			if values, err = Decompress(ch.Codec, raw, want); err != nil {
				return nil, fmt.Errorf("decompress: %w", err)
			}
		} else {
			values = raw
		}
		if len(values) != want {
			return nil, fmt.Errorf("values section is %d bytes, uncompressed_page_size - levels = %d", len(values), want)
		}
		dp.UncompressedBody = append(append([]byte{}, p.Body[:p.RepLen+p.DefLen]...), values...)
	}
	nonNull := n
	if defs != nil {
		nonNull = 0
		for _, d := range defs {
			if int(d) > leaf.MaxDef {
				return nil, fmt.Errorf("definition level %d exceeds max %d", d, leaf.MaxDef)
			}
			if int(d) == leaf.MaxDef {
				nonNull++
			}
		}
	}
	for _, r := range reps {
		if int(r) > leaf.MaxRep {
			return nil, fmt.Errorf("repetition level %d exceeds max %d", r, leaf.MaxRep)
		}
	}
	dp.NonNull = nonNull
	var vals *Vals
	var err error
	switch p.Encoding {
	case ERLEDictionary, EPlainDictionary:
		if dict == nil {
			return nil, errors.New("dictionary-encoded page without a preceding dictionary page")
		}
		var idx []uint32
		if nonNull == 0 && len(values) == 0 {
			idx = nil
		} else if idx, err = DecodeDictIndexes(values, nonNull, f.Len); err != nil {
			return nil, fmt.Errorf("dictionary indexes: %w", err)
		}
		vals = &Vals{Kind: leaf.Type}
		for _, ix := range idx {
			if int(ix) >= dict.Len() {
				return nil, fmt.Errorf("dictionary index %d out of range (dictionary has %d values)", ix, dict.Len())
			}
			if dict.B != nil && (leaf.Type == TByteArr || leaf.Type == TFixed || leaf.Type == TInt96) {
				vals.B = append(vals.B, dict.B[ix])
			} else {
				vals.I = append(vals.I, dict.I[ix])
			}
		}
	default:
		vals, err = DecodeValues(p.Encoding, leaf.Type, leaf.TypeLength, values, nonNull, f.Len)
		if err != nil {
			return nil, fmt.Errorf("values (%d non-null, encoding %d): %w", nonNull, p.Encoding, err)
		}
		if vals.Len() != nonNull {
			return nil, fmt.Errorf("decoded %d values, levels say %d non-null", vals.Len(), nonNull)
		}
	}
	isBytes := leaf.Type == TByteArr || leaf.Type == TFixed || leaf.Type == TInt96
	vi := 0
	for i := 0; i < n; i++ {
		e := Entry{}
		if reps != nil {
			e.R = int(reps[i])
		}
		if defs != nil {
			e.D = int(defs[i])
		}
		if e.D < leaf.MaxDef {
			e.Null = true
		} else {
			if isBytes {
				e.B = vals.B[vi]
			} else {
				e.I = vals.I[vi]
			}
			vi++
		}
		if e.R == 0 {
			dp.Rows++
		}
		dp.Entries = append(dp.Entries, e)
	}
	return dp, nil
}

// PageCRC is the CRC-32 (IEEE) of the page bytes following the header.
func PageCRC(body []byte) uint32 { return crc32.ChecksumIEEE(body) }

// ColumnIndex / OffsetIndex ---------------------------------------------------

type ColumnIndex struct {
	NullPages              []bool
	MinValues              [][]byte
	MaxValues              [][]byte
	BoundaryOrder          int
	NullCounts             []int64
	HasNullCounts          bool
	RepHist                []int64
	DefHist                []int64
	HasRepHist, HasDefHist bool
}

type PageLocation struct {
	Offset   int64
	Size     int32
	FirstRow int64
}

type OffsetIndex struct {
	Pages        []PageLocation
	Unencoded    []int64
	HasUnencoded bool
}

func (f *File) ReadColumnIndex(ch *Chunk) (*ColumnIndex, error) {
	if !ch.HasColumnIndex || ch.ColumnIndexLength == 0 {
		return nil, nil
	}
	lo, hi := ch.ColumnIndexOffset, ch.ColumnIndexOffset+ch.ColumnIndexLength
	if lo < 4 || hi > int64(f.FooterPos) {
		return nil, fmt.Errorf("column index [%d,%d) outside the file body", lo, hi)
	}
	v, used, err := DecodeStruct(f.Data[lo:hi])
	if err != nil {
		return nil, fmt.Errorf("column index: %w", err)
	}
	if int64(used) != ch.ColumnIndexLength {
		return nil, fmt.Errorf("column index: %d bytes decoded, column_index_length=%d", used, ch.ColumnIndexLength)
	}
	ci := &ColumnIndex{BoundaryOrder: int(v.Int(4, -1)), HasNullCounts: v.Has(5), HasRepHist: v.Has(6), HasDefHist: v.Has(7)}
	for _, x := range v.Items(1) {
		ci.NullPages = append(ci.NullPages, x.I != 0)
	}
	for _, x := range v.Items(2) {
		ci.MinValues = append(ci.MinValues, x.Bin)
	}
	for _, x := range v.Items(3) {
		ci.MaxValues = append(ci.MaxValues, x.Bin)
	}
	for _, x := range v.Items(5) {
		ci.NullCounts = append(ci.NullCounts, x.I)
	}
	for _, x := range v.Items(6) {
		ci.RepHist = append(ci.RepHist, x.I)
	}
	for _, x := range v.Items(7) {
		ci.DefHist = append(ci.DefHist, x.I)
	}
	return ci, nil
}

func (f *File) ReadOffsetIndex(ch *Chunk) (*OffsetIndex, error) {
	if !ch.HasOffsetIndex || ch.OffsetIndexLength == 0 {
		return nil, nil
	}
	lo, hi := ch.OffsetIndexOffset, ch.OffsetIndexOffset+ch.OffsetIndexLength
	if lo < 4 || hi > int64(f.FooterPos) {
		return nil, fmt.Errorf("offset index [%d,%d) outside the file body", lo, hi)
	}
	v, used, err := DecodeStruct(f.Data[lo:hi])
	if err != nil {
		return nil, fmt.Errorf("offset index: %w", err)
	}
	if int64(used) != ch.OffsetIndexLength {
		return nil, fmt.Errorf("offset index: %d bytes decoded, offset_index_length=%d", used, ch.OffsetIndexLength)
	}
	oi := &OffsetIndex{HasUnencoded: v.Has(2)}
	for _, x := range v.Items(1) {
		x := x
		oi.Pages = append(oi.Pages, PageLocation{Offset: x.Int(1, -1), Size: int32(x.Int(2, -1)), FirstRow: x.Int(3, -1)})
	}
	for _, x := range v.Items(2) {
		oi.Unencoded = append(oi.Unencoded, x.I)
	}
	return oi, nil
}

// Compare implements the spec's type-defined sort orders. ok=false means the
// order is undefined (INT96) and statistics must be ignored.
func (l *Leaf) Compare(a, b Entry) (int, bool) {
	unsigned := false
	decimal := false
	if l.Logical != nil {
		if it := l.Logical.F(10); it != nil { // IntType
			unsigned = !it.Bool(2, true)
		}
		if l.Logical.Has(5) {
			decimal = true
		}
	}
	switch l.Converted {
	case 11, 12, 13, 14: // UINT_8..UINT_64
		unsigned = true
	case 5:
		decimal = true
	}
	switch l.Type {
	case TBoolean, TInt32, TInt64:
		if unsigned {
			x, y := uint64(a.I), uint64(b.I)
			if l.Type == TInt32 {
				x, y = uint64(uint32(a.I)), uint64(uint32(b.I))
			}
			return cmpU(x, y), true
		}
		return cmpI(a.I, b.I), true
	case TFloat:
		return cmpF(float64(f32frombits(uint32(a.I))), float64(f32frombits(uint32(b.I)))), true
	case TDouble:
		return cmpF(f64frombits(uint64(a.I)), f64frombits(uint64(b.I))), true
	case TByteArr, TFixed:
		if decimal {
			return cmpDecimal(a.B, b.B), true
		}
		return bytes.Compare(a.B, b.B), true
	}
	return 0, false
}

func cmpI(a, b int64) int {
	if a < b {
		return -1
	} else if a > b {
		return 1
	}
	return 0
}
func cmpU(a, b uint64) int {
	if a < b {
		return -1
	} else if a > b {
		return 1
	}
	return 0
}
func cmpF(a, b float64) int {
	if a < b {
		return -1
	} else if a > b {
		return 1
	}
	return 0
}

// cmpDecimal compares big-endian two's complement integers of any length.
func cmpDecimal(a, b []byte) int {
	neg := func(x []byte) bool { return len(x) > 0 && x[0]&0x80 != 0 }
	na, nb := neg(a), neg(b)
	if na != nb {
		if na {
			return -1
		}
		return 1
	}
	// sign-extend to equal length
	n := len(a)
	if len(b) > n {
		n = len(b)
	}
	ext := func(x []byte, negv bool) []byte {
		out := make([]byte, n)
		fill := byte(0)
		if negv {
			fill = 0xFF
		}
		for i := 0; i < n-len(x); i++ {
			out[i] = fill
		}
		copy(out[n-len(x):], x)
		return out
	}
	return bytes.Compare(ext(a, na), ext(b, nb))
}

// SortedChunks returns all chunks ordered by their first byte, for overlap checks.
func (f *File) chunkSpans() [][3]int64 {
	var spans [][3]int64
	for gi := range f.RowGroups {
		for ci := range f.RowGroups[gi].Chunks {
			ch := &f.RowGroups[gi].Chunks[ci]
			if !ch.HasMeta {
				continue
			}
			start := ch.DataPageOffset
			if ch.HasDictOffset && ch.DictPageOffset > 0 && ch.DictPageOffset < start {
				start = ch.DictPageOffset
			}
			spans = append(spans, [3]int64{start, start + ch.TotalCompressed, int64(gi*100000 + ci)})
		}
	}
	sort.Slice(spans, func(i, j int) bool { return spans[i][0] < spans[j][0] })
	return spans
}
