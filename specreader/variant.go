package specreader

import (
	"encoding/binary"
	"errors"
	"fmt"
	"sort"
)

// Independent decoder of the Variant binary encoding (VariantEncoding.md).

// VT is a decoded variant value tree.
type VT struct {
	Kind   string // null bool int8 int16 int32 int64 float double decimal4 decimal8 decimal16 date timestamp timestamp_ntz time timestamp_nanos timestamp_ntz_nanos binary string uuid object array
	I      int64
	Bits   uint64 // float/double bit pattern
	S      string
	B      []byte // binary, uuid (16), decimal16 (16, little-endian as stored)
	Scale  byte
	Fields map[string]*VT
	Order  []string
	Elems  []*VT
}

func readLE(b []byte, n int) (uint64, error) {
	if len(b) < n {
		return 0, errors.New("variant: truncated")
	}
	var v uint64
	for i := 0; i < n; i++ {
		v |= uint64(b[i]) << (8 * uint(i))
	}
	return v, nil
}

// VariantMetadata decodes the metadata dictionary.
func VariantMetadata(b []byte) ([]string, error) {
	if len(b) < 1 {
		return nil, errors.New("variant metadata: empty")
	}
	h := b[0]
	if h&0x0F != 1 {
		return nil, fmt.Errorf("variant metadata: version %d", h&0x0F)
	}
	osz := int(h>>6) + 1
	n64, err := readLE(b[1:], osz)
	if err != nil {
		return nil, err
	}
	n := int(n64)
	pos := 1 + osz
	if n < 0 || pos+(n+1)*osz > len(b) {
		return nil, fmt.Errorf("variant metadata: %d entries do not fit", n)
	}
	offs := make([]int, n+1)
	for i := range offs {
		v, _ := readLE(b[pos+i*osz:], osz)
		offs[i] = int(v)
	}
	base := pos + (n+1)*osz
	out := make([]string, n)
	for i := 0; i < n; i++ {
		lo, hi := base+offs[i], base+offs[i+1]
		if lo > hi || hi > len(b) {
			return nil, fmt.Errorf("variant metadata: string %d spans [%d,%d) of %d", i, lo, hi, len(b))
		}
		out[i] = string(b[lo:hi])
	}
	if h&0x10 != 0 {
		if !sort.StringsAreSorted(out) {
			return nil, errors.New("variant metadata: sorted_strings is set but the dictionary is not sorted")
		}
		for i := 1; i < len(out); i++ {
			if out[i] == out[i-1] {
				return nil, errors.New("variant metadata: sorted_strings is set but the dictionary has duplicates")
			}
		}
	}
	return out, nil
}

// VariantValue decodes one value and returns it with the number of bytes it occupies.
func VariantValue(dict []string, b []byte, depth int) (*VT, int, error) {
	if depth > 100 {
		return nil, 0, errors.New("variant: nesting too deep")
	}
	if len(b) < 1 {
		return nil, 0, errors.New("variant: empty value")
	}
	basic, hdr := b[0]&3, b[0]>>2
	switch basic {
	case 1: // short string
		n := int(hdr)
		if 1+n > len(b) {
			return nil, 0, errors.New("variant: truncated short string")
		}
		return &VT{Kind: "string", S: string(b[1 : 1+n])}, 1 + n, nil
	case 2: // object
		offSz := int(hdr&3) + 1
		idSz := int(hdr>>2&3) + 1
		large := hdr>>4&1 == 1
		pos := 1
		nsz := 1
		if large {
			nsz = 4
		}
		n64, err := readLE(b[pos:], nsz)
		if err != nil {
			return nil, 0, err
		}
		n := int(n64)
		pos += nsz
		if pos+n*idSz+(n+1)*offSz > len(b) {
			return nil, 0, errors.New("variant: object header does not fit")
		}
		ids := make([]int, n)
		for i := range ids {
			v, _ := readLE(b[pos+i*idSz:], idSz)
			ids[i] = int(v)
		}
		pos += n * idSz
		offs := make([]int, n+1)
		for i := range offs {
			v, _ := readLE(b[pos+i*offSz:], offSz)
			offs[i] = int(v)
		}
		pos += (n + 1) * offSz
		obj := &VT{Kind: "object", Fields: map[string]*VT{}}
		prev := ""
		for i := 0; i < n; i++ {
			if ids[i] >= len(dict) {
				return nil, 0, fmt.Errorf("variant: field id %d outside the dictionary of %d", ids[i], len(dict))
			}
			name := dict[ids[i]]
			if i > 0 && name <= prev {
				return nil, 0, fmt.Errorf("variant: object fields are not sorted by name (%q after %q)", name, prev)
			}
			prev = name
			lo := pos + offs[i]
			if lo > len(b) {
				return nil, 0, errors.New("variant: field offset outside the value")
			}
			v, _, err := VariantValue(dict, b[lo:], depth+1)
			if err != nil {
				return nil, 0, fmt.Errorf("field %q: %w", name, err)
			}
			obj.Fields[name] = v
			obj.Order = append(obj.Order, name)
		}
		total := pos + offs[n]
		if total > len(b) {
			return nil, 0, errors.New("variant: object data outside the value")
		}
		return obj, total, nil
	case 3: // array
		offSz := int(hdr&3) + 1
		large := hdr>>2&1 == 1
		pos := 1
		nsz := 1
		if large {
			nsz = 4
		}
		n64, err := readLE(b[pos:], nsz)
		if err != nil {
			return nil, 0, err
		}
		n := int(n64)
		pos += nsz
		if pos+(n+1)*offSz > len(b) {
			return nil, 0, errors.New("variant: array header does not fit")
		}
		offs := make([]int, n+1)
		for i := range offs {
			v, _ := readLE(b[pos+i*offSz:], offSz)
			offs[i] = int(v)
		}
		pos += (n + 1) * offSz
		arr := &VT{Kind: "array", Elems: []*VT{}}
		for i := 0; i < n; i++ {
			lo, hi := pos+offs[i], pos+offs[i+1]
			if lo > hi || hi > len(b) {
				return nil, 0, errors.New("variant: array element outside the value")
			}
			v, used, err := VariantValue(dict, b[lo:hi], depth+1)
			if err != nil {
				return nil, 0, fmt.Errorf("element %d: %w", i, err)
			}
			if used != hi-lo {
				return nil, 0, fmt.Errorf("variant: array element %d occupies %d bytes, offsets say %d", i, used, hi-lo)
			}
			arr.Elems = append(arr.Elems, v)
		}
		return arr, pos + offs[n], nil
	}
	// primitive
	fixed := func(kind string, n int, signed bool) (*VT, int, error) {
		u, err := readLE(b[1:], n)
		if err != nil {
			return nil, 0, err
		}
		v := int64(u)
		if signed && n < 8 {
			shift := uint(64 - 8*n)
			v = int64(u<<shift) >> shift
		}
		return &VT{Kind: kind, I: v, Bits: u}, 1 + n, nil
	}
	switch hdr {
	case 0:
		return &VT{Kind: "null"}, 1, nil
	case 1:
		return &VT{Kind: "bool", I: 1}, 1, nil
	case 2:
		return &VT{Kind: "bool", I: 0}, 1, nil
	case 3:
		return fixed("int8", 1, true)
	case 4:
		return fixed("int16", 2, true)
	case 5:
		return fixed("int32", 4, true)
	case 6:
		return fixed("int64", 8, true)
	case 7:
		return fixed("double", 8, false)
	case 8, 9, 10:
		n := map[byte]int{8: 4, 9: 8, 10: 16}[hdr]
		if len(b) < 2+n {
			return nil, 0, errors.New("variant: truncated decimal")
		}
		v := &VT{Kind: map[byte]string{8: "decimal4", 9: "decimal8", 10: "decimal16"}[hdr], Scale: b[1]}
		if n == 16 {
			v.B = append([]byte{}, b[2:18]...)
		} else {
			u, _ := readLE(b[2:], n)
			shift := uint(64 - 8*n)
			v.I = int64(u<<shift) >> shift
		}
		return v, 2 + n, nil
	case 11:
		return fixed("date", 4, true)
	case 12:
		return fixed("timestamp", 8, true)
	case 13:
		return fixed("timestamp_ntz", 8, true)
	case 14:
		return fixed("float", 4, false)
	case 15, 16:
		if len(b) < 5 {
			return nil, 0, errors.New("variant: truncated length")
		}
		n := int(binary.LittleEndian.Uint32(b[1:]))
		if n < 0 || 5+n > len(b) {
			return nil, 0, errors.New("variant: truncated binary/string")
		}
		if hdr == 15 {
			return &VT{Kind: "binary", B: append([]byte{}, b[5:5+n]...)}, 5 + n, nil
		}
		return &VT{Kind: "string", S: string(b[5 : 5+n])}, 5 + n, nil
	case 17:
		return fixed("time", 8, true)
	case 18:
		return fixed("timestamp_nanos", 8, true)
	case 19:
		return fixed("timestamp_ntz_nanos", 8, true)
	case 20:
		if len(b) < 17 {
			return nil, 0, errors.New("variant: truncated uuid")
		}
		return &VT{Kind: "uuid", B: append([]byte{}, b[1:17]...)}, 17, nil
	}
	return nil, 0, fmt.Errorf("variant: unknown primitive type %d", hdr)
}

// VTEqual is structural equality: object field order is irrelevant, floats compare by bits.
func VTEqual(a, b *VT) (bool, string) {
	if a == nil || b == nil {
		return a == b, "nil"
	}
	if a.Kind != b.Kind {
		return false, fmt.Sprintf("kind %s != %s", a.Kind, b.Kind)
	}
	switch a.Kind {
	case "object":
		if len(a.Fields) != len(b.Fields) {
			return false, fmt.Sprintf("object with %d fields != %d fields", len(a.Fields), len(b.Fields))
		}
		for k, av := range a.Fields {
			bv, ok := b.Fields[k]
			if !ok {
				return false, fmt.Sprintf("field %q missing", k)
			}
			if ok, d := VTEqual(av, bv); !ok {
				return false, "." + k + ": " + d
			}
		}
	case "array":
		if len(a.Elems) != len(b.Elems) {
			return false, fmt.Sprintf("array of %d != %d", len(a.Elems), len(b.Elems))
		}
		for i := range a.Elems {
			if ok, d := VTEqual(a.Elems[i], b.Elems[i]); !ok {
				return false, fmt.Sprintf("[%d]: %s", i, d)
			}
		}
	case "float", "double":
		ab, bb := a.Bits, b.Bits
		if a.Kind == "float" && ab&0x7f800000 == 0x7f800000 && ab&0x007fffff != 0 && bb&0x7f800000 == 0x7f800000 && bb&0x007fffff != 0 {
			// a float32 NaN that went through a float64 comes back quiet: signalling and quiet NaN are the same value; sign and payload still have to match
			ab |= 0x00400000
			bb |= 0x00400000
		}
		if ab != bb {
			return false, fmt.Sprintf("%s bits %#x != %#x", a.Kind, a.Bits, b.Bits)
		}
	case "string":
		if a.S != b.S {
			return false, fmt.Sprintf("string %q != %q", trunc(a.S), trunc(b.S))
		}
	case "binary", "uuid":
		if string(a.B) != string(b.B) {
			return false, fmt.Sprintf("%s %x != %x", a.Kind, a.B, b.B)
		}
	case "decimal16":
		if string(a.B) != string(b.B) || a.Scale != b.Scale {
			return false, fmt.Sprintf("decimal16 %x/%d != %x/%d", a.B, a.Scale, b.B, b.Scale)
		}
	case "decimal4", "decimal8":
		if a.I != b.I || a.Scale != b.Scale {
			return false, fmt.Sprintf("%s %d/%d != %d/%d", a.Kind, a.I, a.Scale, b.I, b.Scale)
		}
	case "null":
	default:
		if a.I != b.I {
			return false, fmt.Sprintf("%s %d != %d", a.Kind, a.I, b.I)
		}
	}
	return true, ""
}

func trunc(s string) string {
	if len(s) > 30 {
		return s[:30] + "…"
	}
	return s
}

// DecodeVariant decodes (metadata, value) into a tree and checks that the value occupies all its bytes.
func DecodeVariant(metadata, value []byte) (*VT, error) {
	dict, err := VariantMetadata(metadata)
	if err != nil {
		return nil, err
	}
	v, used, err := VariantValue(dict, value, 0)
	if err != nil {
		return nil, err
	}
	if used != len(value) {
		return nil, fmt.Errorf("variant: value occupies %d of %d bytes", used, len(value))
	}
	return v, nil
}
