package specreader

import (
	"encoding/binary"
	"errors"
	"fmt"
	"math"
)

// Thrift compact protocol, decoded into a schema-less tree (DESIGN §3.3).

const (
	ctStop   = 0
	ctTrue   = 1
	ctFalse  = 2
	ctByte   = 3
	ctI16    = 4
	ctI32    = 5
	ctI64    = 6
	ctDouble = 7
	ctBinary = 8
	ctList   = 9
	ctSet    = 10
	ctMap    = 11
	ctStruct = 12
)

// TV is a thrift value.
type TV struct {
	Type   byte
	I      int64
	D      float64
	Bin    []byte
	List   []TV
	Fields map[int16]*TV
	Order  []int16 // field ids in the order they appeared
}

type tdec struct {
	b   []byte
	pos int
}

func (d *tdec) byte() (byte, error) {
	if d.pos >= len(d.b) {
		return 0, errors.New("thrift: unexpected end of data")
	}
	c := d.b[d.pos]
	d.pos++
	return c, nil
}

func (d *tdec) uvarint() (uint64, error) {
	v, n := binary.Uvarint(d.b[d.pos:])
	if n <= 0 {
		return 0, errors.New("thrift: bad varint")
	}
	d.pos += n
	return v, nil
}

func (d *tdec) value(t byte, depth int) (*TV, error) {
	if depth > 64 {
		return nil, errors.New("thrift: nesting too deep")
	}
	v := &TV{Type: t}
	switch t {
	case ctTrue:
		v.I = 1
	case ctFalse:
		v.I = 0
	case ctByte:
		c, err := d.byte()
		if err != nil {
			return nil, err
		}
		v.I = int64(int8(c))
	case ctI16, ctI32, ctI64:
		u, err := d.uvarint()
		if err != nil {
			return nil, err
		}
		v.I = zigzag(u)
	case ctDouble:
		if d.pos+8 > len(d.b) {
			return nil, errors.New("thrift: truncated double")
		}
		v.D = math.Float64frombits(binary.LittleEndian.Uint64(d.b[d.pos:]))
		d.pos += 8
	case ctBinary:
		n, err := d.uvarint()
		if err != nil {
			return nil, err
		}
		if n > uint64(len(d.b)-d.pos) {
			return nil, fmt.Errorf("thrift: binary of %d bytes exceeds data", n)
		}
		v.Bin = d.b[d.pos : d.pos+int(n)]
		d.pos += int(n)
	case ctList, ctSet:
		h, err := d.byte()
		if err != nil {
			return nil, err
		}
		size := uint64(h >> 4)
		et := h & 15
		if size == 15 {
			if size, err = d.uvarint(); err != nil {
				return nil, err
			}
		}
		if size > uint64(len(d.b)-d.pos)+1 && et != ctTrue && et != ctFalse {
			return nil, fmt.Errorf("thrift: list of %d elements exceeds data", size)
		}
		v.List = make([]TV, 0, size)
		for i := uint64(0); i < size; i++ {
			if et == ctTrue || et == ctFalse {
				c, err := d.byte()
				if err != nil {
					return nil, err
				}
				x := TV{Type: ctTrue}
				if c == 1 {
					x.I = 1
				}
				v.List = append(v.List, x)
				continue
			}
			e, err := d.value(et, depth+1)
			if err != nil {
				return nil, err
			}
			v.List = append(v.List, *e)
		}
	case ctMap:
		size, err := d.uvarint()
		if err != nil {
			return nil, err
		}
		if size > 0 {
			kv, err := d.byte()
			if err != nil {
				return nil, err
			}
			for i := uint64(0); i < size; i++ {
				k, err := d.value(kv>>4, depth+1)
				if err != nil {
					return nil, err
				}
				x, err := d.value(kv&15, depth+1)
				if err != nil {
					return nil, err
				}
				v.List = append(v.List, *k, *x)
			}
		}
	case ctStruct:
		v.Fields = map[int16]*TV{}
		var last int16
		for {
			h, err := d.byte()
			if err != nil {
				return nil, err
			}
			if h == ctStop {
				break
			}
			ft := h & 15
			var id int16
			if delta := h >> 4; delta != 0 {
				id = last + int16(delta)
			} else {
				u, err := d.uvarint()
				if err != nil {
					return nil, err
				}
				id = int16(zigzag(u))
			}
			last = id
			f, err := d.value(ft, depth+1)
			if err != nil {
				return nil, fmt.Errorf("field %d: %w", id, err)
			}
			v.Fields[id] = f
			v.Order = append(v.Order, id)
		}
	default:
		return nil, fmt.Errorf("thrift: unknown type %d", t)
	}
	return v, nil
}

// DecodeStruct decodes one thrift struct at the start of b and returns it
// with the number of bytes consumed.
func DecodeStruct(b []byte) (*TV, int, error) {
	d := &tdec{b: b}
	v, err := d.value(ctStruct, 0)
	if err != nil {
		return nil, 0, err
	}
	return v, d.pos, nil
}

// accessors (nil-safe)

func (v *TV) F(id int16) *TV {
	if v == nil || v.Fields == nil {
		return nil
	}
	return v.Fields[id]
}

func (v *TV) Has(id int16) bool { return v.F(id) != nil }

func (v *TV) Int(id int16, def int64) int64 {
	if f := v.F(id); f != nil {
		return f.I
	}
	return def
}

func (v *TV) Bytes(id int16) []byte {
	if f := v.F(id); f != nil {
		return f.Bin
	}
	return nil
}

func (v *TV) Str(id int16) string { return string(v.Bytes(id)) }

func (v *TV) Items(id int16) []TV {
	if f := v.F(id); f != nil {
		return f.List
	}
	return nil
}

func (v *TV) Bool(id int16, def bool) bool {
	if f := v.F(id); f != nil {
		return f.I != 0
	}
	return def
}
