package specreader

import (
	"encoding/binary"
	"errors"
	"fmt"
	"math/bits"
)

// xxhash64 (XXH64, seed 0), written from the algorithm description.
const (
	xxP1 = 11400714785074694791
	xxP2 = 14029467366897019727
	xxP3 = 1609587929392839161
	xxP4 = 9650029242287828579
	xxP5 = 2870177450012600261
)

func xxRound(acc, in uint64) uint64 {
	acc += in * xxP2
	acc = bits.RotateLeft64(acc, 31)
	return acc * xxP1
}

func xxMerge(acc, v uint64) uint64 {
	v = xxRound(0, v)
	acc ^= v
	return acc*xxP1 + xxP4
}

// XXH64 computes the 64-bit xxHash of b with seed 0.
func XXH64(b []byte) uint64 {
	n := len(b)
	var h uint64
	p := 0
	if n >= 32 {
		var p1, p2, p3, p4 uint64 = xxP1, xxP2, 0, xxP1
		v1, v2, v3, v4 := p1+p2, p2, p3, -p4
		for ; p+32 <= n; p += 32 {
			v1 = xxRound(v1, binary.LittleEndian.Uint64(b[p:]))
			v2 = xxRound(v2, binary.LittleEndian.Uint64(b[p+8:]))
			v3 = xxRound(v3, binary.LittleEndian.Uint64(b[p+16:]))
			v4 = xxRound(v4, binary.LittleEndian.Uint64(b[p+24:]))
		}
		h = bits.RotateLeft64(v1, 1) + bits.RotateLeft64(v2, 7) + bits.RotateLeft64(v3, 12) + bits.RotateLeft64(v4, 18)
		h = xxMerge(h, v1)
		h = xxMerge(h, v2)
		h = xxMerge(h, v3)
		h = xxMerge(h, v4)
	} else {
		h = xxP5
	}
	h += uint64(n)
	for ; p+8 <= n; p += 8 {
		k := xxRound(0, binary.LittleEndian.Uint64(b[p:]))
		h ^= k
		h = bits.RotateLeft64(h, 27)*xxP1 + xxP4
	}
	if p+4 <= n {
		h ^= uint64(binary.LittleEndian.Uint32(b[p:])) * xxP1
		h = bits.RotateLeft64(h, 23)*xxP2 + xxP3
		p += 4
	}
	for ; p < n; p++ {
		h ^= uint64(b[p]) * xxP5
		h = bits.RotateLeft64(h, 11) * xxP1
	}
	h ^= h >> 33
	h *= xxP2
	h ^= h >> 29
	h *= xxP3
	h ^= h >> 32
	return h
}

var sbbfSalt = [8]uint32{0x47b6137b, 0x44974d91, 0x8824ad5b, 0xa2b7289d, 0x705495c7, 0x2df1424b, 0x9efc4947, 0x5c6bfb31}

// SBBFCheck tests a hash against a split block bloom filter bitset (BloomFilter.md).
func SBBFCheck(bitset []byte, hash uint64) bool {
	nblocks := uint64(len(bitset) / 32)
	if nblocks == 0 {
		return false
	}
	block := ((hash >> 32) * nblocks) >> 32
	key := uint32(hash)
	for i := 0; i < 8; i++ {
		bit := (key * sbbfSalt[i]) >> 27
		word := binary.LittleEndian.Uint32(bitset[block*32+uint64(i)*4:])
		if word&(1<<bit) == 0 {
			return false
		}
	}
	return true
}

// BloomFilter is a parsed bloom filter of a chunk.
type BloomFilter struct {
	NumBytes   int
	Bitset     []byte // nil when the bitset is stored compressed (library extension)
	Compressed bool
	HeaderLen  int
}

// ReadBloomFilter parses the bloom filter header of a chunk and returns its bitset.
func (f *File) ReadBloomFilter(ch *Chunk) (*BloomFilter, error) {
	if !ch.HasBloomOffset || ch.BloomOffset <= 0 {
		return nil, nil
	}
	if ch.BloomOffset >= int64(f.FooterPos) {
		return nil, fmt.Errorf("bloom_filter_offset=%d outside the file body", ch.BloomOffset)
	}
	h, n, err := DecodeStruct(f.Data[ch.BloomOffset:f.FooterPos])
	if err != nil {
		return nil, fmt.Errorf("bloom filter header: %w", err)
	}
	bf := &BloomFilter{NumBytes: int(h.Int(1, -1)), HeaderLen: n}
	if a := h.F(2); a == nil || !a.Has(1) {
		return nil, errors.New("bloom filter algorithm is not BLOCK")
	}
	if a := h.F(3); a == nil || !a.Has(1) {
		return nil, errors.New("bloom filter hash is not XXHASH")
	}
	if cmp := h.F(4); cmp != nil && !cmp.Has(1) {
		bf.Compressed = true
		return bf, nil
	}
	start := ch.BloomOffset + int64(n)
	if bf.NumBytes <= 0 || bf.NumBytes%32 != 0 || start+int64(bf.NumBytes) > int64(f.FooterPos) {
		return nil, fmt.Errorf("bloom filter numBytes=%d does not fit", bf.NumBytes)
	}
	bf.Bitset = f.Data[start : start+int64(bf.NumBytes)]
	return bf, nil
}

// PlainBytes returns the PLAIN encoding of a non-null entry (what the spec hashes).
func (l *Leaf) PlainBytes(e Entry) ([]byte, bool) {
	switch l.Type {
	case TInt32, TFloat:
		b := make([]byte, 4)
		binary.LittleEndian.PutUint32(b, uint32(e.I))
		return b, true
	case TInt64, TDouble:
		b := make([]byte, 8)
		binary.LittleEndian.PutUint64(b, uint64(e.I))
		return b, true
	case TByteArr, TFixed, TInt96:
		return e.B, true
	}
	return nil, false // boolean: PLAIN is bit-packed, no byte-level encoding of one value
}
